"""Tables for C04 regenerated from the staged falcon modules."""


def emit(A, nlist, strlit, strlist):
    import falcon
    from falcon import constants
    e = falcon.HTTPInternalServerError()
    A('(* falcon/constants.py, falcon/errors.py *)')
    A('Definition MEDIA_JSON : list N := %s.' % strlit(constants.MEDIA_JSON))
    A('Definition MEDIA_XML : list N := %s.' % strlit(constants.MEDIA_XML))
    A('Definition internal_error_title : list N := %s.' % strlit(e.title))
    A('Definition internal_error_status : N := %d.' % e.status_code)
    A('Definition internal_error_plain : bool := %s.' % (
        'true' if (e.description is None and e.code is None and e.link is None and e.headers is None) else 'false'))
