"""Entry point: bin/check Cnn [--tier quick|thorough] [--replay FILE]."""
import argparse
import importlib
import os
import sys
import traceback

sys.path.insert(0, os.path.dirname(os.path.abspath(__file__)))
import common  # noqa: E402


class CheckTimeout(BaseException):
    """Raised by the wall-clock watchdog: a check must never hang, whatever the code under
    test does (a mutated falcon may loop forever)."""


def _arm_watchdog(seconds):
    import signal

    def on_alarm(signum, frame):
        raise CheckTimeout('check exceeded its wall-clock limit of %d s' % seconds)
    signal.signal(signal.SIGALRM, on_alarm)
    signal.alarm(seconds)


def main():
    ap = argparse.ArgumentParser()
    ap.add_argument('prop')
    ap.add_argument('--tier', default=os.environ.get('VERIF_TIER') or 'quick', choices=['quick', 'thorough'])
    ap.add_argument('--replay', default=None)
    a = ap.parse_args()
    seed = int(os.environ.get('VERIF_SEED') or 20261001)
    ctx = common.Ctx(a.prop, a.tier, seed, a.replay)
    ctx.stage = common.stage_sources()
    # the staged pure-Python package must be the one imported
    sys.path.insert(0, ctx.stage)
    for k in [k for k in sys.modules if k == 'falcon' or k.startswith('falcon.')]:
        del sys.modules[k]
    try:
        import falcon
        import falcon.app
        import falcon.asgi
        assert falcon.__file__.startswith(ctx.stage), falcon.__file__
        assert falcon.app.__file__.endswith('.py'), falcon.app.__file__
    except BaseException as e:  # an edit that breaks import breaks every property
        ctx.model_broken = 'staged falcon does not import: %r\n%s' % (e, traceback.format_exc()[-1500:])
        sys.exit(common.finish(ctx))
    common.build(ctx, clean=(a.tier == 'thorough'))
    if a.tier == 'thorough' and not ctx.model_broken and not ctx.proof_broken and not a.replay:
        common.coqchk(ctx)
    if not ctx.model_broken:
        mod = importlib.import_module(a.prop.lower())
        limit = int(os.environ.get('VERIF_CHECK_LIMIT') or (900 if a.tier == 'quick' else 5400))
        _arm_watchdog(limit)
        try:
            if a.replay:
                import json
                with open(a.replay) as fh:
                    obj = json.load(fh)
                if hasattr(mod, 'replay') and not obj.get('broken'):
                    mod.replay(ctx, obj)
                else:  # a replay that only names a broken theorem/correspondence: run the check
                    mod.main(ctx)
            else:
                mod.main(ctx)
        except CheckTimeout as e:
            ctx.violation('check-timeout', {'broken': a.prop + ' correspondence did not finish: the implementation '
                                            'hangs or is far slower than on the unchanged tree', 'error': repr(e),
                                            'trace': traceback.format_exc()[-3000:]},
                          found_input=False, key='check-timeout')
        except BaseException as e:
            if isinstance(e, KeyboardInterrupt):
                raise
            ctx.violation('harness-crash', {'broken': a.prop + ' correspondence harness raised',
                                            'error': repr(e), 'trace': traceback.format_exc()[-3000:]},
                          found_input=False, key='harness-crash')
    try:
        import signal
        signal.alarm(0)
    except Exception:
        pass
    sys.exit(common.finish(ctx))


if __name__ == '__main__':
    main()
