"""Tables for coq/gen/ConstsC15.v, taken from the VALUES of the staged falcon modules (and of
http.cookies as patched by falcon.util)."""

PROPS = ['cache_control', 'content_location', 'content_length', 'content_range', 'content_type',
         'downloadable_as', 'viewable_as', 'etag', 'expires', 'last_modified', 'location',
         'retry_after', 'vary', 'accept_ranges']


def prop_header_name(cls, attr):
    """The lower-cased header name a `_header_property` closes over."""
    p = cls.__dict__[attr]
    fget = p.fget
    names = fget.__code__.co_freevars
    return fget.__closure__[names.index('normalized_name')].cell_contents


def emit(A, nlist, strlit, strlist):
    import falcon
    import falcon.response as response
    from falcon.util import http_cookies
    from falcon.util import misc
    A('(* http.cookies (after falcon.util patched Morsel._reserved / _flags) *)')
    A('Definition cookie_LegalChars : list N := %s.' % strlit(http_cookies._LegalChars))
    A('Definition cookie_reserved : list (list N) := %s.' % strlist(sorted(http_cookies.Morsel._reserved)))
    A('Definition cookie_flags : list (list N) := %s.' % strlist(sorted(http_cookies.Morsel._flags)))
    A("(* http.cookies._quote: characters that need no escape inside quotes, and the translation table *)")
    A('Definition cookie_UnescapedChars : list N := %s.' % strlit(http_cookies._UnescapedChars))
    A('Definition cookie_Translator : list (N * list N) := [%s].' % '; '.join(
        '(%d, %s)' % (k, strlit(v)) for k, v in sorted(http_cookies._Translator.items())))
    A('(* falcon/response.py *)')
    A('Definition samesite_values : list (list N) := %s.' % strlist(sorted(response._RESERVED_SAMESITE_VALUES)))
    A('Definition crossorigin_values : list (list N) := %s.' % strlist(sorted(response._RESERVED_CROSSORIGIN_VALUES)))
    for attr in PROPS:
        A('Definition hp_%s : list N := %s.' % (attr, strlit(prop_header_name(falcon.Response, attr))))
    A('(* falcon/util/misc.py: characters NOT matched by _UNSAFE_CHARS (%r), tested over the BMP *)'
      .replace('%r', misc._UNSAFE_CHARS.pattern.replace('*)', '* )')))
    safe = [c for c in range(0x10000) if not misc._UNSAFE_CHARS.match(chr(c))]
    A('Definition filename_safe_chars : list N := %s.' % nlist(safe))
