"""C18 — WebSocket receive buffering under every schedule.

The real falcon.asgi.ws.WebSocket/_BufferedReceiver run on a deterministic event loop whose
ready queue the harness owns: the harness decides which task is resumed next and when the
fake ASGI server resolves its receive() future.  Every schedule (a list of labels, see
coq/C18/Model.v) is run on the real code and on the extracted Coq model; after every label
the public observation (results handed to the application, server-side pull counters,
ws.closed, which tasks are runnable / blocked / finished) must coincide, and the observed
trace is judged by the proved monitor of coq/C18/Spec.v (binding).  Private fields are compared
too, but only as advisory information.
"""
import asyncio
import asyncio.events as aio_events
import json
import time

import os

import common

# 1 = model of the repaired code (fixes/C18-put-waiter-cancelled.patch); 0 only to validate the
# faithful pre-fix model against a pre-fix tree
MODEL_FIXED = int(os.environ.get("VERIF_C18_MODEL_FIXED", "1"))

# quick tier: no new batch of schedules is started once this many seconds have passed since
# the check began (build included); what was cut is recorded in the evidence
QUICK_DEADLINE = float(os.environ.get('VERIF_QUICK_DEADLINE', '60'))


def over_deadline(ctx):
    return ctx.tier == 'quick' and time.time() - ctx.t0 > QUICK_DEADLINE

# --------------------------------------------------------------------------- event loop


class DetLoop(asyncio.AbstractEventLoop):
    """An event loop that never runs by itself: handles are queued and the harness picks."""

    def __init__(self):
        self.ready = []
        self.tasks = []
        self.errors = []

    def get_debug(self):
        return False

    def is_running(self):
        return True

    def is_closed(self):
        return False

    def time(self):
        return 0.0

    def call_soon(self, cb, *args, context=None):
        h = asyncio.Handle(cb, args, self, context)
        self.ready.append(h)
        return h

    def call_later(self, delay, cb, *args, context=None):
        raise NotImplementedError('timers are not part of the modelled code')

    call_at = call_later

    def create_future(self):
        return asyncio.Future(loop=self)

    def create_task(self, coro, *, name=None, context=None):
        t = asyncio.Task(coro, loop=self, name=name)
        self.tasks.append(t)
        return t

    def call_exception_handler(self, ctx):
        self.errors.append(ctx)

    # ---- harness side
    @staticmethod
    def owner(h):
        """the task a ready handle resumes; None for a plain callback (a tau step)"""
        o = getattr(h._callback, '__self__', None)
        return o if isinstance(o, asyncio.Task) else None

    def run_handle(self, h):
        self.ready.remove(h)
        if not h._cancelled:
            h._run()

    def run_callbacks(self):
        while True:
            hs = [h for h in self.ready if self.owner(h) is None or h._cancelled]
            if not hs:
                return
            for h in hs:
                self.run_handle(h)

    def handle_of(self, task):
        if task is None:
            return None
        for h in self.ready:
            if not h._cancelled and self.owner(h) is task:
                return h
        return None

    def step_task(self, task):
        h = self.handle_of(task)
        assert h is not None, 'task is not runnable'
        self.run_handle(h)
        self.run_callbacks()

    def status(self, task):
        """0 idle, 1 runnable, 2 blocked, 3 finished"""
        if task is None:
            return 0
        if task.done():
            return 3
        return 1 if self.handle_of(task) is not None else 2


class FakeServer:
    """ASGI server side: receive() always suspends on a fresh future that the harness
    resolves with the next client event; send() records and returns."""

    def __init__(self, loop, events):
        self.loop = loop
        self.remaining = list(events)
        self.futs = []
        self.pulls = 0
        self.sent = []

    async def receive(self):
        fut = self.loop.create_future()
        self.futs.append(fut)
        self.pulls += 1
        return await fut

    async def send(self, event):
        self.sent.append(event)

    def outstanding(self):
        return [f for f in self.futs if not f.done()]


# --------------------------------------------------------------------------- wire helpers

LSERVER, LPUMP, LRCALL, LRRUN, LRCANCEL, LSEND, LCCALL, LCRUN, LCBAD = range(9)
LNAMES = ['Server', 'Pump', 'RecvCall', 'RecvRun', 'RecvCancel', 'Send', 'CloseCall', 'CloseRun', 'CloseBad']


def ev_wire(e):
    # ('m', n) | ('d', code or None)
    if e[0] == 'm':
        return [0, e[1]]
    return [1] if e[1] is None else [1, e[1]]


def ev_asgi(e):
    if e[0] == 'm':
        return {'type': 'websocket.receive', 'text': 'm%d' % e[1]}
    if e[1] is None:
        return {'type': 'websocket.disconnect'}
    return {'type': 'websocket.disconnect', 'code': e[1]}


def lab_wire(l):
    return [l[0], l[1]] if l[0] == LSEND else [l[0]]


def lab_str(l):
    return LNAMES[l[0]] + ('(%d)' % l[1] if l[0] == LSEND else '')


# --------------------------------------------------------------------------- the real system


class Real:
    _opts = None

    def __init__(self, falcon, cap, sent):
        import falcon.asgi
        from falcon.asgi.ws import WebSocket
        if Real._opts is None:
            Real._opts = falcon.asgi.App().ws_options
        self.falcon = falcon
        self.cap = cap
        self.loop = DetLoop()
        aio_events._set_running_loop(self.loop)
        self.srv = FakeServer(self.loop, [ev_asgi(e) for e in sent])
        o = Real._opts
        self.ws = WebSocket('2.3', {'type': 'websocket'}, self.srv.receive, self.srv.send,
                            o.media_handlers, cap, {})
        t = self.loop.create_task(self.ws.accept())
        self.loop.step_task(t)
        assert t.done() and t.exception() is None, 'accept() did not complete'
        pumps = [x for x in self.loop.tasks if x.get_coro().__qualname__.endswith('._pump')]
        assert len(pumps) == (1 if cap > 0 else 0), 'unexpected number of pump tasks'
        self.pump = pumps[0] if pumps else None
        self.recv = None
        self.ctl = None
        self.recv_cancelled = False
        self.misc = []

    def close(self):
        # tidy up: cancel whatever is still pending so that nothing is garbage-collected
        # half-run (not part of the observed trace)
        loop = self.loop
        for _ in range(50):
            pend = [t for t in loop.tasks if not t.done()]
            if not pend and not loop.ready:
                break
            for t in pend:
                t.cancel()
            while loop.ready:
                loop.run_handle(loop.ready[0])
        aio_events._set_running_loop(None)

    # ---- observation
    def result_of(self, task):
        from falcon import errors
        if task.cancelled():
            return [3]
        ex = task.exception()
        if ex is None:
            r = task.result()
            if r is None:
                return [1]
            if isinstance(r, str) and r[:1] == 'm' and r[1:].isdigit():
                return [0, int(r[1:])]
            return [99, repr(r)]
        if isinstance(ex, errors.WebSocketDisconnected):
            return [2] if ex.code is None else [2, ex.code]
        if isinstance(ex, AssertionError):
            return [4]
        if isinstance(ex, ValueError):
            return [6]
        if isinstance(ex, asyncio.InvalidStateError):
            return [5]
        return [99, type(ex).__name__ + ': ' + str(ex)[:80]]

    def observe(self):
        st = self.loop.status
        p = 4 if self.pump is None else st(self.pump)
        r = st(self.recv)
        c = st(self.ctl)
        return [len(self.srv.outstanding()), self.srv.pulls, int(bool(self.ws.closed)),
                p if p != 0 else 2, 0 if r == 3 else r, 0 if c == 3 else c]

    def private(self):
        br = self.ws._buffered_receiver
        pw = br._put_message_waiter
        return [len(br._messages), int(br._pop_message_waiter is not None),
                0 if pw is None else (2 if pw.cancelled() else 1),
                int(bool(br.client_disconnected)), int(br._pump_task is not None)]

    def enabled(self, obs=None):
        o = obs or self.observe()
        out = []
        if o[0] >= 1 and self.srv.remaining:
            out.append(LSERVER)
        if o[3] == 1:
            out.append(LPUMP)
        if o[4] == 0:
            out.append(LRCALL)
        if o[4] == 1:
            out.append(LRRUN)
        if not self.recv_cancelled and (o[4] == 2 or (o[4] == 1 and self.cap > 0)):
            out.append(LRCANCEL)
        out.append(LSEND)
        if o[5] == 0:
            out.append(LCCALL)
            out.append(LCBAD)
        if o[5] == 1:
            out.append(LCRUN)
        return out

    # ---- labels
    def apply(self, lab):
        """returns (new results, observation)"""
        k = lab[0]
        loop = self.loop
        new = []
        if k == LSERVER:
            fut = self.srv.outstanding()[0]
            fut.set_result(self.srv.remaining.pop(0))
            loop.run_callbacks()
        elif k == LPUMP:
            loop.step_task(self.pump)
        elif k == LRCALL:
            self.recv = loop.create_task(self.ws.receive_text())
            self.recv_cancelled = False
            loop.step_task(self.recv)
        elif k == LRRUN:
            loop.step_task(self.recv)
        elif k == LRCANCEL:
            self.recv.cancel()
            self.recv_cancelled = True
            loop.run_callbacks()
        elif k == LSEND:
            t = loop.create_task(self.ws.send_text('s%d' % lab[1]))
            loop.step_task(t)
            if not t.done():
                raise RuntimeError('send_text suspended')
            new.append([1, self.result_of(t)])
        elif k == LCCALL:
            self.ctl = loop.create_task(self.ws.close())
            loop.step_task(self.ctl)
        elif k == LCRUN:
            loop.step_task(self.ctl)
        elif k == LCBAD:
            # close(<invalid code>): the application swallows the ValueError and carries on
            self.ctl = loop.create_task(self.ws.close(999))
            loop.step_task(self.ctl)
        if self.recv is not None and self.recv.done():
            new.append([0, self.result_of(self.recv)])
            self.recv = None
        if self.ctl is not None and self.ctl.done():
            new.append([2, self.result_of(self.ctl)])
            self.ctl = None
        return new, self.observe()

    def sends(self):
        out = []
        for e in self.srv.sent[1:]:           # [0] is the accept
            if e['type'] == 'websocket.send':
                t = e.get('text')
                out.append([0, int(t[1:])] if isinstance(t, str) and t[1:].isdigit() else [98])
            elif e['type'] == 'websocket.close':
                out.append([1, e.get('code')])
            else:
                out.append([97])
        return out


def run_real(falcon, cap, sent, labels=None, chooser=None, max_steps=40):
    """Run one schedule on the real code.  Either replays [labels] or lets [chooser] pick
    among the labels enabled in the real system.  Returns dict(labels, trace, sends, priv)."""
    r = Real(falcon, cap, sent)
    try:
        obs0 = r.observe()
        trace, priv, labs = [], [], []
        obs = obs0
        i = 0
        while True:
            en = r.enabled(obs)
            if labels is not None:
                if i >= len(labels):
                    break
                lab = tuple(labels[i])
                if lab[0] not in en:
                    trace.append([lab_wire(lab), [[9, [99, 'label not enabled in the implementation']]], obs])
                    priv.append(r.private())
                    labs.append(lab)
                    break
            else:
                if i >= max_steps:
                    break
                lab = chooser(r, en, obs, i)
                if lab is None:
                    break
            new, obs = r.apply(lab)
            trace.append([lab_wire(lab), new, obs])
            priv.append(r.private())
            labs.append(lab)
            i += 1
        errs = [repr(e.get('exception') or e.get('message')) for e in r.loop.errors]
        return {'labels': labs, 'trace': trace, 'sends': r.sends(), 'priv': priv, 'obs0': obs0,
                'loop_errors': errs, 'enabled_end': r.enabled(obs)}
    finally:
        r.close()


# --------------------------------------------------------------------------- generators


def gen_sent(rng, kmax):
    k = rng.randint(0, kmax)
    ev = [('m', i + 1) for i in range(k)]
    x = rng.random()
    if x < 0.55:
        ev.append(('d', rng.choice([1000, 1001, 1006, 3001, 4400])))
    elif x < 0.65:
        ev.append(('d', None))
    return ev


def make_chooser(rng, profile):
    """random choice among the enabled labels, weighted by a profile"""
    w = {
        'mixed': [5, 5, 4, 5, 1, 1, 0.4, 5, 0.4],
        'pumpfirst': [8, 8, 2, 3, 0.5, 0.5, 0.2, 5, 0.3],
        'recvfirst': [3, 3, 8, 8, 1, 0.5, 0.2, 5, 0.5],
        'closey': [4, 4, 3, 3, 1, 1, 2, 3, 1.5],
        'cancely': [4, 4, 5, 3, 4, 0.5, 0.3, 4, 0.3],
        'sendy': [4, 4, 2, 3, 0.5, 4, 0.3, 4, 0.3],
    }[profile]
    state = {'n': 0}

    def choose(r, en, obs, i):
        ws = [w[l] for l in en]
        l = rng.choices(en, weights=ws)[0]
        if l == LSEND:
            state['n'] += 1
            return (LSEND, state['n'])
        return (l,)
    return choose


def finisher(closing):
    """after the random part: optionally close, then run every runnable task to quiescence"""
    def choose(r, en, obs, i):
        if closing[0] and LCCALL in en:
            closing[0] = False
            return (LCCALL,)
        for l in (LCRUN, LPUMP, LRRUN):
            if l in en:
                return (l,)
        return None
    return choose


def random_schedule(falcon, rng, cap, sent, nsteps):
    prof = rng.choice(['mixed', 'mixed', 'pumpfirst', 'recvfirst', 'closey', 'cancely', 'sendy'])
    ch = make_chooser(rng, prof)
    closing = [rng.random() < 0.7]
    fin = finisher(closing)

    def choose(r, en, obs, i):
        if i < nsteps:
            return ch(r, en, obs, i)
        return fin(r, en, obs, i)
    return run_real(falcon, cap, sent, chooser=choose, max_steps=nsteps + 30)


def exhaustive(falcon, cap, sent, depth, limits, budget, out, flush=None, stop=None):
    """all schedules of at most [depth] labels (application calls limited by [limits]:
    receives, sends, closes, cancels), by re-execution of prefixes"""
    stack = [()]
    n = 0
    while stack and n < budget:
        if stop is not None and n >= 500 and n % 100 == 0 and stop():
            break
        prefix = stack.pop()
        res = run_real(falcon, cap, sent, labels=list(prefix))
        en = res['enabled_end']
        cnt = [0] * 9
        for l in prefix:
            cnt[l[0]] += 1
        nxt = []
        if len(prefix) < depth:
            for l in en:
                if l == LRCALL and cnt[LRCALL] >= limits[0]:
                    continue
                if l == LSEND and cnt[LSEND] >= limits[1]:
                    continue
                if l == LCCALL and cnt[LCCALL] >= limits[2]:
                    continue
                if l == LRCANCEL and cnt[LRCANCEL] >= limits[3]:
                    continue
                if l == LCBAD and cnt[LCBAD] >= (limits[4] if len(limits) > 4 else 0):
                    continue
                nxt.append((l, cnt[LSEND] + 1) if l == LSEND else (l,))
        if not nxt:
            out.append((cap, sent, res))
            n += 1
            if flush is not None and len(out) >= 2500:
                flush(out)
                del out[:]
        else:
            for l in nxt:
                stack.append(prefix + (l,))
    return not stack


# --------------------------------------------------------------------------- comparison

CLAUSES = {
    1: 'FIFO / once / lossless: k-th event returned is not the k-th event sent',
    2: 'bound: more than one outstanding pull, or pulls > delivered + capacity + 1',
    3: 'disconnect not reported to a sender promptly (or send succeeded on a closed socket)',
    4: 'disconnect reported to a receiver before the messages that preceded it',
    5: 'lost wake-up: receiver blocked while the framework holds an event and nothing is runnable',
    6: 'close() returned while the pump task was still alive',
    7: 'internal error (AssertionError / InvalidStateError) surfaced in receive',
    8: 'operation produced a result of the wrong kind',
}


def norm_entry(e):
    lab, new, obs = e
    return [lab, [[k, [x if isinstance(x, int) else -1 for x in r]] for k, r in new], obs]


def judge(ctx, model, runs, tag):
    """runs: list of (cap, sent, res).  Model correspondence + oracle on every run."""
    mcases = [[1, MODEL_FIXED, cap, [ev_wire(e) for e in sent], [lab_wire(l) for l in res['labels']]]
              for cap, sent, res in runs]
    ocases = [[2, cap, [ev_wire(e) for e in sent], [norm_entry(e) for e in res['trace']]]
              for cap, sent, res in runs]
    pcases = [[3] + c[1:] for c in mcases]
    mouts = model.run_many(mcases)
    oouts = model.run_many(ocases)
    pouts = model.run_many(pcases)
    n_bad = 0
    corr = []
    for (cap, sent, res), mo, oo, po in zip(runs, mouts, oouts, pouts):
        labs = res['labels']
        key = (tag, cap, tuple(sent), tuple(labs))
        nres = sum(len(e[1]) for e in res['trace'])
        ctx.note_case(key, nres > 0 and len(labs) >= 3)
        ctx.count('cap=%d' % cap)
        ctx.count('schedules')
        ctx.count('steps', len(labs))
        detail = {'cap': cap, 'sent': [list(e) for e in sent], 'labels': [list(l) for l in labs],
                  'schedule': ' '.join(lab_str(l) for l in labs),
                  'impl_trace': res['trace'], 'impl_sends': res['sends']}
        weird = [e for e in res['trace'] for k, r in e[1] if r and r[0] == 99]
        if res['loop_errors'] or weird:
            ctx.violation('c18-unexpected-exception',
                          dict(detail, loop_errors=res['loop_errors'], unexpected=weird[:3]),
                          key='unexpected-%s' % (weird[0][1] if weird else 'loop'))
            n_bad += 1
            continue
        if oo:
            n_bad += 1
            clauses = sorted({c for _, c in oo})
            ctx.violation('c18-clause-violated',
                          dict(detail, clauses_failed=clauses, failed_at=[list(x) for x in oo[:5]],
                               clause_names={c: CLAUSES.get(c, '?') for c in clauses}),
                          key='clause-%s' % clauses)
        # model correspondence (binding on public observables)
        mtrace, msends, _ = mo
        diff = None
        for i, (e, m) in enumerate(zip(res['trace'], mtrace)):
            exp = [m[0], [[k, r] for k, r in m[1]], m[2]]
            got = [1, norm_entry(e)[1], e[2]]
            if exp != got:
                diff = {'step': i, 'label': lab_str(labs[i]), 'impl': got, 'model': exp}
                break
        if diff is None and msends != [[a, b] for a, b in res['sends']]:
            diff = {'step': 'end', 'impl_sends': res['sends'], 'model_sends': msends}
        if diff is not None:
            corr.append((bool(oo), dict(detail, first_difference=diff,
                                        broken='C18.step_corr (model and implementation disagree on a public observation)')))
        # advisory: private fields
        for i, (a, b) in enumerate(zip(res['priv'], po)):
            if a != b and len(ctx.advisory) < 20:
                ctx.advisory.append({'cap': cap, 'schedule': detail['schedule'], 'step': i,
                                     'impl_private': a, 'model_private': b,
                                     'fields': 'len(_messages), pop waiter set, put waiter 0/1/2, client_disconnected, _pump_task set'})
                break
    return n_bad, corr


def report_corr(ctx, corr, any_clause):
    for has_clause, detail in corr[:5]:
        if has_clause:
            continue
        ctx.violation('correspondence-broken', detail, found_input=any_clause, key='corr')


# --------------------------------------------------------------------------- real asyncio witness


def real_loop_witness(falcon):
    """The close()/receive race of fixes/C18-put-waiter-cancelled.patch on the stock asyncio
    loop (no harness scheduling): returns the exception class name raised by receive_text."""
    from falcon.asgi.ws import WebSocket
    import falcon.asgi
    opts = falcon.asgi.App().ws_options

    async def main():
        q = asyncio.Queue()
        for i in (1, 2, 3):
            q.put_nowait({'type': 'websocket.receive', 'text': 'm%d' % i})
        sent = []

        async def send(e):
            sent.append(e)
        ws = WebSocket('2.3', {'type': 'websocket'}, q.get, send, opts.media_handlers, 1, {})
        await ws.accept()
        for _ in range(6):
            await asyncio.sleep(0)           # the pump fills the queue and parks
        out = {}

        async def closer():
            await ws.close()

        async def receiver():
            try:
                out['r'] = await ws.receive_text()
            except BaseException as e:
                out['r'] = type(e).__name__
        t1 = asyncio.ensure_future(closer())
        t2 = asyncio.ensure_future(receiver())
        await asyncio.gather(t1, t2)
        return out['r']
    aio_events._set_running_loop(None)
    return asyncio.new_event_loop().run_until_complete(main())


# --------------------------------------------------------------------------- the CONFIGURED capacity


def configured_capacity_runs(falcon, capseq, mode):
    """Sessions created by falcon.asgi.App for the capacities [capseq], on the stock asyncio loop.
    mode 'reused': ONE app serves the connections one after the other and the application sets
    app.ws_options.max_receive_queue before each; 'fresh': a new app per capacity, configured before its
    first connection; 'direct': the modelled object itself, WebSocket(..., capacity, ...), under the same
    driver.  Per connection: (messages pulled from the server while the application idles after accept(),
    the texts the application then receives)."""
    import falcon.asgi
    from falcon.asgi.ws import WebSocket
    nmsg = max(capseq) + 3
    box = {}

    class Server:
        def __init__(self, with_connect):
            self.events = ([{'type': 'websocket.connect'}] if with_connect else []) + [
                {'type': 'websocket.receive', 'text': 'm%d' % i} for i in range(nmsg)]
            self.pulled = 0

        async def receive(self):
            await asyncio.sleep(0)
            if not self.events:
                await asyncio.get_running_loop().create_future()
            e = self.events.pop(0)
            if e['type'] == 'websocket.receive':
                self.pulled += 1
            return e

        async def send(self, e):
            await asyncio.sleep(0)

    async def session(ws, server):
        await ws.accept()
        for _ in range(8 * nmsg + 20):
            await asyncio.sleep(0)      # the background reader runs as far as it is allowed to
        pulled = server.pulled
        got = [await ws.receive_text() for _ in range(nmsg)]
        await ws.close()
        box['r'] = (pulled, got)

    class Res:
        async def on_websocket(self, req, ws):
            await session(ws, box['server'])

    scope = {'type': 'websocket', 'asgi': {'version': '3.0', 'spec_version': '2.3'}, 'http_version': '1.1',
             'scheme': 'ws', 'path': '/ws', 'raw_path': b'/ws', 'query_string': b'', 'root_path': '',
             'headers': [(b'host', b'example.org')], 'client': ('127.0.0.1', 4242),
             'server': ('127.0.0.1', 80), 'subprotocols': []}

    def new_app():
        a = falcon.asgi.App()
        a.add_route('/ws', Res())
        return a

    async def main():
        out = []
        app = new_app() if mode == 'reused' else None
        opts = falcon.asgi.App().ws_options
        for cap in capseq:
            box.pop('r', None)
            if mode == 'direct':
                srv = Server(False)
                ws = WebSocket('2.3', dict(scope), srv.receive, srv.send, opts.media_handlers, cap, {})
                await asyncio.wait_for(session(ws, srv), 20)
            else:
                a = app if mode == 'reused' else new_app()
                a.ws_options.max_receive_queue = cap
                srv = box['server'] = Server(True)
                await asyncio.wait_for(a(dict(scope), srv.receive, srv.send), 20)
            out.append(box.get('r'))
        return out
    aio_events._set_running_loop(None)
    loop = asyncio.new_event_loop()
    try:
        return loop.run_until_complete(main())
    finally:
        loop.close()


def configured_capacity_block(ctx, falcon, seqs):
    """The capacity that bounds a session is the one CONFIGURED (app.ws_options.max_receive_queue) when the
    connection is made.  Binding (C18_bounded / C18_passthrough read on the server side: messages pulled and
    not yet delivered <= capacity + 1, none in the background for capacity 0) and FIFO delivery; advisory tie
    of the app glue to the modelled object: same pull count as WebSocket(..., capacity, ...) directly."""
    bad = False
    for capseq in seqs:
        capseq = list(capseq)
        nmsg = max(capseq) + 3
        want = ['m%d' % i for i in range(nmsg)]
        try:
            direct = configured_capacity_runs(falcon, capseq, 'direct')
        except Exception as e:  # noqa: BLE001
            direct = None
            ctx.advisory.append({'configured-capacity direct run failed': repr(e)[:200]})
        for mode in ('reused', 'fresh'):
            ctx.note_case(('capseq', mode, tuple(capseq)), True)
            try:
                runs = configured_capacity_runs(falcon, capseq, mode)
            except Exception as e:  # noqa: BLE001
                bad = True
                ctx.violation('c18-configured-capacity-session-fails',
                              {'capseq': capseq, 'mode': mode, 'error': repr(e)[:300]}, key='capseq-fails')
                continue
            for i, (cap, r) in enumerate(zip(capseq, runs)):
                ctx.count('configured-capacity-connection')
                limit = cap + 1 if cap > 0 else 0
                if r is None or r[0] > limit or r[1] != want:
                    bad = True
                    ctx.violation('c18-configured-capacity-not-respected',
                                  {'what': 'connection %d of the sequence: max_receive_queue=%d was configured '
                                           'before the connection; while the application idled the framework '
                                           'pulled %s message(s) from the server (allowed: %d), then delivered '
                                           '%s' % (i, cap, None if r is None else r[0], limit,
                                                   None if r is None else r[1]),
                                   'capseq': capseq, 'mode': mode, 'index': i, 'cap': cap, 'limit': limit,
                                   'pulled_while_idle': None if r is None else r[0],
                                   'delivered': None if r is None else r[1], 'expected_delivery': want},
                                  key='capseq-bound')
                elif direct is not None and direct[i] is not None and direct[i][0] != r[0]:
                    ctx.violation('c18-app-session-differs-from-configured-websocket',
                                  {'what': 'the session the app creates for max_receive_queue=%d pulls %d '
                                           'message(s) while idle, WebSocket(..., %d, ...) itself pulls %d: the '
                                           'configured capacity is not the one the session runs with'
                                           % (cap, r[0], cap, direct[i][0]),
                                   'capseq': capseq, 'mode': mode, 'index': i,
                                   'broken': 'C18.app_configures_modelled_session'},
                                  found_input=False, key='capseq-glue')
    return bad


def capacity_sequences(ctx):
    import random
    rng = random.Random(ctx.seed * 7 + 18)
    seqs = [(4, 1, 2, 0, 3), (0, 2), (3, 0, 1), (1, 1, 5), (2,), (0,)]
    for _ in range(3 if ctx.tier == 'quick' else 40):
        seqs.append(tuple(rng.choice([0, 0, 1, 1, 2, 3, 5, 8]) for _ in range(rng.randint(2, 5))))
    return seqs



# --------------------------------------------------------------------------- entry points


def main(ctx):
    import falcon
    model = common.Model(ctx)
    ctx.cov['rule'] = ('one case = one schedule (capacity, client events, label sequence) run on the real '
                       'WebSocket/_BufferedReceiver under the deterministic loop and on the extracted model, '
                       'compared after every label and judged by the Spec monitor; non-trivial = at least 3 '
                       'labels and at least one application-visible result')
    ctx.assumptions += [
        'asyncio Task/Future semantics (CPython) are trusted; the deterministic loop only reorders ready handles',
        'plain-callback handles (asyncio.wait bookkeeping) are run eagerly as tau steps',
        'the fake ASGI server always suspends in receive() and never suspends in send()',
    ]
    any_clause = False
    corr_all = []
    for o in common.corpus('C18'):
        if 'labels' in o:
            res = run_real(falcon, o['cap'], [tuple(e) for e in o['sent']],
                           labels=[tuple(l) for l in o['labels']])
            nb, corr = judge(ctx, model, [(o['cap'], [tuple(e) for e in o['sent']], res)], 'corpus')
            any_clause |= nb > 0
            corr_all += corr
    # the repaired race on the stock asyncio loop
    w = real_loop_witness(falcon)
    ctx.note_case('real-loop-witness', True)
    if w != 'm1':
        any_clause = True
        ctx.violation('c18-clause-violated',
                      {'what': 'stock asyncio loop: capacity 1, three queued messages, close() and '
                               'receive_text() started in the same loop iteration',
                       'impl': w, 'expected': 'm1', 'clauses_failed': [7],
                       'cap': 1, 'sent': [['m', 1], ['m', 2], ['m', 3]],
                       'labels': [[1], [0], [1], [0], [1], [6], [2]]}, key='clause-[7]')
    # the capacity a session runs with is the configured one (app glue)
    any_clause |= configured_capacity_block(ctx, falcon, capacity_sequences(ctx))
    quick = ctx.tier == 'quick'
    # 1. exhaustive small bounds
    ex_runs = []
    if quick:
        bounds = [(1, [('m', 1), ('d', 1001)], 9, (2, 1, 1, 1, 1), 4000),
                  (0, [('m', 1), ('d', 1001)], 7, (2, 1, 1, 1), 1500)]
    else:
        bounds = [(1, [('m', 1), ('m', 2), ('d', 1001)], 12, (3, 1, 1, 1, 1), 120000),
                  (2, [('m', 1), ('m', 2), ('d', 1001)], 11, (3, 1, 1, 1), 80000),
                  (1, [('m', 1), ('m', 2)], 11, (2, 1, 1, 1), 60000),
                  (0, [('m', 1), ('d', None)], 9, (2, 1, 1, 1), 20000)]
    complete = True
    n_ex = [0]
    state = {'any_clause': any_clause}

    def flush(batch):
        if not batch:
            return
        n_ex[0] += len(batch)
        nb, corr = judge(ctx, model, batch, 'ex')
        state['any_clause'] |= nb > 0
        corr_all.extend(corr)
    for cap, sent, depth, limits, budget in bounds:
        complete &= exhaustive(falcon, cap, sent, depth, limits, budget, ex_runs, flush,
                               stop=lambda: over_deadline(ctx))
        flush(ex_runs)
        del ex_runs[:]
    any_clause = state['any_clause']
    ctx.cov['exhaustive_part'] = {'bounds': [[b[0], len(b[1]), b[2], list(b[3])] for b in bounds],
                                  'schedules': n_ex[0], 'complete': complete}
    # 2. random schedules
    n = 5000 if quick else 50000
    runs = []
    done = 0
    last = None
    for i in range(n):
        if i >= 800 and i % 100 == 0 and over_deadline(ctx):
            break
        cap = ctx.rng.choice([0, 1, 1, 2, 2, 3, 4])
        sent = gen_sent(ctx.rng, 8)
        res = random_schedule(falcon, ctx.rng, cap, sent, ctx.rng.randint(4, 34))
        runs.append((cap, sent, res))
        last = runs[-1]
        done += 1
        if len(runs) >= 800:
            nb, corr = judge(ctx, model, runs, 'rnd')
            any_clause |= nb > 0
            corr_all += corr
            runs = []
    if runs:
        nb, corr = judge(ctx, model, runs, 'rnd')
        any_clause |= nb > 0
        corr_all += corr
    if last is not None:
        ctx.sample({'cap': last[0], 'sent': last[1],
                    'schedule': ' '.join(lab_str(l) for l in last[2]['labels'])})
    ctx.cov['random_schedules'] = {'planned': n, 'run': done,
                                   'cut_by_deadline_s': QUICK_DEADLINE if done < n else None}
    report_corr(ctx, corr_all, any_clause)


def replay(ctx, obj):
    import falcon
    model = common.Model(ctx)
    if 'capseq' in obj:
        configured_capacity_block(ctx, falcon, [obj['capseq']])
        ctx.note_case('replay-capseq', True)
        return
    if 'labels' not in obj:
        return main(ctx)
    sent = [tuple(e) for e in obj['sent']]
    res = run_real(falcon, obj['cap'], sent, labels=[tuple(l) for l in obj['labels']])
    nb, corr = judge(ctx, model, [(obj['cap'], sent, res)], 'replay')
    ctx.note_case('replay2', True)
    ctx.sample({'replayed': obj.get('schedule'), 'impl_trace': res['trace'][-3:]})
    report_corr(ctx, corr, nb > 0)
