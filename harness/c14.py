"""C14 — buffered readers behave like one flat byte buffer.

Three executable objects are compared on every generated case (data, source chunking /
short-read schedule, chunk size, declared length, operation history incl. nested delimited
sub-readers):

  * the real readers  falcon.util.reader.BufferedReader (sync) and
    falcon.asgi.reader.BufferedReader (async), driven step by step;
  * the flat cursor  coq/C14/Spec.v:spec_history  (extracted)  -- BINDING oracle: a real reader
    whose observation differs from the cursor violates the property, the case is the replay;
  * the models  coq/C14/Model.v:sync_history / async_history  (extracted), about which the
    refinement theorems of coq/C14/Props.v are proved -- a difference between model and real
    reader where the cursor agrees with the real reader is a correspondence break.
"""
import io
import itertools
import json

import common

ALPHA = b'a\r\n-'

# ---------------------------------------------------------------- wire helpers


def w_size(n):
    return [] if n is None else [n]


def w_op(o):
    k = o[0]
    if k in ('read', 'peek', 'readline', 'readlines'):
        return [{'read': 0, 'peek': 1, 'readline': 5, 'readlines': 6}[k], w_size(o[1])]
    if k == 'read_until':
        return [2, o[1], w_size(o[2]), o[3]]
    if k == 'pipe':
        return [3]
    if k == 'pipe_until':
        return [4, o[1], o[2]]
    return [7]


def w_hist(h):
    out = []
    for x in h:
        if x[0] == 'op':
            out.append([0, w_op(x[1])])
        elif x[0] == 'delimit':
            out.append([1, x[1]])
        else:
            out.append([2])
    return out


def r_result(v):
    """decoded wire result -> canonical python value"""
    t = v[0]
    if t == 0:
        return ('bytes', bytes(v[1]))
    if t == 1:
        return ('DelimiterError', bytes(v[1]))
    if t == 2:
        return ('lines', tuple(bytes(x) for x in v[1]))
    return ('ValueError',)


def jsonable(x):
    if isinstance(x, (bytes, bytearray)):
        return {'b': list(x)}
    if isinstance(x, (list, tuple)):
        return [jsonable(y) for y in x]
    if isinstance(x, dict):
        return {k: jsonable(v) for k, v in x.items()}
    return x


def unjson(x):
    if isinstance(x, dict) and set(x) == {'b'}:
        return bytes(x['b'])
    if isinstance(x, list):
        return [unjson(y) for y in x]
    if isinstance(x, dict):
        return {k: unjson(v) for k, v in x.items()}
    return x


# ---------------------------------------------------------------- real readers


class Src:
    """Scripted conforming source for the sync reader: read(n) returns at most sched[i]+1
    bytes on its i-th call (all n once the schedule is used up), b'' only at EOF."""

    def __init__(self, data, sched, budget):
        self.data, self.sched, self.budget = data, sched, budget
        self.pos = self.i = 0
        self.over = None
        self.odd = None
        self.calls = 0

    def read(self, n=None):
        # a budget in STEPS: far more source calls than any terminating history can make
        self.calls += 1
        if self.calls > 100000 + 200 * len(self.data):
            raise HangSteps()
        if n is None or n <= 0:
            self.odd = n
            n = len(self.data) if n is None or n < 0 else 0
        if n > self.budget - self.pos and self.over is None:
            self.over = (n, self.budget - self.pos)
        k = n if self.i >= len(self.sched) else min(n, self.sched[self.i] + 1)
        self.i += 1
        out = self.data[self.pos:self.pos + k]
        self.pos += len(out)
        return out


def sync_op(r, o, DelimiterError, variant):
    k = o[0]
    if k == 'read':
        if o[1] is None:
            return ('bytes', [r.read, lambda: r.read(-1), lambda: r.read(None)][variant % 3]())
        return ('bytes', r.read(o[1]))
    if k == 'peek':
        return ('bytes', r.peek() if o[1] is None else r.peek(o[1]))
    if k == 'read_until':
        try:
            if o[2] is None:
                return ('bytes', r.read_until(o[1], consume_delimiter=o[3]) if variant % 2
                        else r.read_until(o[1], -1, o[3]))
            return ('bytes', r.read_until(o[1], o[2], o[3]))
        except DelimiterError:
            return ('DelimiterError', b'')
        except ValueError:
            return ('ValueError',)
    if k == 'pipe':
        dest = io.BytesIO()
        r.pipe(dest)
        return ('bytes', dest.getvalue())
    if k == 'pipe_until':
        dest = io.BytesIO()
        try:
            r.pipe_until(o[1], dest, o[2])
        except DelimiterError:
            return ('DelimiterError', dest.getvalue())
        except ValueError:
            return ('ValueError',)
        return ('bytes', dest.getvalue())
    if k == 'readline':
        return ('bytes', r.readline() if o[1] is None else r.readline(o[1]))
    if k == 'readlines':
        return ('lines', tuple(r.readlines() if o[1] is None else r.readlines(o[1])))
    r.exhaust()
    return ('bytes', b'')


class Hang(BaseException):
    pass


class HangSteps(Hang):
    """deterministic: the step budget of the scripted source was exhausted"""


def _alarm(*a):
    raise Hang()


def guarded(f, *a, limit=None):
    """Run one case on the real code under a watchdog.  The budget is the CPU time of THIS process
    (ITIMER_PROF), not wall-clock time, so machine load cannot make it fire; the first-stage limit is
    max(5 s, 20 x the median case time of this run).  An expiry is never reported directly: the caller
    re-runs the case alone under CONFIRM_LIMIT (confirm_hang) and reports a hang only if it reproduces."""
    import signal
    import time
    if limit is None:
        ts = _TIMES
        med = sorted(ts)[len(ts) // 2] if len(ts) >= 50 else 0.0
        limit = max(5.0, 20.0 * med)
    signal.signal(signal.SIGPROF, _alarm)
    t0 = time.process_time()
    signal.setitimer(signal.ITIMER_PROF, limit)
    try:
        return f(*a)
    finally:
        signal.setitimer(signal.ITIMER_PROF, 0)
        if len(_TIMES) < 5000:
            _TIMES.append(time.process_time() - t0)


_TIMES = []
CONFIRM_LIMIT = 60.0      # CPU seconds of the re-run that must also expire before a hang is reported


def confirm_hang(ctx, is_hang, f, *a):
    """first-stage result -> final result: a watchdog expiry is re-run alone, fresh, under the generous
    limit; only a reproduced expiry stays a hang"""
    r = guarded(f, *a)
    if not is_hang(r):
        return r
    ctx.count('stall-retried')
    ctx.cov['stall_retried'] = ctx.cov.get('stall_retried', 0) + 1
    r2 = guarded(f, *a, limit=CONFIRM_LIMIT)
    if not is_hang(r2):
        ctx.count('stall-not-reproduced')
    return r2


def run_sync(mods, case, on_step=None):
    SR, DelimiterError = mods['SR'], mods['DelimiterError']
    src = Src(case['data'], case['sched'], case['maxlen'])
    stack = [SR(src.read, case['maxlen'], case['cs'])]
    outs = []
    for i, h in enumerate(case['hist']):
        if on_step is not None:
            on_step(i)
        try:
            if h[0] == 'op':
                outs.append(sync_op(stack[-1], h[1], DelimiterError, i))
            elif h[0] == 'delimit':
                if len(stack) < 3:
                    stack.append(stack[-1].delimit(h[1]))
                outs.append(('bytes', b''))
            else:
                if len(stack) > 1:
                    stack[-1].exhaust()
                    stack.pop()
                outs.append(('bytes', b''))
        except HangSteps:
            outs.append(('hang', 'steps'))
            break
        except Hang:
            outs.append(('hang',))
            break
        except Exception as e:  # noqa: BLE001 - any other exception is an observation
            outs.append(('crash', type(e).__name__, str(e)[:80]))
            break
    return outs, src


def step(coro):
    """Run a coroutine that never really suspends (the scripted source is always ready)."""
    try:
        coro.send(None)
    except StopIteration as e:
        return e.value
    coro.close()
    raise RuntimeError('coroutine suspended')


class ADest:
    def __init__(self):
        self.parts = []

    async def write(self, data):
        self.parts.append(bytes(data))


async def agen(chunks):
    for c in chunks:
        yield c


def async_op(r, o, DelimiterError, variant):
    k = o[0]
    if k == 'read':
        if o[1] is None:
            return ('bytes', step([r.read, lambda: r.read(-1), lambda: r.read(None), r.readall][variant % 4]()))
        return ('bytes', step(r.read(o[1])))
    if k == 'peek':
        return ('bytes', step(r.peek() if o[1] is None else r.peek(o[1])))
    if k == 'read_until':
        try:
            if o[2] is None:
                return ('bytes', step(r.read_until(o[1], consume_delimiter=o[3]) if variant % 2
                                      else r.read_until(o[1], -1, o[3])))
            return ('bytes', step(r.read_until(o[1], o[2], o[3])))
        except DelimiterError:
            return ('DelimiterError', b'')
        except ValueError:
            return ('ValueError',)
    if k == 'pipe':
        dest = ADest()
        step(r.pipe(dest))
        return ('bytes', b''.join(dest.parts))
    if k == 'pipe_until':
        dest = ADest()
        try:
            step(r.pipe_until(o[1], dest, o[2]))
        except DelimiterError:
            return ('DelimiterError', b''.join(dest.parts))
        except ValueError:
            return ('ValueError',)
        return ('bytes', b''.join(dest.parts))
    step(r.exhaust())
    return ('bytes', b'')


def run_async(mods, case):
    AR, DelimiterError = mods['AR'], mods['DelimiterError']
    stack = [AR(agen(case['chunks']), chunk_size=case['cs'])]
    outs = []
    for i, h in enumerate(case['hist']):
        try:
            if h[0] == 'op':
                res = async_op(stack[-1], h[1], DelimiterError, i)
            elif h[0] == 'delimit':
                if len(stack) < 3:
                    stack.append(stack[-1].delimit(h[1]))
                res = ('bytes', b'')
            else:
                if len(stack) > 1:
                    step(stack[-1].exhaust())
                    stack.pop()
                res = ('bytes', b'')
            outs.append((res, stack[-1].tell(), bool(stack[-1].eof)))
        except Hang:
            outs.append((('hang',), -1, False))
            break
        except Exception as e:  # noqa: BLE001
            outs.append((('crash', type(e).__name__, str(e)[:80]), -1, False))
            break
    return outs


# ---------------------------------------------------------------- generators

SIZES = [None, None, 0, 1, 1, 2, 2, 3, 4, 5, 7, 9]


def gen_delim(rng, cs, alpha=ALPHA, maxlen=2):
    n = rng.randint(1, max(1, min(cs, maxlen)))
    return bytes(rng.choice(alpha) for _ in range(n))


def gen_op(rng, cs, sync, sizes=SIZES, alpha=ALPHA, dmax=2):
    kinds = ['read'] * 5 + ['peek'] * 3 + ['read_until'] * 7 + ['pipe_until'] * 3 + ['pipe', 'exhaust']
    if sync:
        kinds += ['readline'] * 3 + ['readlines']
    k = rng.choice(kinds)
    if k in ('read', 'peek', 'readline', 'readlines'):
        return (k, rng.choice(sizes))
    if k == 'read_until':
        return (k, gen_delim(rng, cs, alpha, dmax), rng.choice(sizes), rng.random() < 0.4)
    if k == 'pipe_until':
        return (k, gen_delim(rng, cs, alpha, dmax), rng.random() < 0.4)
    return (k,)


def gen_hist(rng, cs, sync, nops, nest, sizes=SIZES, alpha=ALPHA, dmax=2):
    h, depth = [], 0
    for _ in range(nops):
        x = rng.random()
        if nest and depth < 2 and x < 0.15:
            h.append(('delimit', gen_delim(rng, cs, alpha, dmax)))
            depth += 1
        elif nest and depth > 0 and x < 0.25:
            h.append(('pop',))
            depth -= 1
        else:
            h.append(('op', gen_op(rng, cs, sync, sizes, alpha, dmax)))
    return h


def gen_chunks(rng, data, style):
    """split data into source chunks (async) incl. empty ones"""
    chunks, i = [], 0
    while i < len(data):
        if style == 0:
            k = 1
        elif style == 1:
            k = rng.choice([0, 1, 1, 2, 3])
        elif style == 2:
            k = rng.choice([0, 1, 2, 5, 17, 64])
        else:
            k = len(data)
        chunks.append(data[i:i + k])
        i += k
    if rng.random() < 0.3:
        chunks.insert(rng.randint(0, len(chunks)), b'')
    return chunks


def gen_sched(rng, style, n=0):
    if style == 0:
        return [0] * (n + 3)
    if style == 1:
        return [rng.choice([0, 0, 1, 2, 4]) for _ in range(rng.randint(0, 12))]
    if style == 2:
        return [rng.choice([0, 1, 3, 7, 30, 100]) for _ in range(rng.randint(0, 40))]
    return []


def gen_small(rng, sync):
    n = rng.choice([0, 1, 2, 3, 3, 4, 4, 5, 5, 6, 6])
    data = bytes(rng.choice(ALPHA) for _ in range(n))
    cs = rng.randint(1, 4)
    hist = gen_hist(rng, cs, sync, rng.randint(1, 3), rng.random() < 0.3)
    case = {'data': data, 'cs': cs, 'hist': hist}
    if sync:
        case['maxlen'] = max(0, n + rng.choice([0, 0, 0, 0, -1, -2, 1, 3, 50]))
        case['sched'] = gen_sched(rng, rng.choice([0, 1, 1, 3]), n)
    else:
        case['chunks'] = gen_chunks(rng, data, rng.choice([0, 1, 1, 3]))
    return case


def gen_long(rng, sync, big):
    alpha = rng.choice([b'a\r\n-', b'ab\r\n-', b'ab-', b'a\n'])
    n = rng.choice([5, 20, 60, 200]) if not big else rng.choice([300, 700, 2000])
    # sprinkle multipart-like separators so that long delimiters occur
    pieces = []
    while sum(map(len, pieces)) < n:
        pieces.append(bytes(rng.choice(alpha) for _ in range(rng.randint(0, 12 if not big else 150))))
        pieces.append(rng.choice([b'\r\n--b', b'\r\n', b'--', b'\n', b'\r\n--b--\r\n', b'']))
    data = b''.join(pieces)[:n]
    cs = rng.choice([1, 2, 3]) if big else rng.choice([1, 2, 3, 4, 5, 8, 16, 64])
    sizes = SIZES + [cs, cs, 2 * cs, cs * 128, cs * 128 + 1, cs * 130, 11, 40, 300]
    dmax = 6
    dalpha = rng.choice([alpha, b'\r\n-b'])
    hist = gen_hist(rng, cs, sync, rng.randint(1, 30 if not big else 8), rng.random() < 0.5, sizes, dalpha, dmax)
    case = {'data': data, 'cs': cs, 'hist': hist}
    if sync:
        case['maxlen'] = max(0, len(data) + rng.choice([0, 0, 0, 0, -1, -7, 1, 9, 5000]))
        case['sched'] = gen_sched(rng, rng.choice([0, 1, 2, 2, 3]), len(data))
    else:
        case['chunks'] = gen_chunks(rng, data, rng.choice([0, 1, 2, 2, 3]))
    return case


EX_DELIMS = [b'\n', b'-', b'\r\n', b'--', b'-a']
EX_SIZES = [None, 0, 1, 2, 4]


def ex_ops(cs, sync):
    ops = [('read', n) for n in EX_SIZES] + [('peek', n) for n in EX_SIZES] + [('pipe',), ('exhaust',)]
    for d in EX_DELIMS:
        if len(d) <= cs:
            ops += [('read_until', d, n, c) for n in EX_SIZES for c in (False, True)]
            ops += [('pipe_until', d, c) for c in (False, True)]
    if sync:
        ops += [('readline', n) for n in EX_SIZES] + [('readlines', None), ('readlines', 2)]
    return ops


def gen_exhaustive(maxlen_data, sync):
    """every (data up to a length over {a, CR, LF, -}) x chunk size 1..3 x one operation x a
    state-shifting prefix operation x source chunking (1-byte / 2-byte / whole)"""
    prefixes = [None, ('peek', 1), ('read', 1), ('read_until', b'\n', None, False)]
    for n in range(maxlen_data + 1):
        for tup in itertools.product(ALPHA, repeat=n):
            data = bytes(tup)
            for cs in (1, 2, 3):
                for o in ex_ops(cs, sync):
                    for pre in prefixes:
                        hist = ([('op', pre)] if pre else []) + [('op', o)]
                        for style in (0, 1, 2):
                            case = {'data': data, 'cs': cs, 'hist': hist}
                            if sync:
                                case['maxlen'] = n
                                case['sched'] = [[0] * (n + 2), [1] * (n + 2), []][style]
                            else:
                                k = (1, 2, max(n, 1))[style]
                                case['chunks'] = [data[i:i + k] for i in range(0, n, k)]
                            yield case


STRADDLE_DELIMS = [b'|##', b'\r\n--', b'abca', b'aaa', b'--b-']


def gen_straddle(sync, quick):
    """Systematic block for delimiters of length 3 and 4 (incl. self-overlapping ones): the delimiter
    is split across a source-chunk border after s = 1..len-1 bytes; a pre-consumption read leaves
    u = 0..len+1 unread bytes buffered before the delimited operation (u < s: the cursor stands inside
    the delimiter); read_until with the size cap landing before / at / inside / after the delimiter and
    without a cap, consume on/off; pipe_until; delimit + child reads + pop; then a follow-up read.
    Reader chunk size and source chunking are varied independently."""
    for d in STRADDLE_DELIMS:
        n = len(d)
        heads = [b'', b'12345', d[:1], b'12' + d[:n - 1]]
        for s in range(1, n):
            for hi, head in enumerate(heads):
                l1 = len(head) + s
                tail = [b'payload', d[1:] + b'x' + d][(s + hi) % 2]
                data = head + d + tail
                for u in range(0, n + 2):
                    p = l1 - u
                    if p < 0:
                        continue
                    dist = max(0, len(head) - p)          # bytes between the cursor and the delimiter
                    sizes = sorted({None, max(dist - 1, 0), dist, dist + 1, dist + n, dist + n + 1},
                                   key=lambda x: -1 if x is None else x)
                    ops = [[('op', ('read_until', d, z, c))] for z in sizes for c in (False, True)]
                    ops += [[('op', ('pipe_until', d, c))] for c in (False, True)]
                    ops += [[('delimit', d), ('op', ('read', None)), ('pop',)],
                            [('delimit', d), ('op', ('read', 1)), ('op', ('peek', 2)), ('pop',)]]
                    for cs in sorted({n, max(n, l1), 8}):
                        for style in (0, 1, 2):
                            for mid in ops:
                                hist = ([('op', ('read', p))] if p else []) + mid + [('op', ('read', 3))]
                                case = {'data': data, 'cs': cs, 'hist': hist}
                                if sync:
                                    case['maxlen'] = len(data)
                                    case['sched'] = [[], [0] * (len(data) + 3), [l1 - 1] if l1 else []][style]
                                else:
                                    rest = data[l1:]
                                    case['chunks'] = [
                                        [data[:l1], rest],
                                        [data[:l1]] + [rest[i:i + 1] for i in range(len(rest))],
                                        [data[:l1], b'', rest[:2], rest[2:]],
                                    ][style]
                                    case['chunks'] = [c for c in case['chunks'] if c or style == 2]
                                yield case


# ---------------------------------------------------------------- checking


def spec_wire(case, sync):
    maxlen = case['maxlen'] if sync else len(case['data'])
    return [0, case['cs'], maxlen, case['data'], w_hist(case['hist'])]


def model_wire(case, sync):
    if sync:
        return [1, case['cs'], case['maxlen'], case['data'], case['sched'], w_hist(case['hist'])]
    return [2, case['cs'], [list(c) for c in case['chunks']], w_hist(case['hist'])]


def first_diff(a, b):
    for i, (x, y) in enumerate(zip(a, b)):
        if x != y:
            return i
    if len(a) != len(b):
        return min(len(a), len(b))
    return None


def w_result(r):
    t = r[0]
    if t == 'bytes':
        return [0, r[1]]
    if t == 'DelimiterError':
        return [1, r[1]]
    if t == 'lines':
        return [2, list(r[1])]
    return [3]


def oracle_wire(case, sync, impl):
    """the implementation's observation, as presented to the extracted oracle (Oracle.v)"""
    maxlen = case['maxlen'] if sync else len(case['data'])
    if sync:
        obs = [[w_result(r), 0, 0] for r in impl]
    else:
        obs = [[w_result(r), t if t >= 0 else 99999, e] for (r, t, e) in impl]
    return [3, sync, case['cs'], maxlen, case['data'], w_hist(case['hist']), obs]


def abnormal(impl_res):
    for r in impl_res:
        if r[0] in ('crash', 'hang'):
            return r[0]
    return None


def judge(ctx, sync, case, impl, spec_out, model_out, verdict_step, src=None, tag=None, extra=None):
    """returns 'cursor' (binding violation found), 'model' (correspondence only) or None.
    [verdict_step] is the extracted oracle's answer on the implementation's observation:
    the first step that is not what the flat cursor gives ([] = all steps fine)."""
    which = tag or ('sync' if sync else 'async')
    spec_res = [r_result(o[0]) for o in spec_out]
    impl_res = impl if sync else [o[0] for o in impl]
    detail = {'reader': which, 'case': jsonable(case)}
    if extra and (abnormal(impl_res) or verdict_step or (src is not None and src.over is not None)):
        detail.update(extra(impl_res))
    verdict = None
    ab = abnormal(impl_res)
    if ab or verdict_step:
        verdict = 'cursor'
        i = len(impl_res) - 1 if ab else verdict_step[0]
        kind = {'crash': 'raises-other-exception', 'hang': 'hangs', None: 'differs-from-flat-cursor'}[ab]
        d = dict(detail, step=i, impl=jsonable(impl[:i + 1]), cursor=jsonable(spec_res[:i + 1]),
                 what='operation %d: the real reader did not do what the same operation does on a flat cursor '
                      'over the whole byte string (result%s)' % (i, '' if sync else ', tell() or eof'))
        if not sync and not ab and i < len(impl) and i < len(spec_out):
            d['impl_tell_eof'] = [impl[i][1], impl[i][2]]
            d['cursor_pos_atend'] = [spec_out[i][1], bool(spec_out[i][2])]
            if impl_res[i] == spec_res[i]:
                kind = 'tell-or-eof-differs-from-cursor'
        ctx.violation('%s-reader-%s' % (which, kind), d, key='%s-cursor-%s' % (which, kind))
    if sync and src is not None and src.over is not None:
        verdict = 'cursor'
        ctx.violation('%s-reader-requests-beyond-declared-length' % which,
                      dict(detail, requested=src.over[0], budget_left=src.over[1]), key='%s-over' % which)
    if sync and src is not None and src.odd is not None:
        ctx.advisory.append({'sync source asked for a non-positive size': src.odd, 'case': jsonable(case)})
    if verdict is None:
        if sync:
            i = first_diff(impl_res, [r_result(o) for o in model_out])
        else:
            i = first_diff([(o[0], o[1], o[2]) for o in impl],
                           [(r_result(o[0]), o[1], bool(o[2])) for o in model_out])
        if i is not None:
            verdict = 'model'
            pending_corr.append((which, dict(detail, step=i, impl=jsonable(impl[:i + 1]),
                                             model=jsonable(model_out[:i + 1]),
                                             broken='C14.%s_model_corr' % which)))
    return verdict


pending_corr = []


def nontrivial(case, impl_res):
    return any(r[0] != 'bytes' or r[1] for r in impl_res)


def run_cases(ctx, mods, model, cases, sync, tag):
    def hung(r):
        o = r[0] if sync else [x[0] for x in r]
        return bool(o) and o[-1] == ('hang',)        # ('hang', 'steps') is deterministic: not re-run

    impls = [confirm_hang(ctx, hung, run_sync if sync else run_async, mods, c) for c in cases]
    spec_outs = model.run_many([spec_wire(c, sync) for c in cases])
    model_outs = model.run_many([model_wire(c, sync) for c in cases])
    obs = [(im[0] if sync else im) for im in impls]
    ok = [abnormal(o if sync else [x[0] for x in o]) is None for o in obs]
    verdicts = iter(model.run_many([oracle_wire(c, sync, o) for c, o, k in zip(cases, obs, ok) if k]))
    for c, s, m, im, o, k in zip(cases, spec_outs, model_outs, impls, obs, ok):
        vstep = next(verdicts) if k else None
        v = judge(ctx, sync, c, o, s, m, vstep, im[1] if sync else None)
        res = o if sync else [x[0] for x in o]
        key = (tag, sync, repr(sorted(c.items())))
        ctx.note_case(key, nontrivial(c, res))
        ctx.count('%s-%s' % ('sync' if sync else 'async', tag))
        for h in c['hist']:
            ctx.count('op:' + (h[1][0] if h[0] == 'op' else h[0]))
        if v:
            ctx.count('disagree-' + v)
    if sync and mods.get('CR') is not None and not (ctx.tier == 'quick' and tag == 'exhaustive'):
        run_cy_cases(ctx, mods, model, cases, spec_outs, model_outs, tag)


class SrcInfo:
    def __init__(self, over, odd):
        self.over, self.odd = over, odd


def cy_worker(argv):
    """child process: runs the built Cython twin on pickled cases, one result line per case.  A hang
    inside the C code cannot be interrupted by a Python signal handler, so the parent kills us."""
    import base64
    import pickle
    import sys
    stage, path, start = argv[0], argv[1], int(argv[2])
    sys.path.insert(0, stage)
    mods = load_mods()
    mods['SR'] = mods['CR']
    with open(path, 'rb') as fh:
        cases = pickle.load(fh)
    out = sys.stdout
    for i in range(start, len(cases)):
        out.write('S %d\n' % i)
        out.flush()
        outs, src = run_sync(mods, cases[i])
        out.write('R ' + base64.b64encode(pickle.dumps((i, outs, src.over, src.odd))).decode() + '\n')
        out.flush()


def child_cpu(pid):
    """CPU seconds (user + system) consumed so far by a child process"""
    import os
    try:
        with open('/proc/%d/stat' % pid) as fh:
            f = fh.read().rsplit(')', 1)[1].split()
        return (int(f[11]) + int(f[12])) / os.sysconf('SC_CLK_TCK')
    except Exception:  # noqa: BLE001 - gone
        return None


def cy_session(ctx, path, start, ncases, results, limit):
    """one child process from case [start]; returns the index of a case on which the child burnt [limit]
    CPU seconds without finishing it (None: all done / child ended).  The budget is the CHILD'S CPU time
    since its last progress line, so machine load cannot trigger it."""
    import base64
    import os
    import pickle
    import select
    import subprocess
    import sys
    proc = subprocess.Popen([sys.executable, '-u', os.path.abspath(__file__), '--cy-worker', ctx.stage, path,
                             str(start)], stdout=subprocess.PIPE, stderr=subprocess.DEVNULL,
                            env=dict(os.environ, VERIF_REPO=common.REPO))
    current, buf, mark = start, b'', 0.0
    stalled = None
    try:
        while True:
            r, _, _ = select.select([proc.stdout], [], [], 0.5)
            if not r:
                cpu = child_cpu(proc.pid)
                if cpu is None:
                    break
                if cpu - mark >= (limit(current) if callable(limit) else limit):
                    stalled = current
                    break
                continue
            chunk = os.read(proc.stdout.fileno(), 1 << 20)
            if not chunk:
                break
            buf += chunk
            while b'\n' in buf:
                line, buf = buf.split(b'\n', 1)
                if line.startswith(b'S '):
                    current = int(line[2:])
                    mark = child_cpu(proc.pid) or mark
                elif line.startswith(b'R '):
                    i, outs, over, odd = pickle.loads(base64.b64decode(line[2:]))
                    results[i] = (outs, SrcInfo(over, odd))
                    current = i + 1
    finally:
        proc.kill()
        proc.wait()
    return stalled, current


def run_cy(ctx, cases, mods):
    """observations of the Cython twin for all cases.  A first-stage stall (5 CPU-seconds of the child on
    one case) is never reported directly: that case is re-run ALONE in a fresh child under CONFIRM_LIMIT
    CPU-seconds; it is a hang only if it stalls again.  Once a hang was confirmed in this run, later
    first-stage stalls on cases of the same shape (source shorter than the declared length) are neither
    confirmed again nor reported: they are skipped and counted."""
    import os
    import pickle
    import tempfile

    def dump(cs):
        fd, path = tempfile.mkstemp(prefix='c14-cy.', suffix='.pkl')
        with os.fdopen(fd, 'wb') as fh:
            pickle.dump(cs, fh)
        return path

    path = dump(cases)
    results = [None] * len(cases)
    start = 0
    shapes = {}

    def short_shape(i):
        # the shape of the known defect: some reader's source ends before its declared length -- the
        # top-level one, or a delimited child on which the pre-fix Python twin overruns its buffer
        if i not in shapes:
            c = cases[i]
            shapes[i] = c['maxlen'] > len(c['data']) or overrun_step(mods, c)[0] is not None
        return shapes[i]

    try:
        while start < len(cases):
            def first_stage(i):
                # after a confirmed hang, stalls on cases of the same shape are only skipped (never
                # reported), so a shorter first-stage budget there costs nothing but time
                if not _CY_CONFIRMED.get('short'):
                    return 5.0
                return 2.0 if (i < len(cases) and short_shape(i)) else 5.0

            stalled, current = cy_session(ctx, path, start, len(cases), results, first_stage)
            if stalled is None:
                if current < len(cases) and results[current] is None:
                    # the child died on this case without output (e.g. a crash of the extension)
                    results[current] = ([('crash', 'worker-died', '')], SrcInfo(None, None))
                    start = current + 1
                else:
                    start = current
                continue
            c = cases[stalled]
            short = short_shape(stalled)
            ctx.count('stall-retried')
            ctx.cov['stall_retried'] = ctx.cov.get('stall_retried', 0) + 1
            if short and _CY_CONFIRMED.get('short'):
                ctx.count('cyutil-stall-same-shape-as-confirmed-hang-skipped')
                results[stalled] = 'skip'
            else:
                one = dump([c])
                try:
                    single = [None]
                    st2, _ = cy_session(ctx, one, 0, 1, single, 20.0)
                finally:
                    os.unlink(one)
                if st2 is not None:
                    results[stalled] = ([('hang',)], SrcInfo(None, None))
                    if short:
                        _CY_CONFIRMED['short'] = True
                elif single[0] is not None:
                    ctx.count('stall-not-reproduced')
                    results[stalled] = single[0]
                else:
                    results[stalled] = ([('crash', 'worker-died', '')], SrcInfo(None, None))
            start = stalled + 1
    finally:
        os.unlink(path)
    return results


_CY_CONFIRMED = {}


_PREFIX = {}


def prefix_twin(mods):
    """falcon.util.reader.BufferedReader with _read as it was BEFORE fix 1d44cb7 (position may run past a
    short source): the source the shipped binary was built from.  Used only to recognise, on a case where
    the binary disagrees with the cursor, whether it is exactly that already-fixed defect."""
    if 'cls' not in _PREFIX:
        class PreFix(mods['SR']):
            def _read(self, size):
                if size <= self._buffer_len - self._buffer_pos:
                    if size == self._buffer_len and self._buffer_pos == 0:
                        result = self._buffer
                        self._buffer_len = 0
                        self._buffer = b''
                        return result
                    self._buffer_pos += size
                    return self._buffer[self._buffer_pos - size:self._buffer_pos]
                if self._buffer_len == 0 and size >= self._chunk_size:
                    return self._perform_read(size)
                read_size = size - (self._buffer_len - self._buffer_pos)
                result = self._buffer[self._buffer_pos:]
                if read_size >= self._chunk_size:
                    self._buffer_len = 0
                    self._buffer_pos = 0
                    self._buffer = b''
                    return result + self._perform_read(read_size)
                self._buffer = self._perform_read(self._chunk_size)
                self._buffer_len = len(self._buffer)
                self._buffer_pos = read_size
                if read_size > self._buffer_len and _PREFIX.get('overrun') is None:
                    # the defect's precondition: this reader's source (for a delimited child: the
                    # parent's read_until, which stops at the delimiter) ended before the requested
                    # size and the position now lies past the buffered data
                    _PREFIX['overrun'] = _PREFIX.get('step', 0)
                return result + self._buffer[:read_size]
        _PREFIX['cls'] = PreFix
    return _PREFIX['cls']


def overrun_step(mods, case):
    """(index of the first history entry during which some reader of the PRE-FIX Python twin -- the top-level
    one or a delimited child, whose source always may end before its declared length -- leaves its position
    past its buffer, or None; the pre-fix twin's observations or None)"""
    pre_mods = dict(mods, SR=prefix_twin(mods))
    _PREFIX['overrun'] = None
    _PREFIX['step'] = 0

    def on_step(i):
        _PREFIX['step'] = i

    try:
        pre, _ = guarded(run_sync, pre_mods, case, on_step, limit=2.0)
    except BaseException as e:  # noqa: BLE001 - the pre-fix twin may itself loop after the overrun (Hang)
        if isinstance(e, (KeyboardInterrupt, SystemExit)) or type(e).__name__ == 'CheckTimeout':
            raise
        pre = None
    return _PREFIX.get('overrun'), pre


def cy_prefix_agrees(ctx, case, n, spec_res):
    """does the built twin complete the first [n] history entries of [case] with exactly the flat cursor's
    results?  (one fresh child under a 20 CPU-s limit)"""
    import os
    import pickle
    import tempfile
    fd, path = tempfile.mkstemp(prefix='c14-cy.', suffix='.pkl')
    with os.fdopen(fd, 'wb') as fh:
        pickle.dump([dict(case, hist=case['hist'][:n])], fh)
    try:
        single = [None]
        st, _ = cy_session(ctx, path, 0, 1, single, 20.0)
    finally:
        os.unlink(path)
    return st is None and single[0] is not None and list(single[0][0]) == list(spec_res[:n])


def run_cy_cases(ctx, mods, model, cases, spec_outs, model_outs, tag):
    ctx.cov['cyutil_reader'] = 'built twin found in $VERIF_REPO and run through the sync correspondence'
    impls = run_cy(ctx, cases, mods)
    keep = [i for i, im in enumerate(impls) if im != 'skip' and im is not None]
    cases = [cases[i] for i in keep]
    spec_outs = [spec_outs[i] for i in keep]
    model_outs = [model_outs[i] for i in keep]
    impls = [impls[i] for i in keep]
    obs = [im[0] for im in impls]
    ok = [abnormal(o) is None for o in obs]
    verdicts = iter(model.run_many([oracle_wire(c, True, o) for c, o, k in zip(cases, obs, ok) if k]))
    def classify_for(case, spec_out):
        def classify(impl_res):
            # is the binary's observation exactly the defect fixed in the Python twin by 1d44cb7?  Its
            # precondition: a reader whose source ends before the declared length (the top-level reader on a
            # short source, or a delimited child: its source stops at the delimiter) takes a read that leaves
            # the position past the buffered data -- observed on the Python twin with _read as before the fix.
            short_top = case['maxlen'] > len(case['data'])
            ov, pre = overrun_step(mods, case)
            short = short_top or ov is not None
            same = False
            hang_after_overrun = False
            if short:
                # a hang inside the C code is only known for the case as a whole
                same = pre == impl_res or (impl_res == [('hang',)] and bool(pre) and pre[-1] == ('hang',))
                if not same and impl_res == [('hang',)] and ov is not None:
                    # C arithmetic on the corrupt (negative) length loops where Python's happens not to: it is
                    # the same defect iff the binary does everything BEFORE the overrunning entry like the cursor
                    spec_res = [r_result(o[0]) for o in spec_out]
                    hang_after_overrun = cy_prefix_agrees(ctx, case, ov, spec_res)
                    same = hang_after_overrun
            return {'implementation': 'cyutil', 'source_shorter_than_declared_length': short,
                    'same_as_python_twin_before_fix_1d44cb7': same,
                    'top_level_source_short': short_top, 'position_overrun_at_entry': ov,
                    'hang_only_after_position_overrun': hang_after_overrun}
        return classify

    for c, s, m, im, o, k in zip(cases, spec_outs, model_outs, impls, obs, ok):
        vstep = next(verdicts) if k else None
        v = judge(ctx, True, c, o, s, m, vstep, im[1], tag='cyutil', extra=classify_for(c, s))
        ctx.note_case(('cy', tag, repr(sorted(c.items()))), nontrivial(c, o))
        ctx.count('cyutil-%s' % tag)
        if v:
            ctx.count('disagree-cyutil-' + v)


def load_cy_reader():
    """The Cython twin falcon/cyutil/reader (the BufferedReader falcon.util exports when it is importable)
    cannot be rebuilt offline; when a built artifact sits in $VERIF_REPO it is loaded stand-alone (the
    staged copy excludes *.so) and run through the same sync correspondence and cursor oracle."""
    import glob
    import importlib.machinery
    import importlib.util
    import os
    paths = sorted(glob.glob(os.path.join(common.REPO, 'falcon', 'cyutil', 'reader.*.so')))
    if not paths:
        return None
    try:
        loader = importlib.machinery.ExtensionFileLoader('falcon.cyutil.reader', paths[0])
        spec = importlib.util.spec_from_file_location('falcon.cyutil.reader', paths[0], loader=loader)
        m = importlib.util.module_from_spec(spec)
        loader.exec_module(m)
        return m.BufferedReader
    except Exception:  # noqa: BLE001 - built for another interpreter etc.
        return None


def load_mods():
    from falcon.util.reader import BufferedReader as SR
    from falcon.asgi.reader import BufferedReader as AR
    from falcon.errors import DelimiterError
    return {'SR': SR, 'AR': AR, 'DelimiterError': DelimiterError, 'CR': load_cy_reader()}


def main(ctx):
    mods = load_mods()
    model = common.Model(ctx)
    for o in common.corpus('C14'):
        replay(ctx, o)
    quick = ctx.tier == 'quick'
    ctx.cov['rule'] = ('a case = (data, source chunking or short-read schedule, chunk size, declared length, '
                       'operation history with up to two nested delimit()s); counted once per distinct case; '
                       'non-trivial = some step returned a non-empty value or raised')
    ctx.cov['unproved_ops'] = ('none inside the modelled domain: sync and async refinement are proved for every '
                               'operation and nested delimit/pop to depth 2; outside the domain (not generated): '
                               'negative sizes other than -1, delimiters of length 0 or > chunk_size, nesting deeper '
                               'than 2, __aiter__ iteration, cyutil.reader')
    n_small = 20000 if quick else 250000
    n_long = 2500 if quick else 25000
    n_big = 150 if quick else 1500
    ex_len = 2 if quick else 4
    ctx.cov['exhaustive_block'] = ('all data of length <= %d over {a,CR,LF,-} x chunk size 1..3 x every single '
                                   'operation of a fixed list (sizes None/0/1/2/4, 5 delimiters, +-consume) x 4 prefix '
                                   'operations x 3 source chunkings, both readers' % ex_len)
    ctx.cov['straddle_block'] = ('delimiters of length 3 and 4 (%s) split across a chunk border after 1..len-1 bytes x '
                                 '0..len+1 unread buffered bytes x size caps before/at/inside/after the delimiter x consume x '
                                 'pipe_until / delimit+pop x 3 reader chunk sizes x 3 source chunkings, both readers%s'
                                 % (', '.join(map(repr, STRADDLE_DELIMS)), ''))
    for sync in (True, False):
        batch = []
        for case in gen_exhaustive(ex_len, sync):
            batch.append(case)
            if len(batch) >= 20000:
                run_cases(ctx, mods, model, batch, sync, 'exhaustive')
                batch = []
        run_cases(ctx, mods, model, batch, sync, 'exhaustive')
        run_cases(ctx, mods, model, list(gen_straddle(sync, quick)), sync, 'straddle')
        run_cases(ctx, mods, model, [gen_small(ctx.rng, sync) for _ in range(n_small)], sync, 'small')
        run_cases(ctx, mods, model, [gen_long(ctx.rng, sync, False) for _ in range(n_long)], sync, 'long')
        run_cases(ctx, mods, model, [gen_long(ctx.rng, sync, True) for _ in range(n_big)], sync, 'big')
    flush_corr(ctx)


def flush_corr(ctx):
    found = any(v['found_input'] for v in ctx.violations)
    seen = set()
    for which, detail in pending_corr:
        if which in seen:
            continue
        seen.add(which)
        ctx.violation('correspondence-broken', detail, found_input=found, key='corr-' + which)
    del pending_corr[:]


def replay(ctx, obj):
    mods = load_mods()
    model = common.Model(ctx)
    if 'case' not in obj:
        return main(ctx)
    case = unjson(obj['case'])
    case['hist'] = [tuple([h[0], tuple(h[1])] if h[0] == 'op' else h) for h in case['hist']]
    sync = obj.get('reader') in ('sync', 'cyutil')
    if obj.get('reader') == 'sync':
        mods['CR'] = None
    run_cases(ctx, mods, model, [case], sync, 'replay')
    ctx.note_case('replay-pad', True)
    ctx.sample({'replayed': obj.get('_file') or 'replay', 'reader': obj.get('reader')})
    if not ctx.replay:
        return
    flush_corr(ctx)


if __name__ == '__main__':
    import sys
    if len(sys.argv) > 1 and sys.argv[1] == '--cy-worker':
        cy_worker(sys.argv[2:])
