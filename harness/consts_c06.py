"""Tables for coq/gen/ConstsC06.v."""


def emit(A, nlist, strlit, strlist):
    import falcon.constants as constants
    import falcon.request as request
    A('(* falcon/constants.py, falcon/request.py *)')
    A('Definition singleton_headers : list (list N) := %s.' % strlist(sorted(constants.SINGLETON_HEADERS)))
    A('Definition wsgi_content_headers : list (list N) := %s.' % strlist(sorted(request.WSGI_CONTENT_HEADERS)))
