"""C03 — middleware / hooks / responder call order.

Generated middleware classes, hook towers, resources, sinks and error handlers record every
call the real framework makes (falcon.App via a direct WSGI call, falcon.asgi.App via a direct
ASGI call) and perform a scripted action; the recorded trace is compared with the extracted
Coq model (coq/C03/Model.v: prepare + run_request / lifespan) and judged by the proved oracle
(coq/C03/Spec.v: oracle = documented discipline + req_succeeded flags + nothing after an
unhandled raise + response methods bottom-up once each)."""
import asyncio
import io
import itertools
import json
import logging

import common

# action codes (coq/C03/Extract.v): 0 Return, 1 Complete, 2 RaiseHTTP, 3 RaiseApp HReturn,
# 4 RaiseApp HRaiseHTTP, 5 RaiseApp HRaiseOther, 6 RaiseUnhandled; -1 = method absent
ACTIONS = [0, 1, 2, 3, 4, 5, 6]
ROUTES = {0: ('GET', '/r'), 1: ('POST', '/r'), 2: ('GET', '/sink/x'), 3: ('GET', '/nowhere')}
S_REQ, S_RSRC, S_RESP, S_HOOK, S_RESPONDER, S_DEFAULT, S_META = range(7)


class Abort(BaseException):
    """Not an Exception: `except Exception` must not catch it."""


class HandlerBoom(Exception):
    """Raised by an error handler: leaves _handle_exception."""


class State:
    """Per-request script and recorder shared by every generated callable."""
    script = {}
    trace = []
    variant = 0
    custom = None      # exception class raised by action code 7 (memo block)
    traces = None      # {request id: trace} in the concurrency block
    pausing = False    # async recorders await Pause() around their work


def make_handled(falcon):
    class Handled(Exception):
        def __init__(self, site, hact):
            self.site = site
            self.hact = hact

    class HandledChild(Handled):
        pass

    return Handled, HandledChild


def perform(falcon, Handled, site, code, resp):
    """What a scripted application callable does after having recorded its call."""
    if code == 0:
        return
    if code == 1:
        resp.complete = True
        return
    if code == 2:
        raise falcon.HTTPForbidden()
    if code in (3, 4, 5):
        raise Handled(site, code - 3)
    if code == 7:
        # an application exception class of the memo block (State.custom)
        raise State.custom()
    raise Abort()


def handler_body(falcon, ex, resp, req=None):
    (trace_of(req) if req is not None else State.trace).append([2, ex.site, ex.hact])
    if ex.hact == 0:
        resp.status = 599
        return
    if ex.hact == 1:
        if State.variant % 2:
            raise falcon.HTTPStatus(falcon.HTTP_750 if hasattr(falcon, 'HTTP_750') else '750 x')
        raise falcon.HTTPConflict()
    if State.variant % 3 == 0:
        raise Abort()
    raise HandlerBoom()


class Pause:
    """an await point at which the concurrency block switches between requests"""
    def __await__(self):
        yield 'pause'


def trace_of(req):
    """the per-request trace in the concurrency block (two requests on one app), else the
    global one"""
    if State.traces is not None:
        return State.traces[req.get_header('X-Req-Id')]
    return State.trace


# definition styles (coq/C03/Styles.v): 0 method, 1 staticmethod, 2 classmethod, 3 function on the
# instance, 4 callable object on the instance, 5 inherited from a base class
BOUND_STYLES = (0, 2, 5)


def build_component(falcon, Handled, asgi, idx, shape, naming, styles=(0, 0, 0, 0, 0)):
    """shape = (has_req, has_rsrc, has_resp, has_startup, has_shutdown).
    naming (ASGI only): 0 = plain coroutine names, 1 = *_async names next to sync decoys.
    styles: how each of the five methods is defined on the component."""
    ns, base_ns, inst = {}, {}, {}
    has_req, has_rsrc, has_resp, has_su, has_sd = shape

    def install(name, core, style, is_async):
        if style in (0, 5):
            if is_async:
                async def m(self, *a):
                    return await core(*a)
            else:
                def m(self, *a):
                    return core(*a)
            (base_ns if style == 5 else ns)[name] = m
        elif style == 1:
            ns[name] = staticmethod(core)
        elif style == 2:
            if is_async:
                async def cm(cls, *a):
                    return await core(*a)
            else:
                def cm(cls, *a):
                    return core(*a)
            ns[name] = classmethod(cm)
        elif style == 3:
            inst[name] = core
        else:
            if is_async:
                class K:
                    async def __call__(self, *a):
                        return await core(*a)
            else:
                class K:
                    def __call__(self, *a):
                        return core(*a)
            inst[name] = K()

    def do_req(req, resp):
        code = State.script[(S_REQ, idx)]
        trace_of(req).append([0, [S_REQ, idx], code])
        perform(falcon, Handled, [S_REQ, idx], code, resp)

    def do_rsrc(req, resp, resource, params):
        assert resource is not None
        code = State.script[(S_RSRC, idx)]
        trace_of(req).append([0, [S_RSRC, idx], code])
        perform(falcon, Handled, [S_RSRC, idx], code, resp)

    def do_resp(req, resp, resource, req_succeeded):
        code = State.script[(S_RESP, idx)]
        trace_of(req).append([1, idx, code, resource is not None, bool(req_succeeded)])
        perform(falcon, Handled, [S_RESP, idx], code, resp)

    if not asgi:
        if has_req:
            install('process_request', do_req, styles[0], False)
        if has_rsrc:
            install('process_resource', do_rsrc, styles[1], False)
        if has_resp:
            install('process_response', do_resp, styles[2], False)
    else:
        suffix = '_async' if naming else ''

        def decoy(self, *a, **k):
            State.trace.append([9, 'sync variant called on ASGI'])

        def awaiting(f):
            async def core(*a):
                if State.pausing:
                    await Pause()
                f(*a)
                if State.pausing:
                    await Pause()
            return core

        for present, name, f, y in ((has_req, 'process_request', do_req, styles[0]),
                                    (has_rsrc, 'process_resource', do_rsrc, styles[1]),
                                    (has_resp, 'process_response', do_resp, styles[2])):
            if present:
                install(name + suffix, awaiting(f), y, True)
                if naming:
                    ns[name] = decoy
    # lifespan handlers (ignored by WSGI apps, but their presence must not matter there)
    if has_su:
        async def startup(scope, event):
            code = State.script[('su', idx)]
            State.trace.append([0, 1, idx, code])
            if code == 1:
                raise ValueError('startup failed')
            if code == 2:
                raise Abort()
        install('process_startup', startup, styles[3], True)
    if has_sd:
        async def shutdown(scope, event):
            code = State.script[('sd', idx)]
            State.trace.append([0, 0, idx, code])
            if code == 1:
                raise ValueError('shutdown failed')
            if code == 2:
                raise Abort()
        install('process_shutdown', shutdown, styles[4], True)
    base = type('Base%d' % idx, (), base_ns)
    obj = type('MW%d' % idx, (base,), ns)()
    for k, v in inst.items():
        setattr(obj, k, v)
    return obj


def build_resource(falcon, Handled, asgi, hook_shape, class_level, hier=None):
    """hook_shape: tuple of is_before flags, outermost first. The outermost `class_level`
    layers are applied as class decorators, the rest as method decorators.

    hier = (counts, mixin, suffix): a resource class HIERARCHY.  counts = (k_top, ..., k_base):
    the outermost k_top layers are class-level hooks on the most derived class, the next ones on
    its base, ..., k_base on the class at the bottom; the remaining layers are method-level hooks
    on the responder function itself.  The responder is defined in the bottom class, or (mixin)
    in a separate mixin class that the bottom class merely inherits from - so class-level hooks
    always have to reach a responder the decorated class INHERITS when depth > 1 or mixin.
    suffix: the responder is on_get_v, routed with add_route(..., suffix='v')."""
    def mk_hook(j, before):
        if asgi:
            if before:
                async def hook(req, resp, resource, params):
                    code = State.script[(S_HOOK, j)]
                    trace_of(req).append([0, [S_HOOK, j], code])
                    perform(falcon, Handled, [S_HOOK, j], code, resp)
            else:
                async def hook(req, resp, resource):
                    code = State.script[(S_HOOK, j)]
                    trace_of(req).append([0, [S_HOOK, j], code])
                    perform(falcon, Handled, [S_HOOK, j], code, resp)
        else:
            if before:
                def hook(req, resp, resource, params):
                    code = State.script[(S_HOOK, j)]
                    trace_of(req).append([0, [S_HOOK, j], code])
                    perform(falcon, Handled, [S_HOOK, j], code, resp)
            else:
                def hook(req, resp, resource):
                    code = State.script[(S_HOOK, j)]
                    trace_of(req).append([0, [S_HOOK, j], code])
                    perform(falcon, Handled, [S_HOOK, j], code, resp)
        return hook

    if asgi:
        async def on_get(self, req, resp):
            code = State.script[(S_RESPONDER, 0)]
            trace_of(req).append([0, [S_RESPONDER, 0], code])
            perform(falcon, Handled, [S_RESPONDER, 0], code, resp)
    else:
        def on_get(self, req, resp):
            code = State.script[(S_RESPONDER, 0)]
            trace_of(req).append([0, [S_RESPONDER, 0], code])
            perform(falcon, Handled, [S_RESPONDER, 0], code, resp)
    layers = list(enumerate(hook_shape))
    if hier is not None:
        counts, mixin, suffix = hier
        name = 'on_get_v' if suffix else 'on_get'
        n_class = sum(counts)
        for j, before in reversed(layers[n_class:]):
            on_get = (falcon.before if before else falcon.after)(mk_hook(j, before))(on_get)
        if mixin:
            mix = type('Mix', (), {name: on_get, 'helper': lambda self: None})
            cls = type('B0', (mix,), {})
        else:
            cls = type('B0', (), {name: on_get})
        # bottom class first: its segment is the LAST of the class-level layers
        pos = n_class
        for depth, k in enumerate(reversed(counts)):
            if depth > 0:
                cls = type('B%d' % depth, (cls,), {})
            seg = layers[pos - k:pos]
            pos -= k
            for j, before in reversed(seg):
                cls = (falcon.before if before else falcon.after)(mk_hook(j, before))(cls)
        return cls()
    # innermost first
    for j, before in reversed(layers[class_level:]):
        on_get = (falcon.before if before else falcon.after)(mk_hook(j, before))(on_get)
    cls = type('Res', (), {'on_get': on_get})
    for j, before in reversed(layers[:class_level]):
        cls = (falcon.before if before else falcon.after)(mk_hook(j, before))(cls)
    return cls()


class AppCache:
    def __init__(self, falcon, limit=600):
        import falcon.asgi
        self.falcon = falcon
        self.cache = {}
        self.limit = limit
        self.Handled, self.HandledChild = make_handled(falcon)

    def get(self, asgi, indep, shapes, naming, hook_shape, class_level, split=None, hier=None, styles=None):
        """Returns (app, oks): oks = which add_middleware calls returned normally.
        split: [(n, kind)] - the first entry is the constructor argument, the others are
        add_middleware calls; kind 0 list, 1 bare component (n == 1), 2 None (n == 0), 3 tuple."""
        split = tuple(tuple(x) for x in (split or [(len(shapes), 0)]))
        hier = None if hier is None else (tuple(hier[0]), bool(hier[1]), bool(hier[2]))
        styles = tuple(styles) if styles else tuple((0, 0, 0, 0, 0) for _ in shapes)
        key = (asgi, indep, shapes, naming, hook_shape, class_level, split, hier, styles)
        app = self.cache.get(key)
        if app is not None:
            return app
        falcon = self.falcon
        Handled = self.Handled
        mws = [build_component(falcon, Handled, asgi, i, sh, naming[i] if naming else 0, styles[i])
               for i, sh in enumerate(shapes)]
        args, pos = [], 0
        for n, kind in split:
            part = mws[pos:pos + n]
            pos += n
            args.append(None if kind == 2 else part[0] if kind == 1 else tuple(part) if kind == 3 else list(part))
        assert pos == len(mws)
        oks = []
        try:
            App = falcon.asgi.App if asgi else falcon.App
            app = App(middleware=args[0], independent_middleware=indep)
        except (TypeError, AttributeError) as e:
            app = (type(e).__name__, [])
            self.cache[key] = app
            return app
        for a in args[1:]:
            try:
                app.add_middleware(a)
                oks.append(1)
            except TypeError:
                oks.append(0)
        if hier is not None and hier[2]:
            app.add_route('/r', build_resource(falcon, Handled, asgi, hook_shape, class_level, hier), suffix='v')
        else:
            app.add_route('/r', build_resource(falcon, Handled, asgi, hook_shape, class_level, hier))
        if asgi:
            async def sink(req, resp, **kw):
                code = State.script[(S_RESPONDER, 0)]
                trace_of(req).append([0, [S_RESPONDER, 0], code])
                perform(falcon, Handled, [S_RESPONDER, 0], code, resp)

            async def handler(req, resp, ex, params):
                handler_body(falcon, ex, resp, req)

            async def h_default(req, resp, ex, params):
                trace_of(req).append([2, [S_DEFAULT, 0], 0])
                resp.status = ex.status

            async def h_meta(req, resp, ex, params):
                trace_of(req).append([2, [S_META, 0], 0])
                resp.status = ex.status
        else:
            def sink(req, resp, **kw):
                code = State.script[(S_RESPONDER, 0)]
                trace_of(req).append([0, [S_RESPONDER, 0], code])
                perform(falcon, Handled, [S_RESPONDER, 0], code, resp)

            def handler(req, resp, ex, params):
                handler_body(falcon, ex, resp, req)

            def h_default(req, resp, ex, params):
                trace_of(req).append([2, [S_DEFAULT, 0], 0])
                resp.status = ex.status

            def h_meta(req, resp, ex, params):
                trace_of(req).append([2, [S_META, 0], 0])
                resp.status = ex.status
        app.add_sink(sink, '/sink')
        app.add_error_handler(Handled, handler)
        app.add_error_handler(falcon.HTTPRouteNotFound, h_default)
        app.add_error_handler(falcon.HTTPMethodNotAllowed, h_default)
        app.add_error_handler(falcon.HTTPBadRequest, h_meta)
        if len(self.cache) >= self.limit:
            self.cache.clear()
        self.cache[key] = (app, oks)
        return app, oks


# ------------------------------------------------------------------ cases

def shape_of(comp):
    return tuple(x >= 0 for x in comp[:5])


def styles_of(comp):
    return tuple(comp[5]) if len(comp) > 5 else (0, 0, 0, 0, 0)


def case_key(c):
    return json.dumps(c, sort_keys=True)


def mk_case(asgi, indep, comps, meta=0, route=0, hooks=(), responder=0, naming=None, class_level=0,
            variant=0, split=None, hier=None):
    """comps: list of [req, rsrc, resp, startup, shutdown] (action codes, -1 = absent)."""
    return {'asgi': int(asgi), 'indep': int(indep), 'comps': [list(c) for c in comps], 'meta': int(meta),
            'route': route, 'hooks': [list(h) for h in hooks], 'responder': responder,
            'naming': list(naming) if naming else [0] * len(comps), 'class_level': class_level,
            'variant': variant, 'split': [list(x) for x in (split or [[len(comps), 0]])],
            'hier': None if hier is None else [list(hier[0]), int(hier[1]), int(hier[2])]}


def wire_batches(c):
    out, pos = [], 0
    for n, kind in c.get('split') or [[len(c['comps']), 0]]:
        part = c['comps'][pos:pos + n]
        pos += n
        out.append([0] if kind == 2 else [1, part[0]] if kind == 1 else [2, part])
    return out


def wire_case(c):
    """op 3: the stack built in steps (constructor + add_middleware calls)"""
    b = wire_batches(c)
    return [3, c['asgi'], c['indep'], b[0], b[1:], [c['meta'], c['route'], c['hooks'], c['responder']]]


def wire_flat(c, comps):
    """op 0: prepare of a flat component list + spec + oracle on the model's own trace"""
    return [0, c['asgi'], c['indep'], comps, [c['meta'], c['route'], c['hooks'], c['responder']]]


def effective_comps(c, oks):
    """the components of the batches up to (excluding) the first add_middleware call that
    raised TypeError: the list the app's stacks were last prepared from"""
    split = c.get('split') or [[len(c['comps']), 0]]
    n = split[0][0]
    for (k, kind), ok in zip(split[1:], oks):
        if not ok:
            break
        n += k
    return c['comps'][:n]


def set_script(c):
    s = {}
    for i, comp in enumerate(c['comps']):
        s[(S_REQ, i)], s[(S_RSRC, i)], s[(S_RESP, i)], s[('su', i)], s[('sd', i)] = comp[:5]
    for j, (b, a) in enumerate(c['hooks']):
        s[(S_HOOK, j)] = a
    s[(S_RESPONDER, 0)] = c['responder']
    State.script = s
    State.trace = []
    State.variant = c.get('variant', 0)


def get_app(cache, c):
    return cache.get(bool(c['asgi']), bool(c['indep']), tuple(shape_of(x) for x in c['comps']),
                     tuple(c['naming']), tuple(bool(h[0]) for h in c['hooks']), c['class_level'],
                     c.get('split'), c.get('hier'), tuple(styles_of(x) for x in c['comps']))


_ENV = {}


def run_wsgi(testing, app, c):
    method, path = ROUTES[c['route']]
    path = c.get('path', path)
    method = c.get('method', method)
    if c['meta']:
        method = 'WEBSOCKET'
    k = (method, path)
    if k not in _ENV:
        _ENV[k] = testing.create_environ(path=path, method=method, wsgierrors=io.StringIO())
    env = dict(_ENV[k])
    started = []

    def start_response(status, headers, exc_info=None):
        started.append(status)

    set_script(c)
    try:
        body = app(env, start_response)
        for _ in body:
            pass
        ending = 'finished' if len(started) == 1 else 'finished-without-start_response'
    except Abort:
        ending = 'propagated'
    except HandlerBoom:
        ending = 'propagated'
    except Exception as e:  # anything else leaving the app is foreign to the script
        ending = 'foreign:%s' % type(e).__name__
    return State.trace, ending


async def run_asgi(testing, app, c):
    method, path = ROUTES[c['route']]
    path = c.get('path', path)
    method = c.get('method', method)
    if c['meta']:
        method = 'WEBSOCKET'
    scope = testing.create_scope(path=path, method=method)
    msgs = [{'type': 'http.request', 'body': b'', 'more_body': False}]
    sent = []

    async def receive():
        if msgs:
            return msgs.pop(0)
        return {'type': 'http.disconnect'}

    async def send(ev):
        sent.append(ev['type'])

    set_script(c)
    try:
        await app(scope, receive, send)
        ok = sent[:1] == ['http.response.start'] and sent.count('http.response.start') == 1
        ending = 'finished' if ok else 'finished-without-response-start'
    except Abort:
        ending = 'propagated'
    except HandlerBoom:
        ending = 'propagated'
    except Exception as e:
        ending = 'foreign:%s' % type(e).__name__
    return State.trace, ending


def run_wsgi_noscript(testing, app, c, script):
    """run_wsgi with an explicitly given script (hook ids that are not tower positions)"""
    real = globals()['set_script']
    try:
        globals()['set_script'] = lambda cc: (real(cc), setattr(State, 'script', script))
        return run_wsgi(testing, app, c)
    finally:
        globals()['set_script'] = real


async def run_asgi_noscript(testing, app, c):
    real = globals()['set_script']
    script = State.script
    try:
        globals()['set_script'] = lambda cc: (real(cc), setattr(State, 'script', script))
        return await run_asgi(testing, app, c)
    finally:
        globals()['set_script'] = real


def canon_trace(t):
    out = []
    for e in t:
        if e[0] == 1:
            out.append([1, e[1], e[2], int(e[3]), int(e[4])])
        else:
            out.append(e)
    return out


def model_ending(code):
    return 'propagated' if code == 2 else 'finished'


class Runner:
    def __init__(self, ctx):
        import falcon
        from falcon import testing
        self.ctx = ctx
        self.falcon = falcon
        self.testing = testing
        self.model = common.Model(ctx)
        self.cache = AppCache(falcon)
        self.bad = 0

    def impl_batch(self, cases):
        """Run every case on the real framework; returns [(trace, ending) | 'TypeError']."""
        res = [None] * len(cases)
        asgi_idx = []
        for n, c in enumerate(cases):
            app, oks = get_app(self.cache, c)
            if isinstance(app, str):
                res[n] = app
            elif c['asgi']:
                asgi_idx.append((n, app, oks))
            else:
                t, e = run_wsgi(self.testing, app, c)
                res[n] = (canon_trace(t), e, oks)

        async def go():
            for n, app, oks in asgi_idx:
                t, e = await run_asgi(self.testing, app, cases[n])
                res[n] = (canon_trace(t), e, oks)
        if asgi_idx:
            asyncio.run(go())
        return res

    def check(self, cases, label):
        ctx = self.ctx
        impl = self.impl_batch(cases)
        outs = self.model.run_many([wire_case(c) for c in cases])
        ocases, oidx = [], []
        flat, flat_idx = [], []
        for n, (c, r, m) in enumerate(zip(cases, impl, outs)):
            ctx.count(label)
            if len(c.get('split') or []) > 1:
                ctx.count('built-in-steps')
            mres = {1: 'TypeError', 2: 'AttributeError'}[m[1]] if m[0] == 0 else (m[1], model_ending(m[2]), m[3])
            nontrivial = not isinstance(r, str) and len(r[0]) > 0
            ctx.note_case(case_key(c), nontrivial)
            if isinstance(r, str) or isinstance(mres, str):
                if r != mres:
                    self.report(c, r, mres, [0])
                continue
            if list(r[2]) != list(mres[2]):
                self.report(c, r, mres, [5])
            eff = effective_comps(c, r[2])
            ocases.append([1, c['indep'], eff, [c['meta'], c['route'], c['hooks'], c['responder']],
                           r[0], 2 if r[1] == 'propagated' else 1])
            oidx.append(n)
            flat.append(wire_flat(c, eff))
            flat_idx.append(n)
            if r[1] not in ('finished', 'propagated') or any(e[0] == 9 for e in r[0]):
                self.report(c, r, mres, [0])
        # the model through add_middleware histories must agree with prepare(concatenation),
        # with the spec and with its own oracle (all proved; checked on the extracted code)
        for n, f in zip(flat_idx, self.model.run_many(flat)):
            m = outs[n]
            if f[0] == 0 or f[5] or f[1] != f[3] or f[1] != m[1] or model_ending(f[2]) != model_ending(m[2]) \
                    or model_ending(f[2]) != model_ending(f[4]):
                ctx.violation('model-fails-own-oracle', {'case': cases[n], 'batches': m, 'flat': f},
                              found_input=False, key='model-oracle')
        fails = self.model.run_many(ocases)
        for n, f in zip(oidx, fails):
            c, r = cases[n], impl[n]
            m = outs[n]
            mres = (m[1], model_ending(m[2]), m[3])
            if f[1]:
                self.report(c, r, mres, f[1])
            elif (r[0], r[1]) != mres[:2]:
                # cannot happen while oracle clause 1 is the full trace equality, kept as a guard
                ctx.violation('correspondence-broken', {'case': c, 'impl': r, 'model': mres,
                                                        'broken': 'C03.run_request_corr'},
                              found_input=False, key='corr')
        return impl

    def report(self, c, r, mres, clauses):
        self.bad += 1
        names = {0: 'middleware acceptance / foreign exception / protocol', 1: 'call order differs from the documented discipline',
                 2: 'req_succeeded flag', 3: 'call after unhandled raise / ending', 4: 'response methods once each',
                 5: 'which add_middleware calls raised TypeError'}
        self.ctx.violation('call-order-violated',
                           {'case': c, 'impl_trace': r if isinstance(r, str) else r[0],
                            'impl_ending': r if isinstance(r, str) else r[1],
                            'impl_add_middleware_ok': None if isinstance(r, str) else r[2],
                            'expected': mres if isinstance(mres, str) else {'trace': mres[0], 'ending': mres[1],
                                                                          'add_middleware_ok': mres[2]},
                            'clauses_failed': clauses, 'clause_names': {str(k): names[k] for k in clauses},
                            'legend': 'events: [0,[site,idx],action] call | [1,idx,action,resource_present,req_succeeded] '
                                      'process_response | [2,[site,idx],handler_action]; sites 0 req 1 rsrc 2 resp 3 hook '
                                      '4 responder 5 default-responder 6 meta'},
                           key='order-%s-%d-%d' % (clauses, c['asgi'], c['indep']))

    # ---------------- every class of a resource hierarchy served; one responder function shared
    def shared_hook_block(self):
        """Hook wrappers must not be shared mutable state: every class of a hierarchy (base,
        intermediate, derived, a sibling) is its own route in ONE app, and one hooked responder
        function is re-decorated for two resources; each resource's trace must be `hooked` of its
        OWN tower only (before and after hooks)."""
        ctx = self.ctx
        falcon = self.falcon
        Handled = self.cache.Handled
        for asgi in (0, 1):
            def mk_hook(gid, before):
                if asgi:
                    if before:
                        async def hook(req, resp, resource, params):
                            code = State.script.get((S_HOOK, gid), 0)
                            trace_of(req).append([0, [S_HOOK, gid], code])
                            perform(falcon, Handled, [S_HOOK, gid], code, resp)
                    else:
                        async def hook(req, resp, resource):
                            code = State.script.get((S_HOOK, gid), 0)
                            trace_of(req).append([0, [S_HOOK, gid], code])
                            perform(falcon, Handled, [S_HOOK, gid], code, resp)
                else:
                    if before:
                        def hook(req, resp, resource, params):
                            code = State.script.get((S_HOOK, gid), 0)
                            trace_of(req).append([0, [S_HOOK, gid], code])
                            perform(falcon, Handled, [S_HOOK, gid], code, resp)
                    else:
                        def hook(req, resp, resource):
                            code = State.script.get((S_HOOK, gid), 0)
                            trace_of(req).append([0, [S_HOOK, gid], code])
                            perform(falcon, Handled, [S_HOOK, gid], code, resp)
                return hook

            def deco(gid, before):
                return (falcon.before if before else falcon.after)(mk_hook(gid, before))

            def responder():
                if asgi:
                    async def on_get(self, req, resp):
                        code = State.script[(S_RESPONDER, 0)]
                        trace_of(req).append([0, [S_RESPONDER, 0], code])
                        perform(falcon, Handled, [S_RESPONDER, 0], code, resp)
                else:
                    def on_get(self, req, resp):
                        code = State.script[(S_RESPONDER, 0)]
                        trace_of(req).append([0, [S_RESPONDER, 0], code])
                        perform(falcon, Handled, [S_RESPONDER, 0], code, resp)
                return on_get
            # (i) a hierarchy: towers are lists of (global hook id, is_before), outermost first
            f = deco(1, 0)(deco(0, 1)(responder()))                 # method level: after 1, before 0
            B0 = deco(2, 0)(type('B0', (), {'on_get': f}))
            B1 = deco(3, 1)(deco(4, 0)(type('B1', (B0,), {})))
            B2 = deco(5, 0)(type('B2', (B1,), {}))
            S = deco(6, 1)(type('S', (B0,), {}))
            t_b0 = [(2, 0), (1, 0), (0, 1)]
            towers = {'/b0': t_b0, '/b1': [(3, 1), (4, 0)] + t_b0, '/b2': [(5, 0), (3, 1), (4, 0)] + t_b0,
                      '/s': [(6, 1)] + t_b0}
            resources = {'/b0': B0(), '/b1': B1(), '/b2': B2(), '/s': S()}
            # (ii) one hooked responder function re-decorated for two resources (after / before)
            g = deco(10, 0)(responder())
            resources['/r1'] = type('R1', (), {'on_get': deco(11, 0)(g)})()
            resources['/r2'] = type('R2', (), {'on_get': deco(12, 0)(g)})()
            towers['/r1'] = [(11, 0), (10, 0)]
            towers['/r2'] = [(12, 0), (10, 0)]
            g2 = deco(20, 1)(responder())
            resources['/r3'] = type('R3', (), {'on_get': deco(21, 1)(g2)})()
            resources['/r4'] = type('R4', (), {'on_get': deco(22, 1)(deco(23, 0)(g2))})()
            towers['/r3'] = [(21, 1), (20, 1)]
            towers['/r4'] = [(22, 1), (23, 0), (20, 1)]
            for indep in (0, 1):
                local = AppCache(falcon)
                local.Handled = Handled
                base = mk_case(asgi, indep, [[0, 0, 0, -1, -1]])
                app, _ = get_app(local, base)
                for path, res in resources.items():
                    app.add_route(path, res)
                for order in (sorted(towers), sorted(towers, reverse=True)):
                    for path in order:
                        tower = towers[path]
                        for variant in range(len(tower) + 1):
                            # variant k > 0: layer k-1 raises a handled error
                            hooks = [[b, 3 if variant == j + 1 else 0] for j, (gid, b) in enumerate(tower)]
                            c = mk_case(asgi, indep, base['comps'], hooks=hooks)
                            c['path'] = path
                            set_script(c)
                            script = dict(State.script)
                            for j, (gid, b) in enumerate(tower):
                                script[(S_HOOK, gid)] = hooks[j][1]
                            if asgi:
                                async def go():
                                    set_script(c)
                                    State.script = script
                                    return await run_asgi_noscript(self.testing, app, c)
                                t, e = asyncio.run(go())
                            else:
                                t, e = run_wsgi_noscript(self.testing, app, c, script)
                            pos = {gid: j for j, (gid, b) in enumerate(tower)}
                            got = []
                            for ev in canon_trace(t):
                                if ev[0] in (0, 2) and ev[1][0] == S_HOOK:
                                    ev = [ev[0], [S_HOOK, pos.get(ev[1][1], 900 + ev[1][1])], ev[2]]
                                got.append(ev)
                            m = self.model.run(wire_case(c))
                            ctx.count('shared-hook-block')
                            ctx.note_case(('shared', asgi, indep, path, variant), True)
                            if (got, e) != (m[1], model_ending(m[2])):
                                ctx.violation('call-order-violated',
                                              {'case': c, 'what': 'every class of a resource hierarchy / a shared hooked '
                                               'responder served in one app: %s runs hooks that are not its own tower '
                                               '(hook index 900+n = foreign hook n)' % path,
                                               'tower': tower, 'impl_trace': got, 'impl_ending': e,
                                               'expected': {'trace': m[1], 'ending': model_ending(m[2])}},
                                              key='shared-hooks-%d' % asgi)

    # ---------------- class-level hooks and responders for FALCON_CUSTOM_HTTP_METHODS
    def custom_method_block(self):
        """Custom HTTP methods exist only if FALCON_CUSTOM_HTTP_METHODS is set before falcon is
        imported: the block runs in a child process (this file as a script) against the same
        staged sources; the parent compares the recorded traces with the model's `hooked`."""
        import os
        import subprocess
        import sys
        ctx = self.ctx
        env = dict(os.environ, FALCON_CUSTOM_HTTP_METHODS='PURGE,FOO', PYTHONPATH=ctx.stage,
                   PYTHONDONTWRITEBYTECODE='1')
        r = subprocess.run([sys.executable, os.path.abspath(__file__), '--custom-method-child'], env=env,
                           stdout=subprocess.PIPE, stderr=subprocess.PIPE, text=True, timeout=1800)
        if r.returncode != 0:
            ctx.violation('harness-crash', {'broken': 'C03 custom-method child', 'stderr': r.stderr[-2000:]},
                          found_input=False, key='custom-child')
            return
        for rec in json.loads(r.stdout.strip().split('\n')[-1]):
            c = rec['case']
            m = self.model.run(wire_case(c))
            ctx.count('custom-method-block')
            ctx.note_case(('custom', rec['asgi'], c['method'], repr(c['hooks'])), True)
            if (rec['trace'], rec['ending']) != (m[1], model_ending(m[2])):
                ctx.violation('call-order-violated',
                              {'case': c, 'what': 'class-level hooks on a resource whose serving responder is for the '
                               'custom method %s (FALCON_CUSTOM_HTTP_METHODS=PURGE,FOO)' % c['method'],
                               'impl_trace': rec['trace'], 'impl_ending': rec['ending'],
                               'expected': {'trace': m[1], 'ending': model_ending(m[2])}},
                              key='custom-method-%d' % rec['asgi'])

    # ---------------- raise T; add_error_handler(ancestor of T); raise T again
    def memo_block(self):
        """The same concrete exception type raised twice on one app with a registration for an
        ancestor in between: first the default Exception handler answers (the trace of a silently
        handled raise), then the new handler must run (the trace of RaiseApp HReturn)."""
        ctx = self.ctx
        for asgi in (0, 1):
            for indep in (0, 1):
                for site in ('responder', 'req', 'resp'):
                    comps = [[0, 0, 0, -1, -1], [7 if site == 'req' else 0, -1, 7 if site == 'resp' else 0, -1, -1]]
                    c = mk_case(asgi, indep, comps, responder=7 if site == 'responder' else 0)
                    local = AppCache(self.falcon)
                    app, _ = get_app(local, c)

                    class Base(Exception):
                        pass

                    class T(Base):
                        pass
                    State.custom = T
                    obs = []
                    for phase in (0, 1):
                        if phase == 1:
                            if asgi:
                                async def h(req, resp, ex, params):
                                    t = trace_of(req)
                                    t.append([2, list(t[-1][1]) if t[-1][0] == 0 else [S_RESP, t[-1][1]], 0])
                                    resp.status = 599
                            else:
                                def h(req, resp, ex, params):
                                    t = trace_of(req)
                                    t.append([2, list(t[-1][1]) if t[-1][0] == 0 else [S_RESP, t[-1][1]], 0])
                                    resp.status = 599
                            app.add_error_handler(Base, h)
                        if asgi:
                            t, e = asyncio.run(run_asgi(self.testing, app, c))
                        else:
                            t, e = run_wsgi(self.testing, app, c)
                        obs.append((canon_trace(t), e))
                    exp = []
                    for code in (2, 3):   # silently handled by the default handler / handled by h
                        cc = json.loads(json.dumps(c).replace('7', str(code)))
                        cc['comps'] = [[code if x == 7 else x for x in comp] for comp in c['comps']]
                        cc['responder'] = code if c['responder'] == 7 else c['responder']
                        m = self.model.run(wire_case(cc))
                        exp.append((m[1], model_ending(m[2])))
                    for phase, code in ((0, 2), (1, 3)):
                        got = ([[code if (isinstance(x, int) and x == 7 and k == len(ev) - (1 if ev[0] == 0 else 3)) else x
                                 for k, x in enumerate(ev)] for ev in obs[phase][0]], obs[phase][1])
                        ctx.count('memo-block')
                        ctx.note_case(('memo', asgi, indep, site, phase), True)
                        if got != exp[phase]:
                            ctx.violation('call-order-violated',
                                          {'case': c, 'what': 'raise T; add_error_handler(ancestor of T); raise T again '
                                           '(phase %d)' % phase, 'impl_trace': got[0], 'impl_ending': got[1],
                                           'expected': {'trace': exp[phase][0], 'ending': exp[phase][1]}},
                                          key='memo-%d' % asgi)

    # ---------------- two concurrent ASGI requests on one app
    def concurrency_block(self, max_schedules):
        """Two requests on one ASGI app, interleaved at every await of the recording middleware
        (the coroutines are stepped by hand): each request's trace must equal its sequential
        trace, in dependent and independent mode."""
        ctx = self.ctx
        testing = self.testing
        scripts = [[[0, -1, 0, -1, -1], [0, -1, 0, -1, -1], [0, -1, 0, -1, -1]],
                   [[0, 0, 0, -1, -1], [3, -1, 0, -1, -1]],
                   [[0, -1, 0, -1, -1], [1, 0, 3, -1, -1], [0, -1, 0, -1, -1]],
                   [[-1, 0, 0, -1, -1], [0, 4, 0, -1, -1]]]

        def start(app, rid):
            scope = testing.create_scope(path='/r', method='GET', headers={'X-Req-Id': rid})
            msgs = [{'type': 'http.request', 'body': b'', 'more_body': False}]

            async def receive():
                return msgs.pop(0) if msgs else {'type': 'http.disconnect'}

            async def send(ev):
                pass
            return app(scope, receive, send)

        def step(coro):
            try:
                coro.send(None)
                return True
            except StopIteration:
                return False
            except (Abort, HandlerBoom):
                return False

        def interleavings(na, nb):
            if na == 0 or nb == 0:
                yield 'a' * na + 'b' * nb
                return
            for rest in interleavings(na - 1, nb):
                yield 'a' + rest
            for rest in interleavings(na, nb - 1):
                yield 'b' + rest
        for indep in (0, 1):
            for comps in scripts:
                c = mk_case(1, indep, comps)
                app, _ = get_app(self.cache, c)
                m = self.model.run(wire_case(c))
                expected = m[1]
                set_script(c)
                State.pausing = True
                try:
                    # dry run: number of steps of one request
                    State.traces = {'a': [], 'b': []}
                    co = start(app, 'a')
                    n = 1
                    while step(co):
                        n += 1
                    if canon_trace(State.traces['a']) != expected:
                        ctx.violation('call-order-violated', {'case': c, 'what': 'stepped single request',
                                                              'impl_trace': canon_trace(State.traces['a']),
                                                              'expected': {'trace': expected}}, key='conc-dry')
                        continue
                    count = 0
                    for sched in interleavings(n, n):
                        count += 1
                        if count > max_schedules:
                            break
                        State.traces = {'a': [], 'b': []}
                        cos = {'a': start(app, 'a'), 'b': start(app, 'b')}
                        alive = {'a': True, 'b': True}
                        for who in sched:
                            if alive[who]:
                                alive[who] = step(cos[who])
                        for who in 'ab':
                            while alive[who]:
                                alive[who] = step(cos[who])
                        ctx.count('concurrent-schedules')
                        bad = [w for w in 'ab' if canon_trace(State.traces[w]) != expected]
                        if bad:
                            ctx.violation('call-order-violated',
                                          {'case': c, 'what': 'two concurrent ASGI requests on one app: the trace of '
                                           'request %s differs from its sequential trace' % bad[0], 'schedule': sched,
                                           'impl_trace': canon_trace(State.traces[bad[0]]),
                                           'other_request_trace': canon_trace(State.traces['b' if bad[0] == 'a' else 'a']),
                                           'expected': {'trace': expected}},
                                          key='concurrent-%d' % indep)
                            break
                    ctx.note_case(('conc', indep, repr(comps)), True)
                finally:
                    State.pausing = False
                    State.traces = None

    # ---------------- lifespan
    def lifespan(self, cases):
        ctx = self.ctx
        res = []

        class Exhausted(BaseException):
            pass

        async def one(c):
            app, oks = get_app(self.cache, c)
            if isinstance(app, str):
                return 'TypeError'
            msgs = list(c['msgs'])
            sent = []
            scope = {'type': 'lifespan', 'asgi': {'version': '3.0', 'spec_version': '2.0'}}

            async def receive():
                if not msgs:
                    raise Exhausted()
                k = msgs.pop(0)
                return {'type': ['lifespan.startup', 'lifespan.shutdown', 'lifespan.other'][k]}

            async def send(ev):
                code = {'lifespan.startup.complete': 1, 'lifespan.startup.failed': 2,
                        'lifespan.shutdown.complete': 3, 'lifespan.shutdown.failed': 4}[ev['type']]
                State.trace.append([code])
            set_script(c)
            try:
                await app(scope, receive, send)
                end = 0
            except Exhausted:
                end = 1
            except Abort:
                end = 2
            except Exception as e:   # anything else leaving the lifespan coroutine is foreign
                end = 'foreign:%s' % type(e).__name__
            return [State.trace, end]

        async def go():
            for c in cases:
                res.append(await one(c))
        asyncio.run(go())
        outs = self.model.run_many([[2, c['comps'], c['msgs']] for c in cases])
        outs4 = self.model.run_many([[4, wire_batches(c)[0], wire_batches(c)[1:], c['msgs']] for c in cases])
        for c, r, m, m4 in zip(cases, res, outs, outs4):
            ctx.count('lifespan')
            ctx.note_case('L' + case_key(c), r != 'TypeError' and len(r[0]) > 0)
            if r == 'TypeError':
                if m4[0] != 0:
                    ctx.violation('lifespan-order-violated', {'case': c, 'impl': r, 'expected': m4}, key='lifespan-te')
                continue
            model = [m[1], m[2]]
            spec = [m[3], m[4]]
            # lifespan handlers come from the whole accumulated list, also after a TypeError
            if model != spec or m4[0] != 1 or [m4[1], m4[2]] != spec:
                ctx.violation('model-fails-own-oracle', {'case': c, 'model': model, 'spec': spec, 'batches': m4},
                              found_input=False, key='lmodel')
            if r != spec:
                ctx.violation('lifespan-order-violated',
                              {'case': c, 'impl': r, 'expected': spec,
                               'legend': '[0,is_startup,idx,action] handler call; [1] startup.complete [2] startup.failed '
                                         '[3] shutdown.complete [4] shutdown.failed; ending 0 returned 1 waiting 2 propagated'},
                              key='lifespan-%d' % c['indep'])


# ------------------------------------------------------------------ generators

def exhaustive_small(actions, maxn, modes):
    opts = [-1] + list(actions)
    comps1 = [c + (-1, -1) for c in itertools.product(opts, repeat=3)]
    for n in range(maxn + 1):
        for comps in itertools.product(comps1, repeat=n):
            for asgi, indep in modes:
                yield mk_case(asgi, indep, comps)


def random_case(rng, maxn=5, lifespan=False):
    n = rng.randint(0, maxn)
    comps = []
    for _ in range(n):
        while True:
            # bias towards Return so that later phases are reached
            pick = lambda p: -1 if rng.random() < p else (0 if rng.random() < 0.55 else rng.choice(ACTIONS))
            c = [pick(0.35), pick(0.4), pick(0.3)]
            su = -1 if rng.random() < 0.6 else rng.choice([0, 0, 0, 1, 2])
            sd = -1 if rng.random() < 0.6 else rng.choice([0, 0, 0, 1, 2])
            c += [su, sd]
            if any(x >= 0 for x in c[:3]) or rng.random() < 0.15:
                break
        if rng.random() < 0.3:
            c.append(random_styles(rng, bound_only=rng.random() < 0.8))
        comps.append(c)
    hooks = [[rng.random() < 0.5, 0 if rng.random() < 0.6 else rng.choice(ACTIONS)] for _ in range(rng.choice([0, 0, 1, 2, 3, 4]))]
    hooks = [[int(b), a] for b, a in hooks]
    c = mk_case(rng.random() < 0.5, rng.random() < 0.5, comps,
                meta=rng.random() < 0.05, route=rng.choice([0, 0, 0, 1, 2, 3]), hooks=hooks,
                responder=0 if rng.random() < 0.5 else rng.choice(ACTIONS),
                naming=[rng.randint(0, 1) for _ in comps], class_level=rng.randint(0, len(hooks)),
                variant=rng.randint(0, 5),
                split=random_split(rng, len(comps)) if (rng.random() < 0.6 and all(
                    all(y in BOUND_STYLES for y in styles_of(x)[:3]) for x in comps)) else None,
                hier=random_hier(rng, len(hooks)) if rng.random() < 0.6 else None)
    return c


def random_styles(rng, bound_only):
    pool = list(BOUND_STYLES) if bound_only else [0, 0, 0, 1, 2, 3, 4, 5]
    # lifespan handlers may be defined in any style
    return [rng.choice(pool), rng.choice(pool), rng.choice(pool), rng.randint(0, 5), rng.randint(0, 5)]


def style_sweep(modes):
    """every definition style of every method of a full component (request-cycle methods and
    lifespan handlers), alone and behind a plain component"""
    for y in range(6):
        for pos in range(3):
            st = [0, 0, 0, 0, 0]
            st[pos] = y
            for asgi, indep in modes:
                yield mk_case(asgi, indep, [[0, 0, 0, -1, -1, list(st)]])
                yield mk_case(asgi, indep, [[0, 0, 0, -1, -1], [0, 0, 3, -1, -1, list(st)]])
                # a method-less component BEFORE it: the TypeError comes first
                yield mk_case(asgi, indep, [[-1, -1, -1, -1, -1], [0, 0, 0, -1, -1, list(st)]])
    for y1 in range(6):
        for y2 in range(6):
            for asgi, indep in modes:
                yield mk_case(asgi, indep, [[0, -1, 0, -1, -1, [y1, 0, y2, 0, 0]], [-1, 0, -1, -1, -1, [0, y2, 0, 0, 0]]])


def lifespan_style_cases():
    """lifespan handlers in every definition style, also on lifespan-only components"""
    out = []
    for y1 in range(6):
        for y2 in range(6):
            for acts in ((0, 0), (0, 1), (1, 0)):
                comps = [[0, -1, -1, 0, 0], [-1, -1, -1, acts[0], acts[1], [0, 0, 0, y1, y2]],
                         [0, -1, 0, 0, 0, [0, 0, 0, y2, y1]]]
                c = mk_case(1, 1, comps)
                c['msgs'] = [0, 1]
                out.append(c)
    return out


def random_hier(rng, nhooks):
    """1-3 class levels; how many of the outermost hook layers sit at class level on each"""
    depth = rng.randint(1, 3)
    n_class = rng.randint(0, nhooks)
    cuts = sorted(rng.randint(0, n_class) for _ in range(depth - 1))
    counts = [b - a for a, b in zip([0] + cuts, cuts + [n_class])]
    return [counts, rng.random() < 0.4, rng.random() < 0.3]


def hier_sweep(modes):
    """every distribution of a 4-layer hook tower (before, after, before, after) over class-level
    hooks of a 1-3 level resource hierarchy / method-level hooks, with and without a mixin that
    defines the responder, plain and suffixed responders; a raise in every layer"""
    hooks = [[1, 0], [0, 0], [1, 0], [0, 0]]
    comps = [[0, 0, 0, -1, -1]]
    for depth in (1, 2, 3):
        for counts in itertools.product(range(5), repeat=depth):
            if sum(counts) > 4:
                continue
            for mixin in (0, 1):
                for suffix in (0, 1):
                    for asgi, indep in modes:
                        yield mk_case(asgi, indep, comps, hooks=hooks, hier=[list(counts), mixin, suffix])
                    for j in range(4):
                        hk = [list(h) for h in hooks]
                        hk[j][1] = 3
                        yield mk_case(j % 2, 1, comps, hooks=hk, hier=[list(counts), mixin, suffix])


def random_split(rng, n):
    """constructor argument + 1-3 add_middleware calls: list / tuple / bare component / None"""
    k = rng.randint(2, 4)
    cuts = sorted(rng.randint(0, n) for _ in range(k - 1))
    sizes = [b - a for a, b in zip([0] + cuts, cuts + [n])]
    out = []
    for sz in sizes:
        if sz == 0:
            out.append([0, rng.choice([2, 0, 3])])
        elif sz == 1:
            out.append([1, rng.choice([1, 1, 0, 3])])
        else:
            out.append([sz, rng.choice([0, 3])])
    return out


def split_sweep(modes):
    """every split of a 4-component stack (all methods, distinct behaviour per phase) into a
    constructor batch and 1-3 add_middleware calls, bare components where a batch has one"""
    comps = [[0, 0, 0, 0, 0], [0, -1, 0, -1, 0], [-1, 0, 0, 0, -1], [0, 0, 0, 0, 0]]
    variants = [comps,
                [[0, 0, 0, 0, 0], [3, -1, 0, -1, 0], [-1, 0, 0, 0, -1], [0, 0, 0, 0, 0]],
                [[0, 0, 0, 0, 0], [0, -1, 3, -1, 0], [-1, 1, 0, 0, -1], [0, 0, 4, 0, 0]],
                [[0, 0, 0, 0, 0], [1, -1, 0, -1, 0], [-1, 0, 0, 0, -1], [0, 0, 0, 0, 0]]]
    n = 4
    for k in (2, 3, 4):
        for cuts in itertools.combinations_with_replacement(range(n + 1), k - 1):
            sizes = [b - a for a, b in zip((0,) + cuts, cuts + (n,))]
            for bare in (0, 1):
                split = [[sz, (2 if sz == 0 else 1 if (sz == 1 and bare) else 3 if bare else 0)] for sz in sizes]
                for cs in variants:
                    for asgi, indep in modes:
                        yield mk_case(asgi, indep, cs, split=split)
    # a method-less component added later: add_middleware raises TypeError, the app keeps
    # its previous stacks (but the component stays in the accumulated list)
    bad = [-1, -1, -1, -1, -1]
    for asgi, indep in modes:
        yield mk_case(asgi, indep, [comps[0], bad, comps[1]], split=[[1, 0], [1, 1], [1, 0]])
        yield mk_case(asgi, indep, [comps[0], comps[1], bad], split=[[1, 1], [2, 0]])
        yield mk_case(asgi, indep, [bad, comps[1]], split=[[1, 0], [1, 0]])


def fault_sweep(modes):
    """A fixed full stack (3 components with all methods, 2+2 hooks); every action at every
    single call site, every pair of sites for the raising actions."""
    base = [[0, 0, 0, -1, -1] for _ in range(3)]
    hooks = [[1, 0], [0, 0], [1, 0], [0, 0]]
    sites = [('c', i, k) for i in range(3) for k in range(3)] + [('h', j, 0) for j in range(4)] + [('r', 0, 0)]

    def with_actions(assign, asgi, indep, route):
        comps = [list(c) for c in base]
        hk = [list(h) for h in hooks]
        resp = 0
        for (kind, i, k), a in assign:
            if kind == 'c':
                comps[i][k] = a
            elif kind == 'h':
                hk[i][1] = a
            else:
                resp = a
        return mk_case(asgi, indep, comps, route=route, hooks=hk, responder=resp, class_level=2)

    for asgi, indep in modes:
        for s in sites:
            for a in ACTIONS[1:]:
                yield with_actions([(s, a)], asgi, indep, 0)
        for s1, s2 in itertools.combinations(sites, 2):
            for a1 in (1, 3, 5, 6):
                for a2 in (3, 4, 6):
                    yield with_actions([(s1, a1), (s2, a2)], asgi, indep, 0)


def lifespan_cases(rng, n):
    out = []
    # exhaustive: <=3 components, each startup/shutdown in {absent, ok, fail}
    opts = [-1, 0, 1]
    for k in range(0, 3):
        for combo in itertools.product(itertools.product(opts, opts), repeat=k):
            comps = [[0 if (i % 2 == 0) else -1, -1, -1, su, sd] for i, (su, sd) in enumerate(combo)]
            c = mk_case(1, rng.randint(0, 1), comps)
            c['msgs'] = [0, 1]
            out.append(c)
    while len(out) < n:
        c = random_case(rng, maxn=5)
        c['asgi'] = 1
        for comp in c['comps']:
            if len(comp) > 5:   # construction must succeed: request-cycle methods in bound styles
                comp[5] = [y if y in BOUND_STYLES else 0 for y in comp[5][:3]] + comp[5][3:]
        c['msgs'] = rng.choice([[0, 1], [0, 1], [0], [1], [0, 0, 1], [2, 0, 2, 1], [0, 1, 0], []])
        out.append(c)
    return out


MODES = [(a, i) for a in (0, 1) for i in (0, 1)]


def main(ctx):
    logging.getLogger('falcon').setLevel(logging.CRITICAL + 1)
    r = Runner(ctx)
    ctx.cov['rule'] = ('one case = (interface, independent_middleware, component list with per-method scripted action, '
                       'route kind, hook tower, responder action); run on the real falcon.App / falcon.asgi.App with '
                       'recording callables and on the extracted model; non-trivial = at least one application callable '
                       'was invoked. Distinct cases counted by their JSON text.')
    for o in common.corpus('C03'):
        replay(ctx, o, r)
    quick = ctx.tier == 'quick'
    # 1. exhaustive small stacks
    acts = [0, 1, 3] if quick else [0, 1, 3, 5, 6]
    cases = list(exhaustive_small(acts, 2, MODES if quick else [(0, 0), (0, 1), (1, 1), (1, 0)]))
    for i in range(0, len(cases), 20000):
        r.check(cases[i:i + 20000], 'exhaustive<=2')
    ctx.cov['exhaustive_small'] = '%d cases: all stacks of <=2 components, each method in {absent}+%s, 4 modes' % (len(cases), acts)
    # 2. fault sweep on a full stack
    cases = list(fault_sweep(MODES))
    r.check(cases, 'fault-sweep')
    # 2b. stacks built in several steps: App(middleware=...) then add_middleware(...) calls
    cases = list(split_sweep(MODES))
    r.check(cases, 'split-sweep')
    # 2c. class-level hooks on resource class hierarchies (inherited responders, mixins, suffixes)
    cases = list(hier_sweep(MODES))
    r.check(cases, 'hier-sweep')
    # 2d. how the middleware methods are defined (method / static / class / instance attribute /
    #     callable object / inherited)
    r.check(list(style_sweep(MODES)), 'style-sweep')
    # 2e. raise T; register a handler for an ancestor; raise T again   /   2f. concurrency
    r.memo_block()
    r.shared_hook_block()
    r.custom_method_block()
    r.concurrency_block(4000 if quick else 100000)
    # 3. random deep stacks
    n = 3000 if quick else 40000
    cases = [random_case(ctx.rng) for _ in range(n)]
    impl = r.check(cases, 'random<=5')
    for c, i in list(zip(cases, impl))[:3]:
        ctx.sample({'case': c, 'impl': i})
    if not quick:
        cases = [random_case(ctx.rng, maxn=8) for _ in range(10000)]
        r.check(cases, 'random<=8')
    # 4. lifespan
    r.lifespan(lifespan_cases(ctx.rng, 600 if quick else 6000) + lifespan_style_cases())
    ctx.assumptions.append('the recording error handlers registered for HTTPRouteNotFound/HTTPMethodNotAllowed/'
                           'HTTPBadRequest stand for the default HTTPError handler on the framework\'s own raises')


def replay(ctx, obj, runner=None):
    r = runner or Runner(ctx)
    c = obj.get('case')
    if not c:
        return main(ctx)
    if 'schedule' in obj or 'concurrent' in obj.get('what', ''):
        r.concurrency_block(100000)
    elif 'raise T' in obj.get('what', ''):
        r.memo_block()
    elif 'shared hooked' in obj.get('what', ''):
        r.shared_hook_block()
    elif 'custom method' in obj.get('what', ''):
        r.custom_method_block()
    elif 'msgs' in c:
        r.lifespan([c])
    else:
        r.check([c], 'replay')
    ctx.note_case('replay', True)


def custom_method_child():
    """child process: FALCON_CUSTOM_HTTP_METHODS is set, falcon is imported fresh from the
    staged sources; resources with class-level (and method-level) hooks serve GET, PURGE, FOO"""
    import falcon
    import falcon.asgi
    from falcon import testing
    assert 'PURGE' in falcon.constants.COMBINED_METHODS, falcon.constants.COMBINED_METHODS
    logging.getLogger('falcon').setLevel(logging.CRITICAL + 1)
    out = []
    for asgi in (0, 1):
        local = AppCache(falcon)
        Handled = local.Handled

        def mk_hook(j, before):
            if asgi:
                if before:
                    async def hook(req, resp, resource, params):
                        code = State.script[(S_HOOK, j)]
                        State.trace.append([0, [S_HOOK, j], code])
                        perform(falcon, Handled, [S_HOOK, j], code, resp)
                else:
                    async def hook(req, resp, resource):
                        code = State.script[(S_HOOK, j)]
                        State.trace.append([0, [S_HOOK, j], code])
                        perform(falcon, Handled, [S_HOOK, j], code, resp)
            else:
                if before:
                    def hook(req, resp, resource, params):
                        code = State.script[(S_HOOK, j)]
                        State.trace.append([0, [S_HOOK, j], code])
                        perform(falcon, Handled, [S_HOOK, j], code, resp)
                else:
                    def hook(req, resp, resource):
                        code = State.script[(S_HOOK, j)]
                        State.trace.append([0, [S_HOOK, j], code])
                        perform(falcon, Handled, [S_HOOK, j], code, resp)
            return hook

        def responder():
            if asgi:
                async def on_x(self, req, resp):
                    code = State.script[(S_RESPONDER, 0)]
                    State.trace.append([0, [S_RESPONDER, 0], code])
                    perform(falcon, Handled, [S_RESPONDER, 0], code, resp)
            else:
                def on_x(self, req, resp):
                    code = State.script[(S_RESPONDER, 0)]
                    State.trace.append([0, [S_RESPONDER, 0], code])
                    perform(falcon, Handled, [S_RESPONDER, 0], code, resp)
            return on_x
        # tower (outermost first): class-level before 0, class-level after 1, method-level after 2
        ns = {}
        for name in ('on_get', 'on_purge', 'on_foo'):
            ns[name] = falcon.after(mk_hook(2, 0))(responder())
        base = type('Base', (), {'on_foo': ns.pop('on_foo')})          # on_foo is inherited
        cls = falcon.before(mk_hook(0, 1))(falcon.after(mk_hook(1, 0))(type('Res', (base,), ns)))
        for indep in (0, 1):
            basecase = mk_case(asgi, indep, [[0, 0, 0, -1, -1]])
            app, _ = get_app(local, basecase)
            app.add_route('/c', cls())
            for method in ('GET', 'PURGE', 'FOO'):
                for variant in range(4):
                    hooks = [[1, 3 if variant == 1 else 0], [0, 3 if variant == 2 else 0], [0, 3 if variant == 3 else 0]]
                    c = mk_case(asgi, indep, basecase['comps'], hooks=hooks)
                    c['path'] = '/c'
                    c['method'] = method
                    if asgi:
                        t, e = asyncio.run(run_asgi(testing, app, c))
                    else:
                        t, e = run_wsgi(testing, app, c)
                    out.append({'asgi': asgi, 'case': c, 'trace': canon_trace(t), 'ending': e})
    print(json.dumps(out))


if __name__ == '__main__':
    import sys
    if '--custom-method-child' in sys.argv:
        custom_method_child()
