"""C14 tables regenerated from the staged falcon modules on every run."""


def emit(A, nlist, strlit, strlist):
    import falcon.util.reader as sr
    import falcon.asgi.reader as ar
    A('(* falcon/util/reader.py, falcon/asgi/reader.py *)')
    A('Definition sync_MAX_JOIN_CHUNKS : nat := %d.' % sr._MAX_JOIN_CHUNKS)
    A('Definition async_MAX_JOIN_CHUNKS : nat := %d.' % ar._MAX_JOIN_CHUNKS)
