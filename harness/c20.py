"""C20 — CORS policy: correspondence of falcon.middleware.CORSMiddleware with the Coq model
(coq/C20/Model.v) and evaluation of the proved oracle (coq/C20/Spec.v) on the
implementation's observed headers."""
import asyncio
import itertools
import json

import common

ORIGINS = [None, 'http://a', 'http://b', 'http://A', '*', '']
ALLOW_ORIGINS = ['*', 'http://a', ['http://a', 'http://b'], [], ['*', 'http://a'], ('http://b',), 'http://A']
ALLOW_CREDS = [None, '*', 'http://a', ['http://b'], ['*'], [], ['http://a', 'http://A']]
EXPOSE = [None, '', 'X-A', ['X-A', 'X-B'], []]
METHODS = ['GET', 'OPTIONS', 'POST']
ACRM = [None, '', 'PUT']
ACRH = [None, 'X-C, X-D']
PRE = [
    {},
    {'Allow': 'GET, PUT'},
    {'Access-Control-Allow-Origin': 'http://z'},
    {'Allow': 'GET', 'Access-Control-Allow-Credentials': 'true', 'X-Other': '1'},
    {'Access-Control-Expose-Headers': 'X-Q', 'Access-Control-Max-Age': '5', 'Vary': 'Accept'},
    {'Allow': 'POST', 'Access-Control-Allow-Origin': '*', 'Access-Control-Allow-Methods': 'POST',
     'Access-Control-Allow-Headers': 'X-P'},
]


def raw(v):
    if v is None:
        return []
    if isinstance(v, str):
        return [[0, v]]
    return [[1, list(v)]]


def wire_cfg(ao, ex, ac):
    return [raw(ao)[0], raw(ex), raw(ac)]


def wire_req(origin, method, acrm, acrh):
    o = lambda x: [] if x is None else [x]
    return [o(origin), method, o(acrm), o(acrh)]


def wire_headers(h):
    return [[k.lower(), v] for k, v in h.items()]


def hdict(v):
    return {common.wstr(k): common.wstr(val) for k, val in v}


def impl_direct(falcon, testing, cfg, reqt, pre, succeeded):
    ao, ex, ac = cfg
    try:
        mw = falcon.CORSMiddleware(allow_origins=ao, expose_headers=ex, allow_credentials=ac)
    except ValueError:
        return 'ValueError'
    origin, method, acrm, acrh = reqt
    hdrs = {}
    if origin is not None:
        hdrs['Origin'] = origin
    if acrm is not None:
        hdrs['Access-Control-Request-Method'] = acrm
    if acrh is not None:
        hdrs['Access-Control-Request-Headers'] = acrh
    req = testing.create_req(method=method, headers=hdrs)
    resp = falcon.Response()
    for k, v in pre.items():
        resp.set_header(k, v)
    mw.process_response(req, resp, None, succeeded)
    return dict(resp.headers)


def main(ctx):
    import falcon
    import falcon.asgi
    from falcon import testing
    model = common.Model(ctx)
    for o in common.corpus('C20'):
        replay(ctx, o)
    space = list(itertools.product(ALLOW_ORIGINS, EXPOSE, ALLOW_CREDS, ORIGINS, METHODS, ACRM, ACRH,
                                   range(len(PRE)), [True, False]))
    ctx.cov['rule'] = ('cells of the product allow_origins x expose x allow_credentials x Origin x method x '
                       'ACRM x ACRH x pre-set headers x req_succeeded (%d cells; thorough: all, quick: seeded '
                       'sample) run through the real CORSMiddleware.process_response and the extracted model; '
                       'plus end-to-end WSGI/ASGI apps. non-trivial = the middleware changed the headers'
                       % len(space))
    if ctx.tier == 'quick':
        cells = ctx.rng.sample(space, 25000)
    else:
        cells = space
        ctx.cov['exhaustive'] = True
    cases, impl = [], []
    for (ao, ex, ac, origin, method, acrm, acrh, pi, succ) in cells:
        pre = PRE[pi]
        r = impl_direct(falcon, testing, (ao, ex, ac), (origin, method, acrm, acrh), pre, succ)
        impl.append(r)
        cases.append([1, wire_cfg(ao, ex, ac), wire_req(origin, method, acrm, acrh), wire_headers(pre), succ])
    outs = model.run_many(cases)
    oracle_cases, oracle_idx = [], []
    for i, (cell, r, m) in enumerate(zip(cells, impl, outs)):
        pre = {k.lower(): v for k, v in PRE[cell[7]].items()}
        if m[0] == 0:
            mres = 'ValueError'
        else:
            mres = hdict(m[1])
            if m[2]:
                ctx.violation('model-fails-own-oracle', {'cell': list(cell), 'clauses': m[2]}, key='model-oracle')
        ctx.note_case(i, r != 'ValueError' and r != pre)
        ctx.count('ValueError' if r == 'ValueError' else ('changed' if r != pre else 'untouched'))
        if r != mres:
            ctx.count('disagree')
            detail = {'cell': json.loads(json.dumps(list(cell))), 'pre': pre, 'impl': r, 'model': mres,
                      'what': 'CORSMiddleware.process_response differs from the model'}
            disagreements.append((i, detail))
        if r != 'ValueError' and m[0] != 0:
            oracle_cases.append([2] + cases[i][1:] + [wire_headers(r)])
            oracle_idx.append(i)
    # judge every implementation observation with the proved oracle
    fails = model.run_many(oracle_cases)
    bad_oracle = {}
    for i, f in zip(oracle_idx, fails):
        if f[0] == 1 and f[1]:
            bad_oracle[i] = f[1]
    for i, clauses in list(bad_oracle.items())[:50]:
        cell = cells[i]
        ctx.violation('cors-clause-violated',
                      {'cell': json.loads(json.dumps(list(cell))), 'pre': PRE[cell[7]], 'impl': impl[i],
                       'clauses_failed': clauses,
                       'clause_names': {1: 'untouched', 2: 'credentials echo origin', 3: 'credentials only configured',
                                        4: 'preflight approved only when ...', 5: 'Allow removed / grants withdrawn',
                                        6: 'wildcard with credentials'}},
                      key='clause-%s' % clauses)
    for i, detail in disagreements[:20]:
        if i in bad_oracle:
            continue
        # behaviour differs from the model but no clause of the property fails on this cell:
        # the correspondence is broken; report without a failing input unless another cell has one
        ctx.violation('correspondence-broken', dict(detail, broken='C20.process_response_corr'),
                      found_input=bool(bad_oracle), key='corr')
    ctx.sample({'cell': json.loads(json.dumps(list(cells[0]))), 'impl': impl[0]})
    e2e(ctx, falcon, testing, model)
    wiring(ctx, falcon, model)
    aliasing(ctx, falcon, testing, model)


disagreements = []


def replay(ctx, obj):
    """Re-run one recorded cell (direct form) on the current implementation."""
    import falcon
    from falcon import testing
    if 'cell' not in obj:
        return main(ctx)
    ao, ex, ac, origin, method, acrm, acrh, pi, succ = obj['cell']
    pre = obj.get('pre') or PRE[pi]
    model = common.Model(ctx)
    r = impl_direct(falcon, testing, (ao, ex, ac), (origin, method, acrm, acrh), pre, succ)
    ctx.note_case('replay', True)
    ctx.note_case('replay2', True)
    ctx.sample({'replayed': obj['cell'], 'impl': r})
    if r == 'ValueError':
        return
    f = model.run([2, wire_cfg(ao, ex, ac), wire_req(origin, method, acrm, acrh), wire_headers(pre), succ,
                   wire_headers(r)])
    if f[0] == 1 and f[1]:
        ctx.violation('cors-clause-violated', {'cell': obj['cell'], 'pre': pre, 'impl': r, 'clauses_failed': f[1]})


# ------------------------------------------------------------------ end to end

def e2e(ctx, falcon, testing, model):
    """Real apps (WSGI and ASGI), with and without the CORS middleware; the headers of the
    run without it are the model's pre-headers."""
    import falcon.asgi

    class Plain:
        def on_get(self, req, resp):
            resp.text = 'ok'

        def on_post(self, req, resp):
            raise falcon.HTTPBadRequest()

    class APlain:
        async def on_get(self, req, resp):
            resp.text = 'ok'

        async def on_post(self, req, resp):
            raise falcon.HTTPBadRequest()

    class Custom:
        def on_options(self, req, resp):
            resp.set_header('Access-Control-Allow-Origin', 'http://preset')
            resp.set_header('Allow', 'GET')

    class ACustom:
        async def on_options(self, req, resp):
            resp.set_header('Access-Control-Allow-Origin', 'http://preset')
            resp.set_header('Allow', 'GET')

    class NoAllow:
        def on_options(self, req, resp):
            resp.status = 204

    class ANoAllow:
        async def on_options(self, req, resp):
            resp.status = 204

    def sink(req, resp, **kw):
        resp.text = 'sink'

    async def asink(req, resp, **kw):
        resp.text = 'sink'

    def sink_allow(req, resp, **kw):
        resp.set_header('Allow', 'GET, PATCH')

    async def asink_allow(req, resp, **kw):
        resp.set_header('Allow', 'GET, PATCH')

    class Gate:
        # another component failing BEFORE the responder stage, with an Allow header on the error
        def process_request(self, req, resp):
            if req.path == '/gate':
                raise falcon.HTTPMethodNotAllowed(['GET', 'PUT'])

        def process_resource(self, req, resp, resource, params):
            if req.path == '/gate2':
                raise falcon.HTTPMethodNotAllowed(['GET', 'PUT'])

    class AGate:
        async def process_request(self, req, resp):
            if req.path == '/gate':
                raise falcon.HTTPMethodNotAllowed(['GET', 'PUT'])

        async def process_resource(self, req, resp, resource, params):
            if req.path == '/gate2':
                raise falcon.HTTPMethodNotAllowed(['GET', 'PUT'])

    class Status:
        # a raised HTTPStatus is an unsuccessful request even with a 2xx code
        def on_options(self, req, resp):
            raise falcon.HTTPStatus(falcon.HTTP_200, headers={'Allow': 'GET'})

    class AStatus:
        async def on_options(self, req, resp):
            raise falcon.HTTPStatus(falcon.HTTP_200, headers={'Allow': 'GET'})

    def build(asgi, mw):
        App = falcon.asgi.App if asgi else falcon.App
        app = App(middleware=[AGate() if asgi else Gate()] + mw)
        app.add_route('/gate2', APlain() if asgi else Plain())
        app.add_route('/status', AStatus() if asgi else Status())
        app.add_route('/plain', APlain() if asgi else Plain())
        app.add_route('/custom', ACustom() if asgi else Custom())
        app.add_route('/noallow', ANoAllow() if asgi else NoAllow())
        app.add_sink(asink if asgi else sink, '/sink')
        app.add_sink(asink_allow if asgi else sink_allow, '/sinkallow')
        return app

    cfgs = [('*', None, None), ('*', 'X-A', '*'), (['http://a', 'http://b'], ['X-A', 'X-B'], 'http://a'),
            ('http://a', None, ['http://b'])]
    paths = ['/plain', '/custom', '/noallow', '/sink/x', '/sinkallow/x', '/missing', '/gate', '/gate2', '/status']
    raising = {('/gate', None), ('/gate2', None), ('/status', 'OPTIONS'), ('/missing', None), ('/plain', 'POST')}
    n = 0
    cases, meta = [], []
    for asgi in (False, True):
        base = testing.TestClient(build(asgi, []))
        for cfg in cfgs:
            mw = falcon.CORSMiddleware(allow_origins=cfg[0], expose_headers=cfg[1], allow_credentials=cfg[2])
            cl = testing.TestClient(build(asgi, [mw]))
            for path in paths:
                for method in ('GET', 'OPTIONS', 'POST'):
                    for origin in (None, 'http://a', 'http://c'):
                        for acrm in (None, 'PUT'):
                            hd = {}
                            if origin:
                                hd['Origin'] = origin
                            if acrm:
                                hd['Access-Control-Request-Method'] = acrm
                            r0 = base.simulate_request(method, path, headers=hd)
                            r1 = cl.simulate_request(method, path, headers=hd)
                            succ = r0.status_code < 400 and (path, None) not in raising and (path, method) not in raising
                            pre = {k.lower(): v for k, v in r0.headers.items()}
                            post = {k.lower(): v for k, v in r1.headers.items()}
                            # content-length may legitimately differ only if bodies differ; they do not
                            cases.append([1, wire_cfg(*cfg), wire_req(origin, method, acrm, None),
                                          wire_headers(pre), succ])
                            meta.append((asgi, cfg, path, method, origin, acrm, pre, post, r0.status_code, r1.status_code))
                            n += 1
    outs = model.run_many(cases)
    ocases = []
    for c, m, o in zip(cases, meta, outs):
        ocases.append([2] + c[1:] + [wire_headers(m[7])])
    fails = model.run_many(ocases)
    for c, m, o, f in zip(cases, meta, outs, fails):
        asgi, cfg, path, method, origin, acrm, pre, post, s0, s1 = m
        exp = hdict(o[1])
        ctx.note_case(('e2e',) + tuple(map(repr, m[:6])), post != pre)
        ctx.count('e2e')
        detail = {'asgi': asgi, 'cfg': json.loads(json.dumps(cfg)), 'path': path, 'method': method,
                  'origin': origin, 'acrm': acrm, 'pre': pre, 'impl': post, 'model': exp,
                  'status': [s0, s1]}
        if f[1]:
            ctx.violation('cors-clause-violated', dict(detail, clauses_failed=f[1]), key='e2e-clause-%s' % f[1])
        elif post != exp or s0 != s1:
            ctx.violation('correspondence-broken', dict(detail, broken='C20.e2e_corr'), found_input=False, key='e2e-corr')
    ctx.sample({'e2e': {'path': meta[5][2], 'method': meta[5][3], 'origin': meta[5][4], 'post': meta[5][7]}})


def wiring(ctx, falcon, model):
    """cors_enable wiring of App.__init__/add_middleware: which calls raise ValueError."""
    import falcon.asgi

    class Other:
        def process_request(self, req, resp):
            pass

    class AOther:
        async def process_request(self, req, resp):
            pass

    def comp(is_cors, asgi):
        return falcon.CORSMiddleware() if is_cors else (AOther() if asgi else Other())

    rng = ctx.rng
    cases, impl = [], []
    for n in range(600 if ctx.tier == 'quick' else 6000):
        asgi = rng.random() < 0.5
        ce = rng.random() < 0.6
        mw = [rng.random() < 0.3 for _ in range(rng.randint(0, 3))]
        batches = [[rng.random() < 0.3 for _ in range(rng.randint(0, 3))] for _ in range(rng.randint(0, 4))]
        App = falcon.asgi.App if asgi else falcon.App
        try:
            app = App(cors_enable=ce, middleware=[comp(b, asgi) for b in mw])
        except ValueError:
            r = [0]
        else:
            acc = []
            for b in batches:
                try:
                    app.add_middleware([comp(x, asgi) for x in b])
                    acc.append(1)
                except ValueError:
                    acc.append(0)
            # behavioural count of policy instances: ACAO is set once whatever the count, so the
            # count itself is read from the public-ish list of components (advisory only)
            r = [1, acc]
        impl.append(r)
        cases.append([3, ce, mw, batches])
    outs = model.run_many(cases)
    for c, r, o in zip(cases, impl, outs):
        ctx.note_case(('wiring', repr(c)), c[1] and (any(c[2]) or any(any(b) for b in c[3])))
        ctx.count('wiring')
        mo = [0] if o[0] == 0 else [1, o[2]]
        if mo != r:
            # a second policy instance accepted under cors_enable (or a legal stack refused)
            ctx.violation('cors-wiring', {'cors_enable': c[1], 'middleware_is_cors': c[2], 'batches': c[3],
                                          'impl_accepts': r, 'model_accepts': mo,
                                          'what': 'App(cors_enable)/add_middleware accept/refuse pattern differs: '
                                                  'cors_enable must keep exactly one CORSMiddleware instance'},
                          key='wiring')


def aliasing(ctx, falcon, testing, model):
    """The policy is the configuration given at construction: a caller that later mutates the
    very set objects it passed in must not change whom the middleware grants access to."""
    cases, impl, metas = [], [], []
    for ao_t in (set, frozenset, list, tuple):
        for ac_t in (set, frozenset, list, None):
            ao = ao_t(['http://a', 'http://b'])
            ac = None if ac_t is None else ac_t(['http://a'])
            mw = falcon.CORSMiddleware(allow_origins=ao, allow_credentials=ac, expose_headers='X-A')
            # the caller goes on using (and extending) its own collections
            for coll in (ao, ac):
                if isinstance(coll, set):
                    coll.add('http://evil')
                    coll.add('*')
                elif isinstance(coll, list):
                    coll.append('http://evil')
            for origin in ('http://a', 'http://b', 'http://evil', '*'):
                for method, acrm in (('GET', None), ('OPTIONS', 'PUT')):
                    pre = {'Allow': 'GET, PUT'}
                    hdrs = {'Origin': origin}
                    if acrm:
                        hdrs['Access-Control-Request-Method'] = acrm
                    req = testing.create_req(method=method, headers=hdrs)
                    resp = falcon.Response()
                    for k, v in pre.items():
                        resp.set_header(k, v)
                    mw.process_response(req, resp, None, True)
                    impl.append(dict(resp.headers))
                    cfg = (['http://a', 'http://b'], 'X-A', None if ac_t is None else ['http://a'])
                    cases.append([2, wire_cfg(*cfg), wire_req(origin, method, acrm, None), wire_headers(pre), True,
                                  wire_headers(impl[-1])])
                    metas.append((ao_t.__name__, None if ac_t is None else ac_t.__name__, origin, method, acrm))
    outs = model.run_many(cases)
    for m, r, o in zip(metas, impl, outs):
        ctx.note_case(('alias',) + m, m[2] == 'http://evil')
        ctx.count('aliasing')
        if o[0] == 1 and o[1]:
            ctx.violation('cors-clause-violated',
                          {'what': 'the middleware follows later mutations of the collection objects passed to its '
                                   'constructor: an origin that was not configured is granted access',
                           'allow_origins_type': m[0], 'allow_credentials_type': m[1], 'origin': m[2], 'method': m[3],
                           'acrm': m[4], 'configured': {'allow_origins': ['http://a', 'http://b'],
                                                        'allow_credentials': ['http://a'] if m[1] else None},
                           'mutation': "caller added 'http://evil' (and '*') to its own set/list after construction",
                           'impl': r, 'clauses_failed': o[1]}, key='alias-%s' % o[1])
