"""C07 — request body streams: correspondence of falcon.stream.BoundedStream (WSGI) and
falcon.asgi.stream.BoundedStream (ASGI) with the Coq models (coq/C07/Model.v), and evaluation of
the proved oracles (coq/C07/Spec.v) on what the real streams returned.

WSGI: the real BoundedStream runs over a scripted ``wsgi.input`` (FakeInput: data, short-read
schedule; records its position, the furthest offset ever requested and unbounded requests).
ASGI: the real BoundedStream runs over a scripted ``receive()`` (event list, then
http.disconnect for ever; counts awaits).  Coroutines are driven by hand (``send(None)``): the
scripted receive never suspends, so no event loop is involved.
"""
import itertools
import json

import os

import common

# 1: the model of the repaired code (default); 0: the model of the code as found (only used to
# validate the fixed:=false model behind the *_refuted_before_fix theorems against an unpatched tree)
FIXED = int(os.environ.get('C07_MODEL_FIXED', '1'))

# ----------------------------------------------------------------------------- WSGI side


class HarnessBudget(BaseException):
    """Raised by the scripted wsgi.input / receive() when the code under test keeps calling them
    beyond any budget a terminating implementation could need (derives from BaseException so that
    no `except Exception` of the code under test can swallow it)."""


LATE_MAX = 6          # receive() calls tolerated after an http.disconnect was returned


class FakeInput:
    """Scripted wsgi.input with io semantics; mirrors Model.src."""

    def __init__(self, data, caps, budget=None):
        self.data = bytes(data)
        self.p = 0
        self.caps = list(caps)
        self.reach = 0
        self.unb = 0
        self.calls = 0
        # a terminating stream needs at most one call per byte plus one per operation
        self.budget = budget if budget is not None else 40 + 6 * len(self.data)

    def _hand(self, k, n):
        self.calls += 1
        if self.calls > self.budget:
            raise HarnessBudget('wsgi.input called %d times for a %d-byte body' % (self.calls, len(self.data)))
        out = self.data[self.p:self.p + k]
        if n < 0:
            self.unb += 1
        else:
            self.reach = max(self.reach, self.p + n)
        self.p += len(out)
        return out

    def read(self, n=-1):
        if n is None:
            n = -1
        if n < 0:
            return self._hand(len(self.data) - self.p, n)
        if self.caps:
            c = self.caps.pop(0)
            return self._hand(min(n, c + 1), n)
        return self._hand(n, n)

    def _line_len(self, rest):
        i = rest.find(b'\n')
        return len(rest) if i < 0 else i + 1

    def readline(self, n=-1):
        if n is None:
            n = -1
        rest = self.data[self.p:] if n < 0 else self.data[self.p:self.p + n]
        return self._hand(self._line_len(rest), n)

    def readlines(self, hint=-1):
        if hint is None:
            hint = -1
        lines, total, q = [], 0, self.p
        while q < len(self.data):
            k = self._line_len(self.data[q:])
            lines.append(self.data[q:q + k])
            q += k
            total += k
            if hint > 0 and total >= hint:
                break
        self._hand(q - self.p, -1)
        return lines

    def __iter__(self):
        return self

    def __next__(self):
        line = self.readline(-1)
        if not line:
            raise StopIteration
        return line


def wire_opt(x):
    return [] if x is None else [x]


def wire_wop(op):
    k = op[0]
    if k in ('read', 'readline', 'readlines'):
        return [{'read': 0, 'readline': 1, 'readlines': 2}[k], wire_opt(op[1])]
    if k == 'next':
        return [3]
    if k == 'exhaust':
        return [4, op[1]]
    return [5]


def expand_until_eof(ops, prim, eof_of, body_len):
    """Run [ops] through [prim] (one primitive operation -> its observation), expanding the
    compound operation ('until_eof', n) -- `while not stream.eof: stream.read(n)` -- into the
    primitive operations it performed.  -> (observations, primitive ops, hang reason or None)."""
    out, prims, hang = [], [], None
    for op in ops:
        if op[0] != 'until_eof':
            o, h = prim(op)
            out.append(o)
            prims.append(op)
            if h:
                hang = h
                break
            continue
        it = 0
        while hang is None:
            o, h = prim(('eof',))
            out.append(o)
            prims.append(('eof',))
            if h:
                hang = h
                break
            if eof_of(o):
                break
            o, h = prim(('read', op[1]))
            out.append(o)
            prims.append(('read', op[1]))
            if h:
                hang = h
                break
            it += 1
            if it > body_len + 4:
                hang = 'while not stream.eof: stream.read(%d) still running after %d reads of a %d-byte body' % (
                    op[1], it, body_len)
        if hang:
            break
    return out, prims, hang


def run_wsgi_impl(falcon, cl, data, caps, ops, via_request=False):
    """-> (list of [result, eof, pos, reach, unb] in the model's output shape, primitive ops, hang)."""
    from falcon.stream import BoundedStream
    fake = FakeInput(data, caps, budget=40 + 6 * len(data) + 4 * len(ops))
    if via_request:
        from falcon import testing
        env = testing.create_environ(method='POST', path='/')
        env['wsgi.input'] = fake
        if cl is None:
            env.pop('CONTENT_LENGTH', None)
        else:
            env['CONTENT_LENGTH'] = str(cl)
        bs = falcon.Request(env).bounded_stream
    else:
        bs = BoundedStream(fake, cl)

    def prim(op):
        p0 = fake.p
        hang = None
        try:
            k = op[0]
            if k == 'read':
                r = [0, list(bs.read(op[1]))]
            elif k == 'readline':
                r = [0, list(bs.readline(op[1]))]
            elif k == 'readlines':
                r = [1, [list(x) for x in bs.readlines(op[1])]]
            elif k == 'next':
                try:
                    r = [0, list(next(bs))]
                except StopIteration:
                    r = [2]
            elif k == 'exhaust':
                bs.exhaust(op[1])
                r = [3, list(fake.data[p0:fake.p])]
            else:
                r = [4, 1 if bs.eof else 0]
        except HarnessBudget as e:
            r = [-2, 'HarnessBudget']
            hang = str(e)
        except Exception as e:  # noqa: BLE001 - any exception is an observation
            r = [-1, type(e).__name__]
        return [r, 1 if bs.eof else 0, fake.p, fake.reach, fake.unb], hang

    return expand_until_eof(ops, prim, lambda o: o[0] == [4, 1], len(data))


# ----------------------------------------------------------------------------- ASGI side


def drive(coro):
    try:
        coro.send(None)
    except StopIteration as e:
        return e.value
    coro.close()
    raise RuntimeError('coroutine suspended: scripted receive() must never block')


def make_event(ev, rng):
    if ev[0] == 'disc':
        return {'type': 'http.disconnect'}
    d = {'type': 'http.request'}
    if ev[1] is not None:
        d['body'] = bytes(ev[1])
    if ev[2]:
        d['more_body'] = True
    elif rng.random() < 0.5:
        d['more_body'] = False
    return d


def wire_event(ev):
    if ev[0] == 'disc':
        return [1]
    return [0, wire_opt(None if ev[1] is None else list(ev[1])), 1 if ev[2] else 0]


def wire_first(first):
    if first is None:
        return []
    return [[wire_opt(None if first[0] is None else list(first[0])), 1 if first[1] else 0]]


AOPS = {'read': 0, 'readall': 1, 'next': 2, 'iternew': 3, 'exhaust': 4, 'close': 5, 'tell': 6, 'eof': 7,
        'closed': 8}


def wire_aop(op):
    if op[0] == 'read':
        return [0, wire_opt(op[1])]
    return [AOPS[op[0]]]


def run_asgi_impl(falcon, first, cl, events, ops, rng, via_request=False):
    """-> ([[tell0, eof0], [[result, tell, eof, closed, awaits, late, over], ...]], primitive ops, hang)"""
    from falcon.asgi.stream import BoundedStream
    from falcon.errors import OperationNotAllowed
    script = [make_event(e, rng) for e in events]
    st = {'calls': 0, 'disc': False, 'late': 0, 'over': 0,
          'rcvd': len(first[0]) if first and first[0] is not None else 0}
    body_len = st['rcvd'] + sum(len(e[1] or []) for e in events if e[0] == 'req')
    max_calls = len(events) + LATE_MAX + 2

    async def receive():
        st['calls'] += 1
        if st['disc']:
            st['late'] += 1
        if st['late'] > LATE_MAX or st['calls'] > max_calls:
            # a stream that keeps awaiting receive() after the client has gone never terminates
            raise HarnessBudget('receive() awaited %d times after http.disconnect (%d calls for %d events)'
                                % (st['late'], st['calls'], len(events)))
        if cl is not None and st['rcvd'] >= cl:
            st['over'] += 1
        ev = script.pop(0) if script else {'type': 'http.disconnect'}
        if ev['type'] == 'http.disconnect':
            st['disc'] = True
        st['rcvd'] += len(ev.get('body', b''))
        return ev

    fe = None
    if first is not None:
        fe = make_event(('req', first[0], first[1]), rng)
    if via_request:
        import falcon.asgi
        from falcon import testing
        hdrs = [] if cl is None else [(b'content-length', str(cl).encode())]
        scope = testing.create_scope(method='POST', path='/')
        scope['headers'] = [h for h in scope['headers'] if h[0] != b'content-length'] + hdrs
        req = falcon.asgi.Request(scope, receive, first_event=fe)
        s = req.stream
    else:
        s = BoundedStream(receive, first_event=fe, content_length=cl)
    head = [s.tell(), 1 if s.eof else 0]
    box = {'gen': None}

    def prim(op):
        hang = None
        try:
            k = op[0]
            if k == 'read':
                r = [0, list(drive(s.read(op[1])))]
            elif k == 'readall':
                r = [0, list(drive(s.readall()))]
            elif k == 'next':
                if box['gen'] is None:
                    box['gen'] = s.__aiter__()
                try:
                    r = [0, list(drive(box['gen'].__anext__()))]
                except StopAsyncIteration:
                    r = [1]
            elif k == 'iternew':
                if box['gen'] is not None:
                    drive(box['gen'].aclose())
                box['gen'] = s.__aiter__()
                r = [3]
            elif k == 'exhaust':
                drive(s.exhaust())
                r = [3]
            elif k == 'close':
                s.close()
                r = [3]
            elif k == 'tell':
                r = [5, s.tell()]
            elif k == 'eof':
                r = [4, 1 if s.eof else 0]
            else:
                r = [4, 1 if s.closed else 0]
        except HarnessBudget as e:
            r = [-2, 'HarnessBudget']
            hang = str(e)
        except OperationNotAllowed:
            r = [2, 1]
        except ValueError as e:
            r = [2, 2] if type(e) is ValueError else [-1, type(e).__name__]
        except Exception as e:  # noqa: BLE001
            r = [-1, type(e).__name__]
        return [r, s.tell(), 1 if s.eof else 0, 1 if s.closed else 0, st['calls'], st['late'], st['over']], hang

    out, prims, hang = expand_until_eof(ops, prim, lambda o: o[0] == [4, 1], body_len)
    if box['gen'] is not None:
        try:
            drive(box['gen'].aclose())
        except BaseException:  # noqa: BLE001
            pass
    return [head, out], prims, hang


# ----------------------------------------------------------------------------- generators

ALPHA = [ord('a'), ord('b'), 10]


def gen_bytes(rng, maxlen):
    n = rng.choice([0, 0, 1, 1, 2, 2, 3, 3, 4, 5, 6, maxlen])
    n = min(n, maxlen)
    return [rng.choice(ALPHA) if rng.random() < 0.9 else rng.randrange(256) for _ in range(n)]


def gen_size(rng, hi):
    x = rng.random()
    if x < 0.15:
        return None
    if x < 0.25:
        return -1
    if x < 0.33:
        return 0
    return rng.randrange(1, hi + 1)


def gen_wsgi_case(rng, nops, maxdata):
    data = gen_bytes(rng, maxdata)
    cl = rng.choice([0, 1, 2, 3, 4, 5, 6, 8, len(data), len(data), max(0, len(data) - 1), len(data) + 1])
    caps = [rng.randrange(0, 3) for _ in range(rng.choice([0, 0, 0, 2, 4, 8]))]
    ops = []
    for _ in range(rng.randrange(1, nops + 1)):
        k = rng.choice(['read', 'read', 'readline', 'readline', 'readlines', 'next', 'exhaust', 'eof'])
        if rng.random() < 0.07:
            # `while not stream.eof: stream.read(n)`
            ops.append(('until_eof', rng.choice([1, 2, 3, 5, 64])))
            continue
        if k in ('read', 'readline', 'readlines'):
            ops.append((k, gen_size(rng, 8)))
        elif k == 'exhaust':
            ops.append((k, rng.choice([1, 2, 3, 65536, 0, -1])))
        else:
            ops.append((k,))
    return cl, data, caps, ops


def gen_events(rng, maxev, maxchunk):
    """Well-formed ASGI event scripts: after more_body=False or a disconnect only disconnects."""
    evs = []
    n = rng.randrange(0, maxev + 1)
    for i in range(n):
        x = rng.random()
        if x < 0.12:
            evs.append(('disc',))
            break
        body = None if rng.random() < 0.12 else gen_bytes(rng, maxchunk)
        more = rng.random() < 0.7
        evs.append(('req', body, more))
        if not more:
            break
    for _ in range(rng.choice([0, 0, 1, 2])):
        if evs and (evs[-1][0] == 'disc' or not evs[-1][2]):
            evs.append(('disc',))
    return evs


def gen_asgi_case(rng, nops, maxev, maxchunk):
    first = None
    if rng.random() < 0.8:
        first = (None if rng.random() < 0.1 else gen_bytes(rng, maxchunk), rng.random() < 0.7)
    events = gen_events(rng, maxev, maxchunk) if (first is None or first[1]) else \
        [('disc',)] * rng.choice([0, 1, 2])
    total = (len(first[0]) if first and first[0] else 0) + sum(len(e[1] or []) for e in events if e[0] == 'req')
    cl = rng.choice([None, None, 0, 1, 2, 3, 4, 6, 8, total, total, max(0, total - 1), total + 1, total + 2,
                     max(0, total - 2), max(0, total // 2)])
    ops = []
    for _ in range(rng.randrange(1, nops + 1)):
        k = rng.choice(['read', 'read', 'read', 'readall', 'next', 'next', 'iternew', 'exhaust', 'close',
                        'tell', 'eof', 'closed'])
        if k in ('exhaust', 'close', 'iternew') and rng.random() < 0.5:
            k = 'read'
        if rng.random() < 0.07:
            ops.append(('until_eof', rng.choice([1, 2, 3, 5, 64])))
            continue
        if k == 'read':
            ops.append((k, rng.choice([None, -1, 0, -3, 1, 1, 2, 2, 3, 4, 5, 7, 100])))
        else:
            ops.append((k,))
    return first, cl, events, ops


# ----------------------------------------------------------------------------- main


def jd(x):
    return json.loads(json.dumps(x))


def describe_wsgi(case):
    cl, data, caps, ops = case
    return {'side': 'wsgi', 'content_length': cl, 'data': list(data), 'caps': caps, 'ops': jd(ops)}


def describe_asgi(case):
    first, cl, events, ops = case
    return {'side': 'asgi', 'first_event': jd(first), 'content_length': cl, 'events': jd(events), 'ops': jd(ops)}


def main(ctx):
    import falcon
    model = common.Model(ctx)
    for o in common.corpus('C07'):
        replay(ctx, o, model=model)
    quick = ctx.tier == 'quick'
    rng = ctx.rng
    ctx.cov['rule'] = ('one case = one whole operation history on one stream (WSGI: Content-Length x body x '
                       'short-read schedule x ops; ASGI: first event x Content-Length x event script x ops), run '
                       'on the real BoundedStream and on the extracted model, every per-operation observation '
                       'compared and judged by the proved oracle; non-trivial = some operation returned bytes')
    ctx.assumptions += [
        'wsgi.input is the scripted FakeInput (io semantics for read/readline/readlines/next; short reads only '
        'for read(n), each returning >= 1 byte unless at EOF) mirrored by Model.src',
        'ASGI event scripts obey the server contract (after more_body=False or http.disconnect only '
        'http.disconnect follows; receive() after the script answers http.disconnect)',
        'ASGI histories are judged up to the first sized read issued while an iteration is suspended '
        '(documented misuse, see notes/C07.md)',
        'sizes < -1 are not generated',
    ]
    # ---- WSGI
    wcases = []
    nw = 12000 if quick else 120000
    for i in range(nw):
        wcases.append(gen_wsgi_case(rng, 5 if i % 4 else 12, 8 if i % 7 else 40))
    wcases += exhaustive_wsgi(3 if quick else 4)
    run_wsgi_cases(ctx, falcon, model, wcases)
    # ---- ASGI
    acases = []
    na = 12000 if quick else 120000
    for i in range(na):
        acases.append(gen_asgi_case(rng, 6 if i % 4 else 14, 4 if i % 5 else 8, 6 if i % 7 else 30))
    acases += exhaustive_asgi(2 if quick else 3)
    run_asgi_cases(ctx, falcon, model, acases)
    # ---- the request objects, driven through the raw WSGI / ASGI callables
    run_wsgi_request_cases(ctx, falcon, model, [gen_wreq_case(rng) for _ in range(4000 if quick else 40000)])
    run_asgi_request_cases(ctx, falcon, model, [gen_areq_case(rng) for _ in range(2500 if quick else 25000)])


# ----------------------------------------------------------------------------- request objects

CL_HEADERS = [None, '', '0', '3', '5', '8', '007', 'abc', '-1', '-0', '1.5', ' 4', '+4', '4 ', '1_0', '0x10', '\xb2']


def classify_cl(value):
    """Content-Length header text -> wire clen, by Python's own int()."""
    if value is None:
        return [0]
    if not value:
        return [1]
    try:
        return [3, int(value)]
    except ValueError:
        return [2]


def gen_wreq_case(rng):
    cl, data, caps, ops = gen_wsgi_case(rng, 6, 10)
    ops = [('read', o[1]) if o[0] == 'until_eof' else o for o in ops]
    hdr = rng.choice(CL_HEADERS + [str(len(data)), str(len(data)), str(cl), str(cl)])
    qops = []
    for op in ops:
        x = rng.random()
        if x < 0.25:
            qops.append(('raw-read', rng.choice([None, -1, 0, 1, 2, 3])))
        elif x < 0.35:
            qops.append(('raw-readline', rng.choice([None, -1, 2])))
        else:
            qops.append(op)
    if rng.random() < 0.5:   # histories that only use the bounded accessor
        qops = [o for o in qops if not o[0].startswith('raw-')] or [('read', None)]
    return hdr, data, caps, qops


def wire_qop(op):
    if op[0] == 'raw-read':
        return [10, wire_opt(op[1])]
    if op[0] == 'raw-readline':
        return [11, wire_opt(op[1])]
    return wire_wop(op)


def run_wsgi_request_impl(falcon, app_box, hdr, data, caps, qops):
    """One request through the raw WSGI callable; the responder replays [qops] on req."""
    from falcon import testing
    fake = FakeInput(data, caps)
    env = testing.create_environ(method='POST', path='/c07')
    env['wsgi.input'] = fake
    if hdr is None:
        env.pop('CONTENT_LENGTH', None)
    else:
        env['CONTENT_LENGTH'] = hdr
    box = {'out': [], 'problems': []}

    def script(req):
        seen = None
        for op in qops:
            p0 = fake.p
            try:
                if req.stream is not fake:
                    box['problems'].append('req.stream is not env[wsgi.input]')
                k = op[0]
                if k == 'raw-read':
                    r = [0, list(req.stream.read() if op[1] is None else req.stream.read(op[1]))]
                    bs = seen
                elif k == 'raw-readline':
                    r = [0, list(req.stream.readline() if op[1] is None else req.stream.readline(op[1]))]
                    bs = seen
                else:
                    bs = req.bounded_stream
                    if seen is not None and bs is not seen:
                        box['problems'].append('req.bounded_stream created more than once')
                    seen = bs
                    if k == 'read':
                        r = [0, list(bs.read(op[1]))]
                    elif k == 'readline':
                        r = [0, list(bs.readline(op[1]))]
                    elif k == 'readlines':
                        r = [1, [list(x) for x in bs.readlines(op[1])]]
                    elif k == 'next':
                        try:
                            r = [0, list(next(bs))]
                        except StopIteration:
                            r = [2]
                    elif k == 'exhaust':
                        bs.exhaust(op[1])
                        r = [3, list(fake.data[p0:fake.p])]
                    else:
                        r = [4, 1 if bs.eof else 0]
            except Exception as e:  # noqa: BLE001
                r = [-1, type(e).__name__]
            eof = None if seen is None else (1 if seen.eof else 0)
            box['out'].append([r, eof, fake.p, fake.reach, fake.unb])

    app_box['script'] = script
    status = []
    box['hang'] = None
    try:
        body = app_box['wsgi'](env, lambda s, h, e=None: status.append(s))
        list(body)
    except HarnessBudget as e:
        box['hang'] = str(e)
    box['status'] = status[0] if status else None
    box['final_pos'] = fake.p
    return box


def make_apps(falcon):
    import falcon.asgi
    box = {}

    class R:
        def on_post(self, req, resp):
            box['script'](req)

    class AR:
        async def on_post(self, req, resp):
            await box['script'](req)

    wa = falcon.App()
    wa.add_route('/c07', R())
    aa = falcon.asgi.App()
    aa.add_route('/c07', AR())
    box['wsgi'], box['asgi'] = wa, aa
    return box


def run_wsgi_request_cases(ctx, falcon, model, cases):
    app_box = make_apps(falcon)
    wires = [[4, classify_cl(hdr), data, caps, [wire_qop(o) for o in qops]] for hdr, data, caps, qops in cases]
    outs = model.run_many(wires)
    oracle_q, oracle_meta = [], []
    bad = []
    for i, (case, m) in enumerate(zip(cases, outs)):
        hdr, data, caps, qops = case
        box = run_wsgi_request_impl(falcon, app_box, hdr, data, caps, qops)
        r = box['out']
        detail = {'side': 'wsgi-request', 'content_length_header': hdr, 'data': list(data), 'caps': caps,
                  'ops': jd(qops), 'impl': r, 'status': box['status']}
        ctx.note_case(('wq', i), any(x[0][0] in (0, 1, 3) and x[0][1] for x in r))
        ctx.count('wsgi-request')
        if box['hang']:
            report_hang(ctx, 'wsgi-request', detail, qops, r, box['hang'])
            continue
        for prob in box['problems'][:1]:
            ctx.violation('wrapper-violated', dict(detail, what=prob), key='wq-' + prob[:20])
        if box['final_pos'] != (r[-1][2] if r else 0) or box['status'] != '200 OK':
            ctx.violation('wrapper-violated', dict(detail, what='the framework touched wsgi.input outside the '
                                                   'responder, or the request failed'), key='wq-outside')
        budget, mobs, made = m
        # model's eof is reported only once the wrapper exists
        mo = []
        exists = False
        for op, x in zip(qops, mobs):
            exists = exists or not op[0].startswith('raw-')
            mo.append([x[0], (x[1] if exists else None)] + x[2:])
        if jd(r) != mo:
            ctx.count('wsgi-request-disagree')
            bad.append(dict(detail, model=mo, broken='C07.wsgi_request_corr'))
        if all(not o[0].startswith('raw-') for o in qops) and wsgi_in_domain((budget, data, caps, qops)):
            # only the bounded accessor: the stream oracle applies with the effective Content-Length
            oracle_q.append(wsgi_obs_wire((budget, data, caps, qops), r))
            oracle_meta.append(detail)
        else:
            # mixed use: one shared cursor - every byte wsgi.input handed out was returned, once, in order
            got = b''.join(bytes(x[0][1]) if x[0][0] in (0, 3) else b''.join(bytes(y) for y in x[0][1])
                           if x[0][0] == 1 else b'' for x in r)
            if got != bytes(data)[:box['final_pos']]:
                ctx.violation('wrapper-violated', dict(detail, what='accessors do not share one cursor'),
                              key='wq-cursor')
            tot = sum(len(x[0][1]) if x[0][0] in (0, 3) else sum(len(y) for y in x[0][1]) if x[0][0] == 1 else 0
                      for o, x in zip(qops, r) if not o[0].startswith('raw-'))
            if tot > budget:
                ctx.violation('wrapper-violated', dict(detail, what='bounded_stream returned more than Content-Length'),
                              key='wq-budget')
    verdicts = model.run_many(oracle_q)
    found = False
    for d, v in zip(oracle_meta, verdicts):
        if v:
            found = True
            ctx.violation('stream-clause-violated', dict(d, clauses_failed=v,
                                                         clause_names=[W_CLAUSES[c] for c in sorted(set(v))]),
                          key='wq-clause-%s' % sorted(set(v)))
    for d in bad[:1]:
        ctx.violation('correspondence-broken', d, found_input=found or any(v['found_input'] for v in ctx.violations),
                      key='wq-corr')


def gen_areq_case(rng):
    first, cl, events, ops = gen_asgi_case(rng, 6, 4, 6)
    ops = [('read', o[1]) if o[0] == 'until_eof' else o for o in ops]
    if first is None:
        first = ([], True)
    hdr = rng.choice([None, None, '', 'abc', '-1', '0', '4', '007'] + [None if cl is None else str(cl)] * 6)
    return first, hdr, events, [(rng.random() < 0.5, o) for o in ops]


def run_asgi_request_impl(falcon, app_box, loop, first, hdr, events, ops, rng):
    from falcon import testing
    from falcon.errors import OperationNotAllowed
    script_events = [make_event(('req', first[0], first[1]), rng)] + [make_event(e, rng) for e in events]
    cl = None
    st = {'calls': 0}

    st['late'] = 0
    max_calls = len(script_events) + LATE_MAX + 2

    async def receive():
        st['calls'] += 1
        if not script_events:
            st['late'] += 1
        if st['late'] > LATE_MAX + 1 or st['calls'] > max_calls:
            raise HarnessBudget('receive() awaited %d times for %d events' % (st['calls'], max_calls - LATE_MAX - 2))
        return script_events.pop(0) if script_events else {'type': 'http.disconnect'}

    sent = []

    async def send(ev):
        sent.append(ev)

    scope = testing.create_scope(method='POST', path='/c07')
    scope['headers'] = [h for h in scope['headers'] if h[0] != b'content-length']
    if hdr is not None:
        scope['headers'].append((b'content-length', hdr.encode('latin1')))
    box = {'out': [], 'problems': []}

    async def script(req):
        seen, gen = None, None
        for via_stream, op in ops:
            try:
                s = req.stream if via_stream else req.bounded_stream
                if seen is not None and s is not seen:
                    box['problems'].append('req.stream / req.bounded_stream are not one object created once')
                seen = s
                k = op[0]
                if k == 'read':
                    r = [0, list(await s.read(op[1]))]
                elif k == 'readall':
                    r = [0, list(await s.readall())]
                elif k == 'next':
                    if gen is None:
                        gen = s.__aiter__()
                    try:
                        r = [0, list(await gen.__anext__())]
                    except StopAsyncIteration:
                        r = [1]
                elif k == 'iternew':
                    if gen is not None:
                        await gen.aclose()
                    gen = s.__aiter__()
                    r = [3]
                elif k == 'exhaust':
                    await s.exhaust()
                    r = [3]
                elif k == 'close':
                    s.close()
                    r = [3]
                elif k == 'tell':
                    r = [5, s.tell()]
                elif k == 'eof':
                    r = [4, 1 if s.eof else 0]
                else:
                    r = [4, 1 if s.closed else 0]
            except OperationNotAllowed:
                r = [2, 1]
            except falcon.HTTPInvalidHeader:
                r = [2, 3]
            except ValueError as e:
                r = [2, 2] if type(e) is ValueError else [-1, type(e).__name__]
            except Exception as e:  # noqa: BLE001
                r = [-1, type(e).__name__]
            if seen is None:
                box['out'].append([r])
            else:
                # awaits: receive() calls made by the stream = all calls minus the app's first one
                box['out'].append([r, seen.tell(), 1 if seen.eof else 0, 1 if seen.closed else 0, st['calls'] - 1])
        if gen is not None:
            try:
                await gen.aclose()
            except Exception:  # noqa: BLE001
                pass
        box['calls_in_responder'] = st['calls']

    app_box['script'] = script
    box['hang'] = None
    try:
        loop.run_until_complete(app_box['asgi'](scope, receive, send))
    except HarnessBudget as e:
        box['hang'] = str(e)
    box['calls_total'] = st['calls']
    box['status'] = next((e.get('status') for e in sent if e['type'] == 'http.response.start'), None)
    return box


def run_asgi_request_cases(ctx, falcon, model, cases):
    import asyncio
    app_box = make_apps(falcon)
    loop = asyncio.new_event_loop()
    try:
        wires = [[5, wire_first(first), classify_cl(hdr), [wire_event(e) for e in events],
                  [[1 if via else 0, wire_aop(o)] for via, o in ops]] for first, hdr, events, ops in cases]
        outs = model.run_many(wires)
        oracle_q, oracle_meta, bad = [], [], []
        for i, (case, m) in enumerate(zip(cases, outs)):
            first, hdr, events, ops = case
            box = run_asgi_request_impl(falcon, app_box, loop, first, hdr, events, ops, ctx.rng)
            r = box['out']
            detail = {'side': 'asgi-request', 'first_event': jd(first), 'content_length_header': hdr,
                      'events': jd(events), 'ops': jd(ops), 'impl': r, 'status': box['status']}
            ctx.note_case(('aq', i), any(x[0][0] == 0 and x[0][1] for x in r))
            ctx.count('asgi-request')
            if box['hang']:
                report_hang(ctx, 'asgi-request', detail, [o for _, o in ops], r, box['hang'])
                continue
            for prob in box['problems'][:1]:
                ctx.violation('wrapper-violated', dict(detail, what=prob), key='aq-alias')
            if box['calls_total'] != box.get('calls_in_responder') or box['status'] != 200:
                ctx.violation('wrapper-violated', dict(detail, what='receive() awaited by the framework after the '
                                                       'responder returned, or the request failed'), key='aq-outside')
            mo = [x[:5] for x in m[0]]
            if jd(r) != mo:
                ctx.count('asgi-request-disagree')
                bad.append(dict(detail, model=mo, broken='C07.asgi_request_corr'))
            c = classify_cl(hdr)
            if c[0] in (0, 1) or (c[0] == 3 and c[1] >= 0):
                cl = None if c[0] in (0, 1) else c[1]
                # the stream oracle on the observations made through the accessors
                obs = [[x[0], x[1], x[2], x[3], x[4], 0, 0] for x in r]
                oracle_q.append(asgi_obs_wire((first, cl, events, [o for _, o in ops]), [[0, None], obs]))
                oracle_meta.append(detail)
        # tell0/eof0 are not observed before the first access: take the model's initial values
        for q in oracle_q:
            q[4] = 0
        init = model.run_many([[1, 1, q[1], q[2], q[3], []] for q in oracle_q])
        for q, ini in zip(oracle_q, init):
            q[5] = ini[0][1]
        verdicts = model.run_many(oracle_q)
        found = False
        for d, v in zip(oracle_meta, verdicts):
            if v:
                found = True
                ctx.violation('stream-clause-violated', dict(d, clauses_failed=v,
                                                             clause_names=[A_CLAUSES[c] for c in sorted(set(v))]),
                              key='aq-clause-%s' % sorted(set(v)))
        for d in bad[:1]:
            ctx.violation('correspondence-broken', d,
                          found_input=found or any(v['found_input'] for v in ctx.violations), key='aq-corr')
    finally:
        loop.close()


def exhaustive_wsgi(nops):
    """All histories of <= nops operations from a small alphabet over two bodies."""
    alphabet = [('read', None), ('read', 2), ('read', 0), ('readline', None), ('readline', 2), ('readline', 0),
                ('readlines', None), ('readlines', 3), ('next',), ('exhaust', 2), ('eof',), ('until_eof', 2)]
    out = []
    for data, cls in (([97, 98, 10, 99, 100, 10], (0, 3, 6, 8)), ([97, 10, 10, 98], (2, 4))):
        for cl in cls:
            for caps in ([], [0, 1]):
                for n in range(1, nops + 1):
                    for ops in itertools.product(alphabet, repeat=n):
                        out.append((cl, data, caps, list(ops)))
    return out


def exhaustive_asgi(nops):
    alphabet = [('read', None), ('read', 1), ('read', 3), ('readall',), ('next',), ('iternew',), ('exhaust',),
                ('close',), ('eof',), ('until_eof', 2)]
    scripts = [
        ((b'ab', True), [('req', list(b'cd'), True), ('req', list(b'ef'), False)]),
        ((b'', True), [('req', list(b'abcdef'), True), ('disc',)]),
        (None, [('req', None, True), ('req', list(b'abc'), True), ('req', [], False), ('disc',)]),
        ((b'abc', False), []),
    ]
    out = []
    for first, events in scripts:
        f = None if first is None else (list(first[0]), first[1])
        for cl in (None, 0, 3, 4, 6, 9):
            for n in range(1, nops + 1):
                for ops in itertools.product(alphabet, repeat=n):
                    out.append((f, cl, events, list(ops) + [('tell',)]))
    return out


W_CLAUSES = {1: 'returned bytes are not the declared body at the cursor (prefix)', 2: 'sized read returned more than its size',
             3: 'wsgi.input asked for bytes beyond Content-Length', 4: 'eof disagrees with what was returned',
             5: 'bytes taken from wsgi.input but not returned (loss)', 6: 'result shape / unexpected exception',
             7: 'empty result although the declared body is not over'}
A_CLAUSES = {1: 'returned bytes are not the declared body at the cursor (prefix)', 2: 'sized read returned more than its size',
             3: 'receive() awaited although Content-Length bytes had been received',
             4: 'tell() is not the cursor (bytes returned + bytes skipped by exhaust)',
             5: 'eof reported on an open stream before the cursor reached the end of the declared body',
             6: 'receive() awaited after a disconnect',
             7: 'empty read although not at end-of-stream', 8: 'result shape / undocumented exception',
             9: 'bytes returned after eof had been reported'}


def wsgi_in_domain(case):
    cl, data, caps, ops = case
    return all(not (o[0] in ('read', 'readline', 'readlines', 'exhaust') and o[1] is not None and o[1] < -1)
               for o in ops)


def wsgi_obs_wire(case, r):
    cl, data, caps, ops = case
    return [2, cl, data, [[wire_wop(o)] + jd(x) for o, x in zip(ops, r)]]


def asgi_obs_wire(case, r):
    first, cl, events, ops = case
    return [3, wire_first(first), wire_opt(cl), [wire_event(e) for e in events], r[0][0], r[0][1],
            [[wire_aop(o)] + jd(x) for o, x in zip(ops, r[1])]]


def report_hang(ctx, side, orig_desc, prims, impl, hang):
    """A history on which the real stream did not terminate within its step budget."""
    ctx.count(side + '-hang')
    ctx.violation('c07-hang', dict(orig_desc, what=hang, primitive_ops_performed=jd(prims), impl=impl,
                                   clause='the stream must terminate: a disconnect / end of input ends it'),
                  key='%s-hang' % side)


def run_wsgi_cases(ctx, falcon, model, cases, tag='w'):
    # the implementation first: compound operations expand into the primitive ones they performed
    orig = cases
    impl, cases = [], []
    for i, (cl, data, caps, ops) in enumerate(orig):
        r, prims, hang = run_wsgi_impl(falcon, cl, data, caps, ops, via_request=(i % 5 == 0))
        impl.append(r)
        cases.append((cl, data, caps, prims))
        if hang:
            report_hang(ctx, 'wsgi', describe_wsgi(orig[i]), prims, r, hang)
    wires = [[0, FIXED, cl, data, caps, [wire_wop(o) for o in ops]] for cl, data, caps, ops in cases]
    outs = model.run_many(wires)
    bad = []
    for i, (case, m) in enumerate(zip(cases, outs)):
        r = impl[i]
        nontriv = any(x[0][0] in (0, 1, 3) and x[0][1] for x in r)
        ctx.note_case((tag, i), nontriv)
        ctx.count('wsgi')
        if m[1] and FIXED and wsgi_in_domain(case):
            ctx.violation('model-fails-own-oracle', dict(describe_wsgi(case), clauses=m[1],
                                                         broken='C07.w_oracle_sound'), found_input=False,
                          key='w-model-oracle')
        if jd(r) != m[0]:
            ctx.count('wsgi-disagree')
            bad.append((i, case, r, m[0]))
    verdicts = model.run_many([wsgi_obs_wire(c, r) for c, r in zip(cases, impl)])
    failing = {}
    for i, (case, r, v) in enumerate(zip(cases, impl, verdicts)):
        if v and wsgi_in_domain(case):
            failing[i] = v
            ctx.count('wsgi-oracle-fail')
    for i in shortest_per_clause_set(failing, lambda i: (len(cases[i][3]), len(cases[i][1]))):
        case, v = cases[i], failing[i]
        first = first_failing_wsgi(model, case, impl[i])
        ctx.violation('stream-clause-violated',
                      dict(describe_wsgi(case), impl=impl[i], clauses_failed=v,
                           clause_names=[W_CLAUSES[c] for c in sorted(set(v))],
                           first_failing_op=first),
                      key='wsgi-clause-%s-%s' % (sorted(set(v)), first and first[0]))
    for i, case, r, m in bad[:5]:
        if i in failing:
            continue
        first = next((k for k, (a, b) in enumerate(zip(r, m)) if a != b), None)
        ctx.violation('correspondence-broken',
                      dict(describe_wsgi(case), impl=r, model=m, first_deviating_op=first,
                           broken='C07.wsgi_corr'),
                      found_input=bool(failing) or any(v['found_input'] for v in ctx.violations), key='wsgi-corr')
    if cases and tag == 'w':
        ctx.sample(dict(describe_wsgi(cases[0]), impl=impl[0]))
    return failing


def shortest_per_clause_set(failing, size, per=4):
    """Indices of the few smallest failing cases for every distinct set of failed clauses."""
    groups = {}
    for i, v in failing.items():
        groups.setdefault(tuple(sorted(set(v))), []).append(i)
    out = []
    for k in sorted(groups):
        out += sorted(groups[k], key=size)[:per]
    return out


def first_failing_wsgi(model, case, r):
    """(operation name, index) of the first operation at which the oracle complains."""
    cl, data, caps, ops = case
    for k in range(1, len(ops) + 1):
        if model.run(wsgi_obs_wire((cl, data, caps, ops[:k]), r[:k])):
            return [ops[k - 1][0], k - 1]
    return None


def first_failing_asgi(model, case, r):
    first, cl, events, ops = case
    if model.run(asgi_obs_wire((first, cl, events, []), [r[0], []])):
        return ['__init__', -1]
    for k in range(1, len(ops) + 1):
        if model.run(asgi_obs_wire((first, cl, events, ops[:k]), [r[0], r[1][:k]])):
            return [ops[k - 1][0], k - 1]
    return None


def run_asgi_cases(ctx, falcon, model, cases, tag='a'):
    orig = cases
    impl, cases = [], []
    for i, (first, cl, events, ops) in enumerate(orig):
        r, prims, hang = run_asgi_impl(falcon, first, cl, events, ops, ctx.rng, via_request=(i % 5 == 0))
        impl.append(r)
        cases.append((first, cl, events, prims))
        if hang:
            report_hang(ctx, 'asgi', describe_asgi(orig[i]), prims, r, hang)
    wires = [[1, FIXED, wire_first(first), wire_opt(cl), [wire_event(e) for e in events], [wire_aop(o) for o in ops]]
             for first, cl, events, ops in cases]
    outs = model.run_many(wires)
    bad = []
    for i, (case, m) in enumerate(zip(cases, outs)):
        r = impl[i]
        nontriv = any(x[0][0] == 0 and x[0][1] for x in r[1])
        ctx.note_case((tag, i), nontriv)
        ctx.count('asgi')
        if m[2] and FIXED:
            ctx.violation('model-fails-own-oracle', dict(describe_asgi(case), clauses=m[2],
                                                         broken='C07.a_oracle_sound'), found_input=False,
                          key='a-model-oracle')
        if jd(r) != m[:2]:
            ctx.count('asgi-disagree')
            bad.append((i, case, r, m[:2]))
    verdicts = model.run_many([asgi_obs_wire(c, r) for c, r in zip(cases, impl)])
    failing = {}
    for i, v in enumerate(verdicts):
        if v:
            failing[i] = v
            ctx.count('asgi-oracle-fail')
    for i in shortest_per_clause_set(failing, lambda i: (len(cases[i][3]), len(cases[i][2]))):
        case, v = cases[i], failing[i]
        first = first_failing_asgi(model, case, impl[i])
        ctx.violation('stream-clause-violated',
                      dict(describe_asgi(case), impl=impl[i], clauses_failed=v,
                           clause_names=[A_CLAUSES[c] for c in sorted(set(v))],
                           first_failing_op=first),
                      key='asgi-clause-%s-%s' % (sorted(set(v)), first and first[0]))
    for i, case, r, m in bad[:5]:
        if i in failing:
            continue
        first_dev = next((k for k, (a, b) in enumerate(zip(r[1], m[1])) if a != b), None)
        ctx.violation('correspondence-broken',
                      dict(describe_asgi(case), impl=r, model=m, first_deviating_op=first_dev,
                           broken='C07.asgi_corr'),
                      found_input=bool(failing) or any(v['found_input'] for v in ctx.violations), key='asgi-corr')
    if cases and tag == 'a':
        ctx.sample(dict(describe_asgi(cases[0]), impl=impl[0]))
    return failing


def tup(x):
    return tuple(tup(y) for y in x) if isinstance(x, list) else x


def replay(ctx, obj, model=None):
    """Re-run one recorded history on the current implementation and judge it with the oracle."""
    import falcon
    model = model or common.Model(ctx)
    ops = [tuple(o) for o in obj['ops']]
    if obj.get('side') == 'wsgi-request':
        case = (obj['content_length_header'], obj['data'], obj.get('caps', []), ops)
        return run_wsgi_request_cases(ctx, falcon, model, [case])
    if obj.get('side') == 'asgi-request':
        first = obj['first_event']
        case = ((first[0], first[1]), obj['content_length_header'], [tuple(e) for e in obj['events']],
                [(bool(v), tuple(o)) for v, o in obj['ops']])
        return run_asgi_request_cases(ctx, falcon, model, [case])
    if obj.get('side') == 'wsgi':
        case = (obj['content_length'], obj['data'], obj.get('caps', []), ops)
        failing = run_wsgi_cases(ctx, falcon, model, [case], tag='replay-w:%s' % obj.get('_file', ''))
    else:
        first = obj.get('first_event')
        first = None if first is None else (first[0], first[1])
        events = [tuple(e) for e in obj['events']]
        case = (first, obj['content_length'], events, ops)
        failing = run_asgi_cases(ctx, falcon, model, [case], tag='replay-a:%s' % obj.get('_file', ''))
    return failing
