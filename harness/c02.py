"""C02 — dispatch: correspondence of falcon.App / falcon.asgi.App request dispatch with the Coq
model (coq/C02/Model.v) and evaluation of the proved oracle (coq/C02/Spec.v).

Generated apps (WSGI and ASGI, both values of sink_before_static_route): routes with resources
implementing arbitrary subsets of COMBINED_METHODS (with / without suffix, custom on_options,
non-callable attributes), sinks with prefix / named-group patterns and static routes in random
interleaving.  Every responder, sink and static file tags itself; observations are
(what ran, kwargs, status, Allow)."""
import json
import os
import re
import shutil
import tempfile
import warnings

import common

TEMPLATES = ['/a', '/a/b', '/a/{x}', '/a/{x}/c', '/{y}', '/a/{n:int}', '/f/{p:path}', '/s/x', '/s',
             '/a/{x}.json', '/st/f.txt', '/a/{k}/t', '/']
BAD_TEMPLATES = ['a', '/a//b', '/a/{x}/{x}', '/q/{z:nope}', '/q/{class}']
# sink prefix patterns as ASTs of the modelled regex language (wire shape of Extract.d_rx):
# [0, lit]  [1, cls, quant]  [2, name, r] named group  [3, r] (?:r)?  [4, a, b] (?:a|b)  [5, a, b] sequence
DIGIT, LOWER, NOTSLASH, ANY = 0, 1, 2, 3
ONE, PLUS, STAR = 0, 1, 2


def lit(x):
    return [0, x]


def cls(c, q):
    return [1, c, q]


def named(n, r):
    return [2, n, r]


def opt(r):
    return [3, r]


def alt(a, b):
    return [4, a, b]


def seq(*rs):
    out = rs[-1]
    for r in reversed(rs[:-1]):
        out = [5, r, out]
    return out


SINK_PATS = [
    lit('/s'), lit('/'), lit('/a'), lit('/s/x'), lit('/zz'), lit('/a.b'),
    seq(lit('/s/'), named('id', cls(NOTSLASH, PLUS))),
    seq(lit('/a/'), named('k', cls(NOTSLASH, PLUS)), lit('/t')),
    seq(lit('/'), named('top', cls(NOTSLASH, PLUS)), lit('/x')),
    seq(lit('/f/'), named('u', cls(NOTSLASH, PLUS))),
    # optional / alternation / nested groups: some named groups do not take part in a match
    seq(lit('/api'), opt(seq(lit('/v'), named('version', cls(DIGIT, PLUS)))), lit('/'),
        named('service', cls(LOWER, PLUS)), opt(named('rest', seq(lit('/'), cls(ANY, STAR))))),
    seq(lit('/s'), opt(seq(lit('/'), named('first', cls(LOWER, PLUS)))), opt(seq(lit('/'), named('num', cls(DIGIT, PLUS))))),
    alt(seq(lit('/a/'), named('n', cls(DIGIT, PLUS))), seq(lit('/a/'), named('w', cls(LOWER, PLUS)))),
    seq(lit('/'), alt(named('one', lit('s')), named('two', lit('f'))), opt(named('tail', seq(lit('/'), named('leaf', cls(NOTSLASH, STAR)))))),
    seq(lit('/a'), named('outer', opt(seq(lit('/'), named('inner', cls(LOWER, PLUS))))), opt(lit('/'))),
]

CLS_RX = {DIGIT: r'\d', LOWER: '[a-z]', NOTSLASH: '[^/]', ANY: '.'}
QUANT_RX = {ONE: '', PLUS: '+', STAR: '*'}


def sink_regex(p):
    t = p[0]
    if t == 0:
        return re.escape(p[1])
    if t == 1:
        return CLS_RX[p[1]] + QUANT_RX[p[2]]
    if t == 2:
        return '(?P<%s>%s)' % (p[1], sink_regex(p[2]))
    if t == 3:
        return '(?:%s)?' % sink_regex(p[1])
    if t == 4:
        return '(?:%s|%s)' % (sink_regex(p[1]), sink_regex(p[2]))
    return sink_regex(p[1]) + sink_regex(p[2])


def group_names(p):
    t = p[0]
    if t in (0, 1):
        return []
    if t == 2:
        return [p[1]] + group_names(p[2])
    if t == 3:
        return group_names(p[1])
    return group_names(p[1]) + group_names(p[2])


STATIC_PREFIXES = ['/s', '/s/x', '/a', '/st/', '/', '/f', 'bad']
PATHS = ['/api/users', '/api/v2/users', '/api/v10/users/x/y', '/api/v/users', '/s/abc/12', '/s/12', '/a/12x', '/a/',
         '/a', '/a/b', '/a/q', '/a/q/c', '/a/12', '/s', '/s/x', '/s/x/f.txt', '/s/f.txt', '/zz', '/', '/a/q/t',
         '/f/u/v', '/a/q.json', '/s/', '/st/f.txt', '/a/f.txt', '/f.txt', '/x/f.txt', '/a/x/f.txt', '/f', '/q/x',
         '/aXb', '/f/f.txt', '/a/q\n']
FILES = ['f.txt', 'x/f.txt']
SUFFIXES = [None, None, None, 'items', '', 'zzz', 'byID', 'byid', 'V2', 'v2', 'a_1', 'Items']
SUFFIX_VARIANTS = ['items', 'byID', 'byid', 'V2', 'v2', 'a_1', 'Items']


def make_responder(kind, ident, attr, asgi):
    def tag(resp, kw):
        resp.set_header('X-Tag', json.dumps([kind, ident, attr, kw], sort_keys=True))
    if asgi:
        async def f(req, resp, **kw):
            tag(resp, kw)
    else:
        def f(req, resp, **kw):
            tag(resp, kw)
    return f


class Res:
    pass


class FalsyBool:
    def __bool__(self):
        return False


class FalsyLen:
    def __len__(self):
        return 0


class FalsyDict(dict):
    pass


RES_KINDS = [Res, FalsyBool, FalsyLen, FalsyDict]      # kind 0 is truthy, the others falsy


def make_sink(ident, names, asgi, explicit):
    """a sink that tags itself with the kwargs it received; `explicit`: declared with one
    parameter per named group of its pattern instead of **kwargs"""
    if not explicit or not names:
        return make_responder('sink', ident, '', asgi)
    ns = {'json': json, 'ident': ident}
    args = ', '.join(names)
    body = ("    resp.set_header('X-Tag', json.dumps(['sink', ident, '', {%s}], sort_keys=True))\n"
            % ', '.join('%r: %s' % (n, n) for n in names))
    src = ('async ' if asgi else '') + 'def sink(req, resp, %s):\n' % args + body
    exec(src, ns)
    return ns['sink']


class RsrcMw:
    def process_resource(self, req, resp, resource, params):
        resp.set_header('X-Rsrc', '1')


class ARsrcMw:
    async def process_resource(self, req, resp, resource, params):
        resp.set_header('X-Rsrc', '1')


def gen_app(rng, methods):
    sbs = rng.random() < 0.5
    ops = []
    n = rng.randint(2, 10)
    rid = sid = 0
    for _ in range(n):
        r = rng.random()
        routes = [o for o in ops if o[0] == 0]
        if r < 0.45 and routes and rng.random() < 0.3:
            # re-register an existing template: same / different resource object x same / different suffix
            e = rng.choice(routes)
            suffix = e[4] if rng.random() < 0.4 else ([] if rng.random() < 0.4 else [rng.choice(['items', '', 'zzz'])])
            if rng.random() < 0.6:
                ops.append([0, e[1], rid, e[3], suffix, e[5], e[6]])          # the very same object
            else:
                attrs = [['on_' + m.lower() + sfx, 1] for m in rng.sample(methods, 3) for sfx in ('', '_items')
                         if rng.random() < 0.7]
                ops.append([0, e[1], rid, attrs, suffix, rng.choice([0, 0, 1, 3]), rid])
            rid += 1
            continue
        if r < 0.45:
            tpl = rng.choice(TEMPLATES) if rng.random() < 0.9 else rng.choice(BAD_TEMPLATES)
            k = rng.choice([0, 1, 2, 3, 5, len(methods)])
            impl = rng.sample(methods, min(k, len(methods)))
            if rng.random() < 0.3 and 'OPTIONS' not in impl:
                impl.append('OPTIONS')
            suffix = rng.choice(SUFFIXES)
            attrs = []
            for m in impl:
                if rng.random() < 0.7:
                    attrs.append(['on_' + m.lower(), 1])
                for sv in SUFFIX_VARIANTS:           # incl. names differing only in the case of the suffix
                    if rng.random() < (0.5 if sv == 'items' else 0.25):
                        attrs.append(['on_' + m.lower() + '_' + sv, 1])
            if rng.random() < 0.3:
                attrs.append(['on_patch', 0])           # present but not callable
            if rng.random() < 0.2:
                attrs.append(['on_get_items', 0])
            seen, uniq = set(), []
            for a in attrs:
                if a[0] not in seen:
                    seen.add(a[0])
                    uniq.append(a)
            ops.append([0, tpl, rid, uniq, [] if suffix is None else [suffix], rng.choice([0, 0, 0, 1, 2, 3]), rid])
            rid += 1
        elif r < 0.75:
            ops.append([1, sid, rng.choice(SINK_PATS), rng.random() < 0.5])
            sid += 1
        else:
            ops.append([2, sid, rng.choice(STATIC_PREFIXES), 1 if rng.random() < 0.4 else 0])
            sid += 1
    return sbs, ops


def build_real(falcon, asgi, sbs, ops, tmp, between=None):
    import falcon.asgi
    from falcon.routing import compiled
    from falcon.routing.util import SuffixedMethodNotFoundError
    App = falcon.asgi.App if asgi else falcon.App
    app = App(sink_before_static_route=sbs, middleware=[ARsrcMw() if asgi else RsrcMw()])
    results, static_info, objs = [], {}, {}
    for k, o in enumerate(ops):
        if between is not None:
            between(k, app, results, static_info)
        try:
            if o[0] == 0:
                oid = o[6] if len(o) > 6 else o[2]
                if oid not in objs:                      # several registrations may share one object
                    res = RES_KINDS[o[5] if len(o) > 5 else 0]()
                    for name, is_callable in o[3]:
                        setattr(res, name, make_responder('route', oid, name, asgi) if is_callable else 5)
                    objs[oid] = res
                res = objs[oid]
                kw = {}
                if o[4]:
                    kw['suffix'] = o[4][0]
                app.add_route(o[1], res, **kw)
            elif o[0] == 1:
                app.add_sink(make_sink(o[1], group_names(o[2]), asgi, len(o) > 3 and o[3]), sink_regex(o[2]))
            else:
                d = os.path.join(tmp, 'st%d_%d' % (int(asgi), o[1]))
                if not os.path.isdir(d):
                    os.makedirs(os.path.join(d, 'x'))
                    for f in FILES:
                        with open(os.path.join(d, f), 'w') as fh:
                            fh.write('static:%d' % o[1])
                    with open(os.path.join(d, 'fb.txt'), 'w') as fh:
                        fh.write('fallback:%d' % o[1])
                app.add_static_route(o[2], d, fallback_filename='fb.txt' if o[3] else None)
                static_info[o[1]] = (o[2] if o[2].endswith('/') else o[2] + '/', bool(o[3]))
            results.append(0)
        except SuffixedMethodNotFoundError:
            results.append(2)
        except compiled.UnacceptableRouteError:
            results.append(3)
        except ValueError:
            results.append(1)
    if between is not None:
        between(len(ops), app, results, static_info)
    return app, results, static_info


def observe(resp):
    """simulate_request result -> canonical observation"""
    return observe_(resp), resp.headers.get('X-Rsrc') == '1'


def observe_(resp):
    tag = resp.headers.get('X-Tag')
    if tag is not None and resp.status_code == 200:
        kind, ident, attr, kw = json.loads(tag)
        if kind == 'route':
            return ('route', ident, attr, tuple(sorted(kw.items())))
        return ('sink', ident, tuple(sorted(kw.items())))
    body = resp.text or ''
    if resp.status_code == 200 and body.startswith('static:'):
        return ('static-file', int(body.split(':')[1]))
    if resp.status_code == 200 and body.startswith('fallback:'):
        return ('static-fallback', int(body.split(':')[1]))
    allow = resp.headers.get('Allow')
    if resp.status_code == 200 and allow is not None:
        return ('options', allow)
    if resp.status_code == 405:
        return ('405', allow)
    return (str(resp.status_code),)


def expected_obs(out, method, path, static_info, obj_of=None):
    """model outcome (wire) -> the observation it predicts"""
    t = out[0]
    if t == 0:
        kw = tuple(sorted((common.wstr(k), common.wstr(v[1]) if v[0] == 0 else v[1]) for k, v in out[3]))
        return ('route', (obj_of or {}).get(out[1], out[1]), common.wstr(out[2]), kw)
    if t == 1:
        return ('options', ', '.join(common.wstr(m) for m in out[1]))
    if t == 2:
        return ('405', ', '.join(common.wstr(m) for m in out[1]))
    if t == 3:
        return ('400',)
    if t == 4:
        return ('sink', out[1], tuple(sorted((common.wstr(k), common.wstr(v[0]) if v else None) for k, v in out[2])))
    if t == 5:
        prefix, fb = static_info[out[1]]
        if method == 'OPTIONS':
            return ('options', 'GET')
        rel = path[len(prefix):]
        if rel.strip().rstrip('.') != rel or '//' in rel or '\\' in rel:
            return ('404',)                      # StaticRoute refuses the remainder before any fallback
        if method == 'HEAD' and (rel in FILES or fb):
            return ('200',)                      # body dropped: which file was served is not observable
        if rel in FILES:
            return ('static-file', out[1])
        if fb:
            return ('static-fallback', out[1])
        return ('404',)
    if t == 6:
        return ('404',)
    return ('broken',)


def obs_to_wire(obs, predicted, predicted_obs, obj_of=None):
    """observation -> outcome wire for the extracted oracle.  Where the observation cannot
    name the static route (OPTIONS answer, missing file) and is what the predicted static
    route would produce, the predicted id is used."""
    k = obs[0]
    if predicted[0] == 5 and obs == predicted_obs:
        return [5, predicted[1]]
    if k == 'route':
        # the responder names the resource OBJECT; the route id is the predicted one when that is
        # a registration of this object, else the first registration of the object
        obj_of = obj_of or {}
        rid = obs[1]
        if predicted[0] == 0 and obj_of.get(predicted[1], predicted[1]) == obs[1]:
            rid = predicted[1]
        else:
            rid = next((r for r, ob in sorted(obj_of.items()) if ob == obs[1]), obs[1])
        return [0, rid, obs[2], [[a, [1, b] if isinstance(b, int) and not isinstance(b, bool) else [0, str(b)]]
                                    for a, b in obs[3]]]
    if k == 'options':
        return [1, obs[1].split(', ') if obs[1] else []]
    if k == '405':
        return [2, (obs[1] or '').split(', ') if obs[1] else []]
    if k == '400':
        return [3]
    if k == 'sink':
        return [4, obs[1], [[a, [] if b is None else [b]] for a, b in obs[2]]]
    if k in ('static-file', 'static-fallback'):
        return [5, obs[1]]
    if k == '404':
        return [6]
    return [7]


def query_and_judge(ctx, model, testing, app, asgi, sbs, ops, results, static_info, pairs, tag):
    """serve the (method, path) pairs on the real app as it is now and judge every observation
    against the model of the registration history `ops` so far"""
    clean = True
    client = testing.TestClient(app)
    obs, rsrc_ran = [], []
    wire_ops = [o[:5] if o[0] == 0 else o[:3] if o[0] == 1 else o for o in ops]
    truthy = {o[2]: (len(o) <= 5 or o[5] == 0) for o in ops if o[0] == 0}
    with warnings.catch_warnings():
        warnings.simplefilter('ignore')      # wsgiref.validate warns about non-standard methods
        for m, p in pairs:
            r = client.simulate_request(m, p)
            ob, ran = observe(r)
            obs.append(ob)
            rsrc_ran.append(ran)
    # first pass: the model's predictions; second pass: the oracle on the observations
    qs = [[m, p, [7]] for m, p in pairs]
    out = model.run([0, sbs, wire_ops, qs])
    preds = [o[0] for o in out[1]]
    obj_of = {o[2]: (o[6] if len(o) > 6 else o[2]) for o in ops if o[0] == 0}
    exps = [expected_obs(o, q[0], q[1], static_info, obj_of) for o, q in zip(preds, qs)]
    qs2 = [[q[0], q[1], obs_to_wire(ob, pr, ex, obj_of)] for q, ob, pr, ex in zip(qs, obs, preds, exps)]
    out2 = model.run([0, sbs, wire_ops, qs2])
    detail0 = {'asgi': asgi, 'sbs': sbs, 'ops': ops, 'tag': tag}
    if out[0] != list(results):
        i = next(i for i, (a, b) in enumerate(zip(out[0], results)) if a != b)
        ctx.violation('correspondence-broken',
                      dict(detail0, broken='C02.registration_corr', op=ops[i], impl=results[i], model=out[0][i]),
                      found_input=False, key='corr-reg')
        return False, exps
    for q, ob, pr, ex, o2, ran in zip(qs, obs, preds, exps, out2[1], rsrc_ran):
        verdict, spec_fb = o2[1], o2[2]
        # process_resource middleware: the code runs it iff a route matched and the resource
        # object is truthy (`if resource:` in __call__) - outside C02's statement, modelled
        # as the code does
        want_ran = bool(o2[3]) and truthy.get(o2[3][0], True)
        if ran != want_ran:
            ctx.violation('correspondence-broken',
                          dict(detail0, broken='C02.process_resource_gating', method=q[0], path=q[1],
                               impl_ran=ran, expected_ran=want_ran), found_input=False, key='rsrc')
            clean = False
        detail = dict(detail0, method=q[0], path=q[1], impl=list(ob), model=list(ex))
        if verdict != 1:
            ctx.violation('dispatch-differs', detail, key='dispatch-%s-%s' % (ob[0], ex[0]))
            clean = False
        elif ob != ex:
            ctx.violation('correspondence-broken', dict(detail, broken='C02.observation_encoding'),
                          found_input=False, key='enc')
            clean = False
        # C02_dispatch_fallback_spec, executed: no route matched => the recency spec
        if spec_fb != [3] and q[0] != 'WEBSOCKET' and spec_fb != pr:
            ctx.violation('model-differs-from-spec', dict(detail, broken='C02.dispatch_fallback_spec',
                                                           spec=spec_fb, model_outcome=pr),
                          found_input=False, key='spec')
            clean = False
        ctx.count(ex[0])
    return clean, exps


def check_app(ctx, model, falcon, testing, sbs, ops, methods, paths, tmp, tag='gen', interleave=0):
    """interleave = n > 0: the app is NOT finished before the first request: n requests are served
    before the first registration and after every add_route / add_sink / add_static_route, each judged
    against the model of the registration history so far (replay: the recorded `served` pairs)"""
    clean = True
    for asgi in (False, True):
        if not interleave:
            app, results, static_info = build_real(falcon, asgi, sbs, ops, tmp)
            pairs = [(m, p) for m in methods for p in paths]
            ok, exps = query_and_judge(ctx, model, testing, app, asgi, sbs, ops, results, static_info, pairs, tag)
            clean = clean and ok
            ctx.note_case((tag, asgi, sbs, json.dumps(ops)),
                          any(e[0] in ('route', 'sink', 'static-file', 'static-fallback') for e in exps))
            continue
        allpairs = [(m, p) for m in methods for p in paths]
        state = {'ok': True, 'hit': False}

        def between(k, app, results, static_info):
            if not state['ok']:
                return
            pairs = [allpairs[(7 * k + 13 * j) % len(allpairs)] for j in range(interleave)]
            # always include requests that match no route (the fallback tables are consulted)
            pairs += [('GET', '/zz'), ('GET', '/s/f.txt'), ('POST', '/a/q')]
            ok, exps = query_and_judge(ctx, model, testing, app, asgi, sbs, ops[:k], results, static_info, pairs,
                                       tag + '-after-%d-registrations' % k)
            state['ok'] = ok
            state['hit'] = state['hit'] or any(e[0] in ('route', 'sink', 'static-file', 'static-fallback') for e in exps)
        build_real(falcon, asgi, sbs, ops, tmp, between=between)
        clean = clean and state['ok']
        ctx.note_case((tag, 'interleaved', asgi, sbs, json.dumps(ops)), state['hit'])
        ctx.count('interleaved-apps')
    return clean


API = SINK_PATS[10]
INTERLEAVED_APPS = [
    (True, [[2, 0, '/s', 0], [2, 1, '/zz', 1], [1, 2, lit('/s'), False], [2, 3, '/s/x', 0]]),
    (False, [[1, 0, lit('/zz'), False], [2, 1, '/s', 0], [2, 2, '/zz', 0], [0, '/s/x', 0, [['on_get', 1]], [], 0, 0], [2, 3, '/s', 1]]),
    (True, [[2, 0, '/', 0], [0, '/a/{x}', 0, [['on_post', 1]], [], 0, 0], [2, 1, '/a', 1]]),
]
FIXED_APPS = [
    # LIFO among sinks, sink vs static order, route masks both
    (True, [[1, 0, lit('/s'), False], [1, 1, lit('/s'), False], [2, 2, '/s', 0],
            [0, '/s/x', 0, [['on_get', 1]], [], 0]]),
    (False, [[1, 0, lit('/s'), False], [2, 1, '/s', 0], [2, 2, '/s', 1],
             [1, 3, seq(lit('/s/'), named('id', cls(NOTSLASH, PLUS))), True]]),
    (True, [[2, 0, '/s', 1], [1, 1, lit('/s/x'), False], [2, 2, '/s/x', 0], [1, 3, lit('/zz'), False]]),
    # the combined order must be rebuilt by add_sink as well: static route first, overlapping sink after
    (False, [[2, 0, '/s', 0], [1, 1, lit('/s'), False]]),
    (True, [[2, 0, '/s', 0], [1, 1, lit('/s'), False]]),
    (False, [[1, 0, lit('/s'), False], [2, 1, '/s', 0], [1, 2, lit('/s/x'), True]]),
    (True, [[0, '/a/{x}', 0, [['on_get', 1], ['on_post', 1], ['on_get_items', 1]], [], 0],
            [0, '/a/{x}/c', 1, [['on_get', 1], ['on_get_items', 1], ['on_delete_items', 1]], ['items'], 1],
            [0, '/a', 2, [['on_options', 1], ['on_put', 1]], [], 2], [1, 0, lit('/a'), False]]),
    (True, [[0, '/a', 0, [['on_websocket', 1], ['on_get', 1]], [], 3], [0, '/a/b', 1, [['on_get', 1]], ['zzz'], 0],
            [0, '/a/b', 2, [['on_patch', 0], ['on_get', 1]], [''], 1]]),
    # falsy resources still mask sinks / static routes, answer 405 / OPTIONS, deliver fields
    (True, [[1, 0, lit('/'), False], [2, 1, '/a', 1],
            [0, '/a/{x}', 0, [['on_get', 1]], [], 1], [0, '/a/{n:int}/c', 1, [['on_put', 1]], [], 3],
            [0, '/s', 2, [['on_get', 1], ['on_options', 1]], [], 2]]),
    # re-registration of a template: same / different resource object x same / different suffix, both orders;
    # the method map (405 / Allow / suffix isolation) must be the one of the LAST registration
    (True, [[0, '/a', 0, [['on_get', 1], ['on_post', 1], ['on_put_items', 1], ['on_get_items', 1]], [], 0, 0],
            [0, '/a', 1, [['on_get', 1], ['on_post', 1], ['on_put_items', 1], ['on_get_items', 1]], ['items'], 0, 0]]),
    (True, [[0, '/a', 0, [['on_get', 1], ['on_post', 1], ['on_put_items', 1], ['on_get_items', 1]], ['items'], 0, 0],
            [0, '/a', 1, [['on_get', 1], ['on_post', 1], ['on_put_items', 1], ['on_get_items', 1]], [], 0, 0]]),
    (True, [[0, '/a/{x}', 0, [['on_get', 1], ['on_delete_items', 1]], [], 1, 0],
            [0, '/a/{x}', 1, [['on_get', 1], ['on_delete_items', 1]], ['items'], 1, 0],
            [0, '/a/{x}', 2, [['on_get', 1], ['on_delete_items', 1]], ['items'], 1, 0],
            [1, 0, lit('/a'), False]]),
    (False, [[0, '/a', 0, [['on_get', 1]], [], 0, 0], [0, '/a', 1, [['on_post', 1], ['on_post_items', 1]], [], 0, 1],
             [0, '/a', 2, [['on_post', 1], ['on_post_items', 1]], ['items'], 0, 1], [0, '/a', 3, [['on_get', 1]], [], 0, 0]]),
    (True, [[0, '/a', 0, [['on_get', 1], ['on_get_items', 1]], ['items'], 0, 0], [0, '/a/b', 1, [['on_get', 1], ['on_get_items', 1]], [], 0, 0],
            [0, '/a', 2, [['on_get', 1], ['on_get_items', 1]], ['zzz'], 0, 0], [0, '/a/b', 3, [['on_get', 1], ['on_get_items', 1]], ['items'], 0, 0]]),
    # suffixes are case-sensitive: on_get_byID and on_get_byid are different responders
    (True, [[0, '/a', 0, [['on_get_byID', 1], ['on_get_byid', 1], ['on_post_byid', 1], ['on_put_V2', 1]], ['byID'], 0, 0],
            [0, '/a/b', 1, [['on_get_byID', 1], ['on_get_byid', 1], ['on_post_byid', 1], ['on_put_V2', 1]], ['byid'], 0, 0],
            [0, '/a/{x}', 2, [['on_get_byID', 1], ['on_get_byid', 1], ['on_post_byid', 1], ['on_put_V2', 1]], ['V2'], 0, 0],
            [0, '/s', 3, [['on_get_byID', 1], ['on_get_byid', 1], ['on_post_byid', 1], ['on_put_V2', 1]], ['v2'], 0, 0],
            [0, '/s/x', 4, [['on_get_a_1', 1], ['on_get_A_1', 1]], ['A_1'], 0, 4]]),
    # named groups that do not take part arrive as None, for explicit-parameter and **kwargs sinks
    (True, [[1, 0, API, True], [1, 1, SINK_PATS[11], True], [1, 2, SINK_PATS[12], False]]),
    (False, [[1, 0, API, False], [1, 1, SINK_PATS[13], True], [1, 2, SINK_PATS[14], True]]),
]


def rx_corr(ctx, model):
    """spat_match vs re.match(...).groupdict() for every pattern of the menu on a path list"""
    import itertools
    segs = ['', 'a', 's', 'f', 'api', 'v2', 'v', 'users', '12', 'x', 'ab1', 'a.b', 't']
    paths = set(PATHS)
    for k in (1, 2, 3):
        for c in itertools.product(segs, repeat=k):
            paths.add('/' + '/'.join(c))
    paths = sorted(paths)
    n = 0
    for i, p in enumerate(SINK_PATS):
        rxc = re.compile(sink_regex(p))
        # one single-sink app per pattern: the model's outcome for an unrouted path is the sink match
        out = model.run([0, 1, [[1, 0, p]], [['GET', q, [7]] for q in paths]])
        for q, o in zip(paths, out[1]):
            m = rxc.match(q)
            want = None if m is None else m.groupdict()
            got = None
            if o[0][0] == 4:
                got = {common.wstr(k): (common.wstr(v[0]) if v else None) for k, v in o[0][2]}
            n += 1
            if got != want:
                ctx.violation('correspondence-broken', {'broken': 'C02.spat_match_corr', 'pattern': sink_regex(p),
                                                        'path': q, 're': want, 'model': got},
                              found_input=False, key='rx-corr')
                break
        ctx.note_case(('rx', i), True)
    ctx.count('spat_match-vs-re', n)


def main(ctx):
    import falcon
    from falcon import testing
    import falcon.constants as constants
    model = common.Model(ctx)
    rx_corr(ctx, model)
    ctx.cov['rule'] = ('one case = one generated app (routes with random method subsets / suffixes, sinks, static '
                       'routes, sink_before_static_route) on one of WSGI / ASGI, queried with ~10 methods x 25 paths; '
                       'every observation (what ran, kwargs, status, Allow) judged by the extracted dispatch_oracle. '
                       'non-trivial = some query reached a responder, sink or static file.')
    ctx.assumptions += [
        'route lookup is the C01 model (dfs) with the default converter table restricted to int / path without arguments',
        'sink patterns are generated from two shapes (escaped prefix; prefix + one named [^/]+ group + literal); '
        'arbitrary regexes are a parameter of the recency theorem',
        'an OPTIONS answer or a missing file cannot name the static route that ran; such observations are attributed to '
        'the predicted static route when they are exactly what it would produce',
    ]
    allm = list(constants.COMBINED_METHODS)
    base_methods = ['GET', 'OPTIONS', 'POST', 'DELETE', 'HEAD', 'WEBSOCKET', 'FOO']
    tmp = tempfile.mkdtemp(prefix='c02-static.', dir='/dev/shm' if os.path.isdir('/dev/shm') else None)
    try:
        for o in common.corpus('C02'):
            replay(ctx, o)
        for sbs, ops in FIXED_APPS:
            check_app(ctx, model, falcon, testing, sbs, ops, base_methods + ['PROPFIND', 'PUT'], PATHS, tmp, tag='fixed')
        # registrations AFTER the first request: requests interleaved with add_route / add_sink / add_static_route
        for sbs, ops in FIXED_APPS + INTERLEAVED_APPS:
            check_app(ctx, model, falcon, testing, sbs, ops, base_methods, PATHS, tmp, tag='fixed-il', interleave=6)
        for i in range(30 if ctx.tier == 'quick' else 300):
            if ctx.time_left(60 if ctx.tier == 'quick' else 400) < 0:
                break
            sbs, ops = gen_app(ctx.rng, allm)
            check_app(ctx, model, falcon, testing, sbs, ops, base_methods, PATHS, tmp, tag='gen-il', interleave=6)
        n_apps = 150 if ctx.tier == 'quick' else 1500
        budget = 110 if ctx.tier == 'quick' else 900
        for i in range(n_apps):
            if ctx.time_left(budget) < 0:
                break
            sbs, ops = gen_app(ctx.rng, allm)
            methods = base_methods + ctx.rng.sample(allm, 3)
            paths = PATHS if ctx.tier != 'quick' else ctx.rng.sample(PATHS, 16)
            check_app(ctx, model, falcon, testing, sbs, ops, methods, paths, tmp)
            if i < 2:
                ctx.sample({'sbs': sbs, 'ops': ops[:5]})
            shutil.rmtree(tmp, True)
            os.makedirs(tmp)
    finally:
        shutil.rmtree(tmp, True)


def replay(ctx, obj):
    import falcon
    from falcon import testing
    if 'ops' not in obj:
        return main(ctx)
    model = common.Model(ctx)
    tmp = tempfile.mkdtemp(prefix='c02-static.')
    try:
        methods = [obj['method']] if 'method' in obj else ['GET', 'OPTIONS', 'POST']
        paths = [obj['path']] if 'path' in obj else PATHS
        if 'after-' in str(obj.get('tag', '')):
            check_app(ctx, model, falcon, testing, obj['sbs'], obj['ops'], ['GET', 'OPTIONS', 'POST', 'DELETE', 'HEAD', 'WEBSOCKET', 'FOO'],
                      PATHS, tmp, tag='replay-il', interleave=6)
            check_app(ctx, model, falcon, testing, obj['sbs'], obj['ops'], methods, paths, tmp, tag='replay')
        else:
            check_app(ctx, model, falcon, testing, obj['sbs'], obj['ops'], methods, paths, tmp, tag='replay')
    finally:
        shutil.rmtree(tmp, True)
