"""C02 — dispatch: correspondence of falcon.App / falcon.asgi.App request dispatch with the Coq
model (coq/C02/Model.v) and evaluation of the proved oracle (coq/C02/Spec.v).

Generated apps (WSGI and ASGI, both values of sink_before_static_route): routes with resources
implementing arbitrary subsets of COMBINED_METHODS (with / without suffix, custom on_options,
non-callable attributes), sinks with prefix / named-group patterns and static routes in random
interleaving.  Every responder, sink and static file tags itself; observations are
(what ran, kwargs, status, Allow)."""
import json
import os
import re
import shutil
import tempfile
import warnings

import common

TEMPLATES = ['/a', '/a/b', '/a/{x}', '/a/{x}/c', '/{y}', '/a/{n:int}', '/f/{p:path}', '/s/x', '/s',
             '/a/{x}.json', '/st/f.txt', '/a/{k}/t', '/']
BAD_TEMPLATES = ['a', '/a//b', '/a/{x}/{x}', '/q/{z:nope}', '/q/{class}']
SINK_PATS = [[0, '/s'], [0, '/'], [0, '/a'], [0, '/s/x'], [0, '/zz'], [1, '/s/', 'id', ''], [1, '/a/', 'k', '/t'],
             [1, '/', 'top', '/x'], [0, '/a.b'], [1, '/f/', 'u', '']]
STATIC_PREFIXES = ['/s', '/s/x', '/a', '/st/', '/', '/f', 'bad']
PATHS = ['/a', '/a/b', '/a/q', '/a/q/c', '/a/12', '/s', '/s/x', '/s/x/f.txt', '/s/f.txt', '/zz', '/', '/a/q/t',
         '/f/u/v', '/a/q.json', '/s/', '/st/f.txt', '/a/f.txt', '/f.txt', '/x/f.txt', '/a/x/f.txt', '/f', '/q/x',
         '/aXb', '/f/f.txt', '/a/q\n']
FILES = ['f.txt', 'x/f.txt']
SUFFIXES = [None, None, None, 'items', '', 'zzz']


def sink_regex(p):
    if p[0] == 0:
        return re.escape(p[1])
    return re.escape(p[1]) + '(?P<%s>[^/]+)' % p[2] + re.escape(p[3])


def make_responder(kind, ident, attr, asgi):
    def tag(resp, kw):
        resp.set_header('X-Tag', json.dumps([kind, ident, attr, kw], sort_keys=True))
    if asgi:
        async def f(req, resp, **kw):
            tag(resp, kw)
    else:
        def f(req, resp, **kw):
            tag(resp, kw)
    return f


class Res:
    pass


def gen_app(rng, methods):
    sbs = rng.random() < 0.5
    ops = []
    n = rng.randint(2, 10)
    rid = sid = 0
    for _ in range(n):
        r = rng.random()
        if r < 0.45:
            tpl = rng.choice(TEMPLATES) if rng.random() < 0.9 else rng.choice(BAD_TEMPLATES)
            k = rng.choice([0, 1, 2, 3, 5, len(methods)])
            impl = rng.sample(methods, min(k, len(methods)))
            if rng.random() < 0.3 and 'OPTIONS' not in impl:
                impl.append('OPTIONS')
            suffix = rng.choice(SUFFIXES)
            attrs = []
            for m in impl:
                if rng.random() < 0.7:
                    attrs.append(['on_' + m.lower(), 1])
                if rng.random() < 0.5:
                    attrs.append(['on_' + m.lower() + '_items', 1])
            if rng.random() < 0.3:
                attrs.append(['on_patch', 0])           # present but not callable
            if rng.random() < 0.2:
                attrs.append(['on_get_items', 0])
            seen, uniq = set(), []
            for a in attrs:
                if a[0] not in seen:
                    seen.add(a[0])
                    uniq.append(a)
            ops.append([0, tpl, rid, uniq, [] if suffix is None else [suffix]])
            rid += 1
        elif r < 0.75:
            ops.append([1, sid, rng.choice(SINK_PATS)])
            sid += 1
        else:
            ops.append([2, sid, rng.choice(STATIC_PREFIXES), 1 if rng.random() < 0.4 else 0])
            sid += 1
    return sbs, ops


def build_real(falcon, asgi, sbs, ops, tmp):
    import falcon.asgi
    from falcon.routing import compiled
    from falcon.routing.util import SuffixedMethodNotFoundError
    App = falcon.asgi.App if asgi else falcon.App
    app = App(sink_before_static_route=sbs)
    results, static_info = [], {}
    for o in ops:
        try:
            if o[0] == 0:
                res = Res()
                for name, is_callable in o[3]:
                    setattr(res, name, make_responder('route', o[2], name, asgi) if is_callable else 5)
                kw = {}
                if o[4]:
                    kw['suffix'] = o[4][0]
                app.add_route(o[1], res, **kw)
            elif o[0] == 1:
                app.add_sink(make_responder('sink', o[1], '', asgi), sink_regex(o[2]))
            else:
                d = os.path.join(tmp, 'st%d_%d' % (int(asgi), o[1]))
                if not os.path.isdir(d):
                    os.makedirs(os.path.join(d, 'x'))
                    for f in FILES:
                        with open(os.path.join(d, f), 'w') as fh:
                            fh.write('static:%d' % o[1])
                    with open(os.path.join(d, 'fb.txt'), 'w') as fh:
                        fh.write('fallback:%d' % o[1])
                app.add_static_route(o[2], d, fallback_filename='fb.txt' if o[3] else None)
                static_info[o[1]] = (o[2] if o[2].endswith('/') else o[2] + '/', bool(o[3]))
            results.append(0)
        except SuffixedMethodNotFoundError:
            results.append(2)
        except compiled.UnacceptableRouteError:
            results.append(3)
        except ValueError:
            results.append(1)
    return app, results, static_info


def observe(resp):
    """simulate_request result -> canonical observation"""
    tag = resp.headers.get('X-Tag')
    if tag is not None and resp.status_code == 200:
        kind, ident, attr, kw = json.loads(tag)
        if kind == 'route':
            return ('route', ident, attr, tuple(sorted(kw.items())))
        return ('sink', ident, tuple(sorted(kw.items())))
    body = resp.text or ''
    if resp.status_code == 200 and body.startswith('static:'):
        return ('static-file', int(body.split(':')[1]))
    if resp.status_code == 200 and body.startswith('fallback:'):
        return ('static-fallback', int(body.split(':')[1]))
    allow = resp.headers.get('Allow')
    if resp.status_code == 200 and allow is not None:
        return ('options', allow)
    if resp.status_code == 405:
        return ('405', allow)
    return (str(resp.status_code),)


def expected_obs(out, method, path, static_info):
    """model outcome (wire) -> the observation it predicts"""
    t = out[0]
    if t == 0:
        kw = tuple(sorted((common.wstr(k), common.wstr(v[1]) if v[0] == 0 else v[1]) for k, v in out[3]))
        return ('route', out[1], common.wstr(out[2]), kw)
    if t == 1:
        return ('options', ', '.join(common.wstr(m) for m in out[1]))
    if t == 2:
        return ('405', ', '.join(common.wstr(m) for m in out[1]))
    if t == 3:
        return ('400',)
    if t == 4:
        return ('sink', out[1], tuple(sorted((common.wstr(k), common.wstr(v)) for k, v in out[2])))
    if t == 5:
        prefix, fb = static_info[out[1]]
        if method == 'OPTIONS':
            return ('options', 'GET')
        rel = path[len(prefix):]
        if rel.strip().rstrip('.') != rel or '//' in rel or '\\' in rel:
            return ('404',)                      # StaticRoute refuses the remainder before any fallback
        if method == 'HEAD' and (rel in FILES or fb):
            return ('200',)                      # body dropped: which file was served is not observable
        if rel in FILES:
            return ('static-file', out[1])
        if fb:
            return ('static-fallback', out[1])
        return ('404',)
    if t == 6:
        return ('404',)
    return ('broken',)


def obs_to_wire(obs, predicted, predicted_obs):
    """observation -> outcome wire for the extracted oracle.  Where the observation cannot
    name the static route (OPTIONS answer, missing file) and is what the predicted static
    route would produce, the predicted id is used."""
    k = obs[0]
    if predicted[0] == 5 and obs == predicted_obs:
        return [5, predicted[1]]
    if k == 'route':
        return [0, obs[1], obs[2], [[a, [1, b] if isinstance(b, int) and not isinstance(b, bool) else [0, str(b)]]
                                    for a, b in obs[3]]]
    if k == 'options':
        return [1, obs[1].split(', ') if obs[1] else []]
    if k == '405':
        return [2, (obs[1] or '').split(', ') if obs[1] else []]
    if k == '400':
        return [3]
    if k == 'sink':
        return [4, obs[1], [[a, b] for a, b in obs[2]]]
    if k in ('static-file', 'static-fallback'):
        return [5, obs[1]]
    if k == '404':
        return [6]
    return [7]


def check_app(ctx, model, falcon, testing, sbs, ops, methods, paths, tmp, tag='gen'):
    clean = True
    for asgi in (False, True):
        app, results, static_info = build_real(falcon, asgi, sbs, ops, tmp)
        client = testing.TestClient(app)
        obs = []
        with warnings.catch_warnings():
            warnings.simplefilter('ignore')      # wsgiref.validate warns about non-standard methods
            for m in methods:
                for p in paths:
                    r = client.simulate_request(m, p)
                    obs.append(observe(r))
        # first pass: the model's predictions; second pass: the oracle on the observations
        qs = [[m, p, [7]] for m in methods for p in paths]
        out = model.run([0, sbs, ops, qs])
        preds = [o[0] for o in out[1]]
        exps = [expected_obs(o, q[0], q[1], static_info) for o, q in zip(preds, qs)]
        qs2 = [[q[0], q[1], obs_to_wire(ob, pr, ex)] for q, ob, pr, ex in zip(qs, obs, preds, exps)]
        out2 = model.run([0, sbs, ops, qs2])
        detail0 = {'asgi': asgi, 'sbs': sbs, 'ops': ops, 'tag': tag}
        if out[0] != results:
            i = next(i for i, (a, b) in enumerate(zip(out[0], results)) if a != b)
            ctx.violation('correspondence-broken',
                          dict(detail0, broken='C02.registration_corr', op=ops[i], impl=results[i], model=out[0][i]),
                          found_input=False, key='corr-reg')
            clean = False
            continue
        for q, ob, pr, ex, o2 in zip(qs, obs, preds, exps, out2[1]):
            verdict, spec_fb = o2[1], o2[2]
            detail = dict(detail0, method=q[0], path=q[1], impl=list(ob), model=list(ex))
            if verdict != 1:
                ctx.violation('dispatch-differs', detail, key='dispatch-%s-%s' % (ob[0], ex[0]))
                clean = False
            elif ob != ex:
                ctx.violation('correspondence-broken', dict(detail, broken='C02.observation_encoding'),
                              found_input=False, key='enc')
                clean = False
            # C02_dispatch_fallback_spec, executed: no route matched => the recency spec
            if spec_fb != [3] and q[0] != 'WEBSOCKET' and spec_fb != pr:
                ctx.violation('model-differs-from-spec', dict(detail, broken='C02.dispatch_fallback_spec',
                                                               spec=spec_fb, model_outcome=pr),
                              found_input=False, key='spec')
                clean = False
            ctx.count(ex[0])
        ctx.note_case((tag, asgi, sbs, json.dumps(ops)), any(e[0] in ('route', 'sink', 'static-file', 'static-fallback')
                                                                 for e in exps))
    return clean


FIXED_APPS = [
    # LIFO among sinks, sink vs static order, route masks both
    (True, [[1, 0, [0, '/s']], [1, 1, [0, '/s']], [2, 2, '/s', 0], [0, '/s/x', 0, [['on_get', 1]], []]]),
    (False, [[1, 0, [0, '/s']], [2, 1, '/s', 0], [2, 2, '/s', 1], [1, 3, [1, '/s/', 'id', '']]]),
    (True, [[2, 0, '/s', 1], [1, 1, [0, '/s/x']], [2, 2, '/s/x', 0], [1, 3, [0, '/zz']]]),
    (True, [[0, '/a/{x}', 0, [['on_get', 1], ['on_post', 1], ['on_get_items', 1]], []],
            [0, '/a/{x}/c', 1, [['on_get', 1], ['on_get_items', 1], ['on_delete_items', 1]], ['items']],
            [0, '/a', 2, [['on_options', 1], ['on_put', 1]], []], [1, 0, [0, '/a']]]),
    (True, [[0, '/a', 0, [['on_websocket', 1], ['on_get', 1]], []], [0, '/a/b', 1, [['on_get', 1]], ['zzz']],
            [0, '/a/b', 2, [['on_patch', 0], ['on_get', 1]], ['']]]),
]


def main(ctx):
    import falcon
    from falcon import testing
    import falcon.constants as constants
    model = common.Model(ctx)
    ctx.cov['rule'] = ('one case = one generated app (routes with random method subsets / suffixes, sinks, static '
                       'routes, sink_before_static_route) on one of WSGI / ASGI, queried with ~10 methods x 25 paths; '
                       'every observation (what ran, kwargs, status, Allow) judged by the extracted dispatch_oracle. '
                       'non-trivial = some query reached a responder, sink or static file.')
    ctx.assumptions += [
        'route lookup is the C01 model (dfs) with the default converter table restricted to int / path without arguments',
        'sink patterns are generated from two shapes (escaped prefix; prefix + one named [^/]+ group + literal); '
        'arbitrary regexes are a parameter of the recency theorem',
        'an OPTIONS answer or a missing file cannot name the static route that ran; such observations are attributed to '
        'the predicted static route when they are exactly what it would produce',
    ]
    allm = list(constants.COMBINED_METHODS)
    base_methods = ['GET', 'OPTIONS', 'POST', 'DELETE', 'HEAD', 'WEBSOCKET', 'FOO']
    tmp = tempfile.mkdtemp(prefix='c02-static.', dir='/dev/shm' if os.path.isdir('/dev/shm') else None)
    try:
        for o in common.corpus('C02'):
            replay(ctx, o)
        for sbs, ops in FIXED_APPS:
            check_app(ctx, model, falcon, testing, sbs, ops, base_methods + ['PROPFIND', 'PUT'], PATHS, tmp, tag='fixed')
        n_apps = 150 if ctx.tier == 'quick' else 1500
        budget = 110 if ctx.tier == 'quick' else 900
        for i in range(n_apps):
            if ctx.time_left(budget) < 0:
                break
            sbs, ops = gen_app(ctx.rng, allm)
            methods = base_methods + ctx.rng.sample(allm, 3)
            paths = PATHS if ctx.tier != 'quick' else ctx.rng.sample(PATHS, 16)
            check_app(ctx, model, falcon, testing, sbs, ops, methods, paths, tmp)
            if i < 2:
                ctx.sample({'sbs': sbs, 'ops': ops[:5]})
            shutil.rmtree(tmp, True)
            os.makedirs(tmp)
    finally:
        shutil.rmtree(tmp, True)


def replay(ctx, obj):
    import falcon
    from falcon import testing
    if 'ops' not in obj:
        return main(ctx)
    model = common.Model(ctx)
    tmp = tempfile.mkdtemp(prefix='c02-static.')
    try:
        methods = [obj['method']] if 'method' in obj else ['GET', 'OPTIONS', 'POST']
        paths = [obj['path']] if 'path' in obj else PATHS
        check_app(ctx, model, falcon, testing, obj['sbs'], obj['ops'], methods, paths, tmp, tag='replay')
    finally:
        shutil.rmtree(tmp, True)
