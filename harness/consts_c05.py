"""Tables for C05 regenerated from the staged falcon modules (values, not text)."""


def _code(x):
    # the sets hold ints (asgi, and wsgi after fixes/C05-*.patch) or status lines (wsgi before)
    return int(x) if isinstance(x, int) else int(str(x)[:3])


def emit(A, nlist, strlit, strlist):
    import falcon.app
    import falcon.asgi.app
    import falcon.status_codes as sc
    import falcon.util.misc as misc
    from falcon import constants
    A('(* falcon/app.py, falcon/asgi/app.py *)')
    A('Definition wsgi_bodiless : list N := %s.' % nlist(sorted(_code(x) for x in falcon.app._BODILESS_STATUS_CODES)))
    A('Definition wsgi_typeless : list N := %s.' % nlist(sorted(_code(x) for x in falcon.app._TYPELESS_STATUS_CODES)))
    A('Definition wsgi_sets_by_code : bool := %s.' % (
        'true' if all(isinstance(x, int) for x in falcon.app._BODILESS_STATUS_CODES | falcon.app._TYPELESS_STATUS_CODES)
        else 'false'))
    A('Definition asgi_bodiless : list N := %s.' % nlist(sorted(_code(x) for x in falcon.asgi.app._BODILESS_STATUS_CODES)))
    A('Definition asgi_typeless : list N := %s.' % nlist(sorted(_code(x) for x in falcon.asgi.app._TYPELESS_STATUS_CODES)))
    A('(* falcon/status_codes.py: HTTP_<code> for every defined code *)')
    rows = []
    for code in range(100, 1000):
        line = getattr(sc, 'HTTP_%d' % code, None)
        if line is not None:
            rows.append('(%d, %s)' % (code, strlit(line)))
    A('Definition status_lines : list (N * list N) := [%s].' % '; '.join(rows))
    A('Definition default_reason : list N := %s.' % strlit(misc._DEFAULT_HTTP_REASON))
    A('Definition default_media_type : list N := %s.' % strlit(constants.DEFAULT_MEDIA_TYPE))
    A('Definition sse_media_type : list N := %s.' % strlit('text/event-stream'))
