"""C15 — response headers as a case-insensitive map; cookies; URI-bearing helpers.

Correspondence of falcon.Response / falcon.asgi.Response with the Coq model (coq/C15/Model.v)
on random operation histories, and evaluation of the proved oracles (coq/C15/Spec.v) on what
the implementation returned / emitted."""
import asyncio
import datetime as dtm
import email.utils
import http.cookies
import json
import time
import unicodedata
import urllib.parse

import common

PROPS = ['cache_control', 'content_location', 'content_length', 'content_range', 'content_type',
         'downloadable_as', 'viewable_as', 'etag', 'expires', 'last_modified', 'location',
         'retry_after', 'vary', 'accept_ranges']
ERR = {0: 'HeaderNotSupported', 1: 'KeyError', 2: 'ValueError', 3: 'IndexError',
       4: 'UnicodeEncodeError', 5: 'CookieError', 6: 'TypeError'}

NAME_POOL = ['Content-Type', 'X-Foo', 'X-Bar', 'Set-Cookie', 'Link', 'Vary', 'ETag', 'Location',
             'Content-Length', 'Cache-Control', 'Content-Disposition', 'Content-Location',
             'Retry-After', 'Accept-Ranges', 'Expires', 'Last-Modified', 'Content-Range', 'X-A_b.c',
             'Set-Cookie2', 'Cookie', 'set-cooki', '']


# --------------------------------------------------------------------------- generators

def rcase(rng, s):
    return ''.join(c.upper() if rng.random() < 0.5 else c.lower() for c in s)


def gen_name(rng):
    return rcase(rng, rng.choice(NAME_POOL))


def gen_text(rng, latin1=True, maxlen=8):
    n = rng.randint(0, maxlen)
    hi = 255 if latin1 and rng.random() < 0.3 else 126
    return ''.join(chr(rng.randint(32, hi)) for _ in range(n))


UNI = ['é', 'ß', 'ü', '中', '日', '\U0001d7cf', '½', '⁄', 'Å', 'ö', '́', 'ı', 'K']
CTRL = [chr(c) for c in range(0x20)] + ['\x7f']     # every C0 control and DEL: escaped as %0X .. %1F, %7F
URI_ALPHA = list('abcXYZ019-._~:/?#[]@!$&\'()*+,;=% "<>\\^`{|}AFaf') + UNI + CTRL


def gen_uri_text(rng, maxlen=10, surrogates=False):
    n = rng.randint(0, maxlen)
    r = rng.random()
    if r < 0.15:     # looks escaped: only allowed chars and %XX
        return ''.join(rng.choice(['%41', '%2f', '%C3%A9', 'a', '/', '-', '%7e', '?x=1', '%00'])
                       for _ in range(n))
    if r < 0.25:     # almost escaped
        return ''.join(rng.choice(['%41', '%4', '%', '%zz', 'a', '/', '%G1', '%1g']) for _ in range(n))
    s = ''.join(rng.choice(URI_ALPHA) for _ in range(n))
    if surrogates and rng.random() < 0.03:
        s += '\ud800'
    return s


def gen_pv(rng):
    if rng.random() < 0.15:
        z = rng.choice([0, 1, -1, 7, 10, 42, 100, 255, 256, 1000, 99999, -12345, 2 ** 40, 10 ** 18, 10 ** 25])
        return z, [1, z]
    s = gen_text(rng)
    return s, [0, s]


def fmt_cookie_date(dt):
    """Independent rendering of the Expires text (RFC 1123 GMT date)."""
    if dt.tzinfo is None:
        dt = dt.replace(tzinfo=dtm.timezone.utc)
    else:
        dt = dt.astimezone(dtm.timezone.utc)
    return email.utils.format_datetime(dt, usegmt=True)


def gen_datetime(rng, aware_ok=True):
    dt = dtm.datetime(rng.randint(1971, 2099), rng.randint(1, 12), rng.randint(1, 28),
                      rng.randint(0, 23), rng.randint(0, 59), rng.randint(0, 59))
    if aware_ok and rng.random() < 0.5:
        dt = dt.replace(tzinfo=dtm.timezone(dtm.timedelta(minutes=rng.choice([0, 60, -300, 330, 765]))))
    return dt


COOKIE_NAMES = ['a', 'b', 'sid', 'A', 'x-y', 'tok_1', 'a.b', '!#$%&\'*+-.^_`|~', 'a:b', 'path', 'Expires',
                'Max-Age', 'secure', 'a b', 'a=b', 'a;b', '', 'é', 'a,b', '"a"', 'partitioned', 'comment']
COOKIE_VALUE_ALPHA = list('abcXYZ019 ;,="\\\'%+-._~/:@!#$&()*<>?[]^`{|}') + ['é', '\t', '\x7f']
SAMESITE = [None, '', 'Lax', 'lax', 'STRICT', 'strict', 'None', 'nOnE', 'bogus', 'laxx']
DOMAINS = [None, '', 'example.com', '.example.org', 'é.com']
PATHS = [None, '', '/', '/a/b', '/é']
MAXAGES = [None, 0, 1, 300, -5, 2 ** 40, 15.3, 0.0, 0.5, -2.75, 1e3, '15', ' 7 ', '1_000', '+3', '-4', '',
           'abc', '1.5', '0', '1__0', '_1', '\x1f7', '\xa08']


def wire_maxage(x):
    if x is None:
        return []
    if isinstance(x, bool):
        raise AssertionError
    if isinstance(x, int):
        return [[0, x]]
    if isinstance(x, float):
        n, d = x.as_integer_ratio()
        return [[1, n, d]]
    return [[2, x]]


def opt(x):
    return [] if x is None else [x]


def gen_cookie_args(rng):
    name = rng.choice(COOKIE_NAMES[:8]) if rng.random() < 0.8 else rng.choice(COOKIE_NAMES)
    value = ''.join(rng.choice(COOKIE_VALUE_ALPHA[:-3] if rng.random() < 0.9 else COOKIE_VALUE_ALPHA)
                    for _ in range(rng.randint(0, 6)))
    expires = gen_datetime(rng) if rng.random() < 0.3 else None
    max_age = rng.choice(MAXAGES) if rng.random() < 0.5 else None
    domain = rng.choice(DOMAINS)
    path = rng.choice(PATHS)
    secure = rng.choice([None, True, False])
    http_only = rng.choice([True, False])
    same_site = rng.choice(SAMESITE)
    partitioned = rng.choice([True, False])
    kw = dict(expires=expires, max_age=max_age, domain=domain, path=path, secure=secure,
              http_only=http_only, same_site=same_site, partitioned=partitioned)
    wire = [name, value, opt(fmt_cookie_date(expires) if expires else None), wire_maxage(max_age),
            opt(domain), opt(path), opt(secure), http_only, opt(same_site), partitioned]
    return (name, value, kw), wire


def gen_propval(rng, p):
    """-> (python value, wire propval)"""
    if p in ('content_length', 'retry_after'):
        if rng.random() < 0.6:
            z = rng.choice([0, 1, 42, 1000, 123456789, -1])
            return z, [1, z]
        s = gen_text(rng)
        return s, [0, s]
    if p in ('content_type', 'accept_ranges'):
        s = rng.choice(['text/plain', 'application/json', 'bytes', 'none', gen_text(rng)])
        return s, [0, s]
    if p in ('cache_control', 'vary'):
        if rng.random() < 0.2:
            s = gen_text(rng, maxlen=4)
            return s, [0, s]
        l = [rng.choice(['no-cache', 'max-age=3', 'Accept', '*', 'X-A', '', gen_text(rng, maxlen=4)])
             for _ in range(rng.randint(0, 3))]
        return (tuple(l) if rng.random() < 0.5 else l), [2, l]
    if p in ('content_location', 'location'):
        s = gen_uri_text(rng, surrogates=True)
        return s, [0, s]
    if p == 'content_range':
        def part():
            if rng.random() < 0.7:
                z = rng.choice([0, 1, 99, 100, 12345])
                return z, [1, z]
            s = rng.choice(['*', '5', 'x'])
            return s, [0, s]
        n = rng.choice([3, 3, 3, 4, 4, 2, 5, 0])
        parts = [part() for _ in range(n)]
        if n == 4:
            parts[3] = (lambda u: (u, [0, u]))(rng.choice(['bytes', 'items', '']))
        return tuple(x[0] for x in parts), [3, [x[1] for x in parts]]
    if p in ('downloadable_as', 'viewable_as'):
        s = gen_filename(rng)
        return s, [5, s, unicodedata.normalize('NFKD', s)]
    if p == 'etag':
        s = rng.choice(['abc', '"abc"', 'W/"x"', '', '"', 'a"', gen_text(rng, latin1=False)])
        return s, [0, s]
    if p in ('expires', 'last_modified'):
        # the text the map must hold is rendered independently (a naive datetime IS UTC, an aware one is
        # converted), not by the function under test
        d = gen_datetime(rng)
        return d, [4, fmt_cookie_date(d)]
    raise AssertionError(p)


FN_ALPHA = list('abcXYZ019 .-_,;="\\\'%()[]@') + UNI


def gen_filename(rng):
    n = rng.randint(0, 8)
    if rng.random() < 0.5:
        return ''.join(rng.choice(FN_ALPHA[:-len(UNI)]) for _ in range(n))
    return ''.join(rng.choice(FN_ALPHA) for _ in range(n))


def gen_link(rng):
    target = gen_uri_text(rng, surrogates=True)
    rel = rng.choice(['next', 'prev', 'http://example.com/ext-type', 'alternate http://example.com/é x',
                      'http://a/b  https://c/d\te', 'a//b', 'x y', ' //', gen_uri_text(rng, 6)])
    title = rng.choice([None, None, 'Title', '', 'A "q" t'])
    title_star = rng.choice([None, None, ('en', 'Tïtle ü'), ('', gen_uri_text(rng, 6)), ('de', 'a%41'), ('fr', 'plain')])
    anchor = rng.choice([None, None, '/x y', gen_uri_text(rng, 6)])
    hreflang = rng.choice([None, None, 'en', ['en', 'de'], [], ('fr',)])
    type_hint = rng.choice([None, None, 'text/html'])
    crossorigin = rng.choice([None, None, None, 'anonymous', 'Use-Credentials', 'ANONYMOUS', 'bogus', ''])
    ext = rng.choice([None, None, [('a', 'b')], [], [('x', '1'), ('y', '"q"')]])
    kw = dict(title=title, title_star=title_star, anchor=anchor, hreflang=hreflang, type_hint=type_hint,
              crossorigin=crossorigin, link_extension=ext)
    wire = [target, rel, opt(title), opt(list(title_star) if title_star is not None else None), opt(anchor),
            opt(None if hreflang is None else ([0, hreflang] if isinstance(hreflang, str) else [1, list(hreflang)])),
            opt(type_hint), opt(crossorigin), opt(None if ext is None else [list(x) for x in ext])]
    return (target, rel, kw), wire


def gen_op(rng):
    """-> (py_op, wire_op)"""
    r = rng.random()
    if r < 0.16:
        n = gen_name(rng)
        return ('get', n), [0, n]
    if r < 0.30:
        n = gen_name(rng)
        v, w = gen_pv(rng)
        return ('set', n, v), [1, n, w]
    if r < 0.42:
        n = gen_name(rng)
        v, w = gen_pv(rng)
        return ('append', n, v), [2, n, w]
    if r < 0.50:
        n = gen_name(rng)
        return ('delete', n), [3, n]
    if r < 0.56:
        items = []
        for _ in range(rng.randint(0, 4)):
            n = gen_name(rng) if rng.random() < 0.9 else rcase(rng, 'set-cookie')
            v, w = gen_pv(rng)
            items.append((n, v, w))
        as_dict = rng.random() < 0.3 and len({i[0] for i in items}) == len(items)
        return ('set_many', [(n, v) for n, v, w in items], as_dict), [4, [[n, w] for n, v, w in items]]
    if r < 0.61:
        p = rng.choice(PROPS)
        return ('prop_get', p), [5, PROPS.index(p)]
    if r < 0.73:
        p = rng.choice(PROPS)
        if rng.random() < 0.15:
            return ('prop_set', p, None), [6, PROPS.index(p), []]
        v, w = gen_propval(rng, p)
        return ('prop_set', p, v), [6, PROPS.index(p), [w]]
    if r < 0.75:
        p = rng.choice(PROPS)
        return ('prop_del', p), [7, PROPS.index(p)]
    if r < 0.80:
        a, w = gen_link(rng)
        return ('link', a), [8, w]
    if r < 0.90:
        a, w = gen_cookie_args(rng)
        return ('set_cookie', a), [9, w]
    if r < 0.94:
        name = rng.choice(COOKIE_NAMES[:8]) if rng.random() < 0.85 else rng.choice(COOKIE_NAMES)
        ss = rng.choice(['Lax', 'Lax', 'Strict', '', 'None'])
        d = rng.choice(DOMAINS[:4])
        p = rng.choice(PATHS[:4])
        return ('unset_cookie', name, ss, d, p), [10, name, ss, opt(d), opt(p)]
    if r < 0.96:
        return ('headers',), [11]
    mt = rng.choice([None, 'application/json', 'text/x'])
    if r < 0.98:
        return ('emit_w', mt), [12, opt(mt)]
    return ('emit_a', mt), [13, opt(mt)]


# --------------------------------------------------------------------------- implementation side

def err_code(e):
    from falcon.errors import HeaderNotSupported
    if isinstance(e, HeaderNotSupported):
        return 0
    if isinstance(e, http.cookies.CookieError):
        return 5
    if isinstance(e, KeyError):
        return 1
    if isinstance(e, UnicodeEncodeError):
        return 4
    if isinstance(e, ValueError):
        return 2
    if isinstance(e, IndexError):
        return 3
    if isinstance(e, TypeError):
        return 6
    return 99


def parse_cookie_line(line):
    """Independent reader of a Set-Cookie line (RFC 6265 set-cookie-string)."""
    parts = line.split('; ')
    name, _, coded = parts[0].partition('=')
    m = {'value': http.cookies._unquote(coded), 'expires': None, 'maxage': None, 'domain': None,
         'path': None, 'secure': False, 'httponly': False, 'samesite': None, 'partitioned': False,
         'unknown': []}
    for p in parts[1:]:
        k, eq, v = p.partition('=')
        kl = k.lower()
        if kl == 'expires' and eq:
            m['expires'] = v
        elif kl == 'max-age' and eq:
            try:
                m['maxage'] = int(v)
            except ValueError:
                m['unknown'].append(p)
        elif kl == 'domain' and eq:
            m['domain'] = v
        elif kl == 'path' and eq:
            m['path'] = v
        elif kl == 'samesite' and eq:
            m['samesite'] = v
        elif kl == 'secure' and not eq:
            m['secure'] = True
        elif kl == 'httponly' and not eq:
            m['httponly'] = True
        elif kl == 'partitioned' and not eq:
            m['partitioned'] = True
        else:
            m['unknown'].append(p)
    if not m['unknown']:
        del m['unknown']
    return name, coded, m


def past_date(text):
    try:
        d = email.utils.parsedate_to_datetime(text)
    except (TypeError, ValueError):
        return False
    if d.tzinfo is None:
        d = d.replace(tzinfo=dtm.timezone.utc)
    return d < dtm.datetime.now(dtm.timezone.utc)


def items_of(raw, asgi):
    out = []
    for n, v in raw:
        if asgi:
            n, v = n.decode('latin-1'), v.decode('latin-1')
        if n.lower() == 'set-cookie':
            out.append(('set-cookie-line', n, v))
        else:
            out.append(('plain', n, v))
    return out


def apply_op(resp, o, asgi):
    """Run one operation on a real Response; -> observation in canonical form."""
    k = o[0]
    try:
        if k == 'get':
            return ('val', resp.get_header(o[1]))
        if k == 'set':
            resp.set_header(o[1], o[2])
        elif k == 'append':
            resp.append_header(o[1], o[2])
        elif k == 'delete':
            resp.delete_header(o[1])
        elif k == 'set_many':
            resp.set_headers(dict(o[1]) if o[2] else list(o[1]))
        elif k == 'prop_get':
            return ('val', getattr(resp, o[1]))
        elif k == 'prop_set':
            setattr(resp, o[1], o[2])
        elif k == 'prop_del':
            delattr(resp, o[1])
        elif k == 'link':
            resp.append_link(o[1][0], o[1][1], **o[1][2])
        elif k == 'set_cookie':
            resp.set_cookie(o[1][0], o[1][1], **o[1][2])
        elif k == 'unset_cookie':
            resp.unset_cookie(o[1], samesite=o[2], domain=o[3], path=o[4])
        elif k == 'headers':
            return ('headers', list(resp.headers.items()))
        elif k == 'emit_w':
            return ('items', items_of(resp._wsgi_headers(o[1]), False))
        elif k == 'emit_a':
            if not asgi:
                return ('skip',)
            return ('items', items_of(resp._asgi_headers(o[1]), True))
        return ('none',)
    except Exception as e:  # noqa: BLE001 - the class is the observation
        return ('err', err_code(e), type(e).__name__)


# --------------------------------------------------------------------------- model side

def py_morsel(m):
    exp = common.wopt(m[1])
    return {'value': common.wstr(m[0]),
            'expires': None if exp is None else (common.wstr(exp[1]) if exp[0] == 0 else ('delta', exp[1])),
            'maxage': common.wopt(m[2]), 'domain': common.wopt(m[3], common.wstr),
            'path': common.wopt(m[4], common.wstr), 'secure': bool(m[5]), 'httponly': bool(m[6]),
            'samesite': common.wopt(m[7], common.wstr), 'partitioned': bool(m[8])}


def wire_morsel(m):
    e = m['expires']
    return [m['value'], opt(None if e is None else ([1, e[1]] if isinstance(e, tuple) else [0, e])),
            opt(m['maxage']), opt(m['domain']), opt(m['path']), m['secure'], m['httponly'],
            opt(m['samesite']), m['partitioned']]


def py_obs(v):
    t = v[0]
    if t == 0:
        return ('none',)
    if t == 1:
        return ('val', common.wopt(v[1], common.wstr))
    if t == 2:
        return ('err', v[1], ERR.get(v[1]))
    if t == 3:
        return ('headers', [(common.wstr(k), common.wstr(x)) for k, x in v[1]])
    items = []
    for it in v[1]:
        if it[0] == 0:
            items.append(('plain', common.wstr(it[1]), common.wstr(it[2])))
        else:
            items.append(('cookie', common.wstr(it[1]), common.wstr(it[2]), py_morsel(it[3])))
    return ('items', items)


def canon_items(impl_items, model_items):
    """Parse the implementation's Set-Cookie lines into the model's item vocabulary.  The jar
    cookies are emitted last: the final k Set-Cookie lines (k = number of jar cookies the model
    holds) are parsed as cookies, earlier ones are raw (appended) lines and stay text."""
    k = sum(1 for i in model_items if i[0] == 'cookie')
    sc = [idx for idx, it in enumerate(impl_items) if it[0] == 'set-cookie-line']
    jar = set(sc[len(sc) - k:]) if k else set()
    mcookies = [i for i in model_items if i[0] == 'cookie']
    out = []
    j = 0
    for idx, it in enumerate(impl_items):
        if it[0] == 'plain':
            out.append(it)
        elif idx in jar:
            name, coded, m = parse_cookie_line(it[2])
            mi = mcookies[j] if j < len(mcookies) else None
            j += 1
            if mi is not None and isinstance(mi[3]['expires'], tuple) and m['expires'] is not None \
                    and past_date(m['expires']):
                m['expires'] = ('delta', -1)
            out.append(('cookie', it[1], name, m))
        else:
            out.append(('plain', it[1], it[2]))
    return out


# --------------------------------------------------------------------------- main

def run_histories(ctx, model, falcon, n_hist, fixed=True):
    import falcon.asgi
    rng = ctx.rng
    hists = []
    for h in range(n_hist):
        sd = rng.random() < 0.6
        asgi = rng.random() < 0.5
        ops = [gen_op(rng) for _ in range(rng.randint(1, 14))]
        if not asgi:   # _asgi_headers exists on falcon.asgi.Response only
            ops = [((('emit_w', o[1]), [12, w[1]]) if o[0] == 'emit_a' else (o, w)) for o, w in ops]
        # read everything back at the end, in random casing
        for n in rng.sample(NAME_POOL, 6):
            n = rcase(rng, n)
            ops.append((('get', n), [0, n]))
        ops.append((('headers',), [11]))
        mt = rng.choice([None, 'application/json'])
        ops.append((('emit_a', mt), [13, opt(mt)]) if asgi else (('emit_w', mt), [12, opt(mt)]))
        hists.append((sd, asgi, ops))
    outs = model.run_many([[0, fixed, sd, [w for _, w in ops]] for sd, asgi, ops in hists])
    spec_cases = []
    results = []
    for (sd, asgi, ops), out in zip(hists, outs):
        opts = falcon.ResponseOptions()
        opts.secure_cookies_by_default = sd
        resp = (falcon.asgi.Response if asgi else falcon.Response)(options=opts)
        impl = [apply_op(resp, o, asgi) for o, _ in ops]
        mobs = [py_obs(v) for v in out[0]]
        results.append((impl, mobs))
        names = [o[1] for o, _ in ops if o[0] == 'get']
        # the map as it stands when the trailing reads happen (before resp.headers / emission)
        spec_cases.append([8, fixed, [w for _, w in ops[:-2]], names])
    # the case-insensitive map spec, read at the end of the history at every name that was read
    # (only the trailing reads are comparable: they happen after all mutations)
    specs = model.run_many(spec_cases)
    return hists, results, specs


def judge_histories(ctx, model, hists, results, specs, tag=''):
    oracle_cases, oracle_meta = [], []
    for hi, ((sd, asgi, ops), (impl, mobs), spec) in enumerate(zip(hists, results, specs)):
        nontrivial = False
        n_get = 0
        gets = [i for i, (o, _) in enumerate(ops) if o[0] == 'get']
        trailing = gets[-6:]
        for i, ((o, w), a, b) in enumerate(zip(ops, impl, mobs)):
            kind = o[0]
            ctx.count(kind)
            if a == ('skip',):
                continue
            if a[0] == 'items' and b[0] == 'items':
                a = ('items', canon_items(a[1], b[1]))
                nontrivial = nontrivial or len(a[1]) > 1
            if a[0] == 'err' and b[0] == 'err':
                same = a[1] == b[1]
            else:
                same = a == b
            if kind == 'get':
                # binding: the case-insensitive map spec, for the trailing reads
                if i in trailing:
                    sv = common.wopt(spec[gets.index(i)], common.wstr)
                    if o[1].lower() == 'set-cookie':
                        ok = a[0] == 'err' and a[1] == 0
                    else:
                        ok = a == ('val', sv)
                    if not ok:
                        ctx.violation('ci-map-read-differs',
                                      {'what': 'get_header(%r) after the history differs from the case-insensitive map' % o[1],
                                       'history': hist_json(sd, asgi, ops), 'op_index': i, 'impl': repr(a),
                                       'spec': sv}, key='ci-map' + tag)
                        continue
            # ---- oracles on the implementation's observation (also when it differs from the model)
            if kind in ('emit_w', 'emit_a') and a[0] == 'items' and b[0] == 'items':
                expected = [[x[1], x[2]] for x in a[1] if x[0] == 'plain' and x[1].lower() != 'set-cookie']
                # what the map must hold = resp.headers read just before (trailing) if any
                if i == len(ops) - 1 and impl[i - 1][0] == 'headers':
                    expected = [[k, v] for k, v in impl[i - 1][1]]
                    if o[1] is not None and not any(k == 'content-type' for k, v in expected):
                        expected.append(['content-type', o[1]])
                n_lines = sum(1 for x in b[1] if x[0] == 'cookie') + \
                    sum(1 for x in b[1] if x[0] == 'plain' and x[1] == 'set-cookie')
                witems = [[0, x[1], x[2]] if x[0] == 'plain' else [1, x[1], x[2], wire_morsel(x[3])] for x in a[1]]
                oracle_cases.append([6, expected, n_lines, witems])
                oracle_meta.append(('emit', hi, i))
            if not same:
                ctx.count('disagree')
                detail = {'what': 'operation %d (%s) observed differently on falcon.%sResponse and the model'
                                  % (i, kind, 'asgi.' if asgi else ''),
                          'history': hist_json(sd, asgi, ops), 'op_index': i, 'impl': repr(a), 'model': repr(b)}
                disagreements.append((kind, detail))
                break
        ctx.note_case(('hist' + tag, hi, ctx.seed), nontrivial)
    return oracle_cases, oracle_meta


disagreements = []


def hist_json(sd, asgi, ops):
    return {'secure_default': sd, 'asgi': asgi, 'ops': json.loads(json.dumps([w for _, w in ops])),
            'py_ops': [repr(o) for o, _ in ops]}


def main(ctx):
    import falcon
    import falcon.asgi
    model = common.Model(ctx)
    ctx.assumptions += [
        'cookie VALUE text is modelled and proved (coq/C15/CookieText.v: http.cookies._quote / _unquote, tables from the live '
        'module, cross-checked exhaustively on short strings); the ATTRIBUTE text of Morsel.OutputString is still read back '
        'with an independent splitter',
        'unicodedata.normalize(NFKD) and datetime.strftime / falcon.util.dt_to_http are oracles (their text is '
        'passed to the model as data)',
        'decode-back is proved against C10\'s model of falcon.util.uri.decode (tied to the real function by the C10 check) and '
        'coq/lib/Utf8.v; the harness also runs the real uri.decode on every emitted URI value / ext-value',
        'header names are ASCII (str.lower modelled on ASCII only)',
    ]
    for o in common.corpus('C15'):
        replay(ctx, o, quiet=True)
    quick = ctx.tier == 'quick'
    ctx.cov['rule'] = ('random operation histories (1-14 ops + read-back of 6 names in random casing, resp.headers, '
                       'and the emitted list) on falcon.Response and falcon.asgi.Response vs the extracted model, '
                       'operation by operation; trailing reads judged by the case-insensitive map spec, emitted '
                       'lists by emit_oracle, cookies by cookie_attrs_ok / expired, URI-bearing values by '
                       'uri_out_ok / cd_out_ok; end-to-end WSGI and ASGI exchanges. non-trivial = the emitted '
                       'list has more than one entry / the encoder escaped something')
    n_hist = 4000 if quick else 40000
    hists, results, specs = run_histories(ctx, model, falcon, n_hist)
    oracle_cases, oracle_meta = judge_histories(ctx, model, hists, results, specs)
    run_emit_oracles(ctx, model, hists, results, oracle_cases, oracle_meta)
    cookie_checks(ctx, model, falcon, 3000 if quick else 30000)
    cookie_order_checks(ctx, model, falcon, 300 if quick else 3000)
    cookie_text_corr(ctx, model, falcon)
    cookie_echo_checks(ctx, model, falcon, 1500 if quick else 15000)
    uri_checks(ctx, model, falcon, 6000 if quick else 60000)
    e2e(ctx, model, falcon, 150 if quick else 1500)
    timezone_checks(ctx, model, falcon)
    report_disagreements(ctx)


def report_disagreements(ctx):
    seen = set()
    for kind, detail in disagreements:
        if kind in seen:
            continue
        seen.add(kind)
        ctx.violation('correspondence-broken', dict(detail, broken='C15.step_corr(%s)' % kind),
                      found_input=any(v['found_input'] for v in ctx.violations), key='corr-' + kind)


def run_emit_oracles(ctx, model, hists, results, oracle_cases, oracle_meta):
    idx = [i for i, c in enumerate(oracle_cases) if c is not None]
    outs = model.run_many([oracle_cases[i] for i in idx])
    names = {1: 'a header of the map is not emitted exactly once with its value',
             2: 'an emitted plain header is not in the map', 3: 'an emitted name is not lower-case',
             4: 'number of Set-Cookie lines differs from raw lines + cookies'}
    for i, out in zip(idx, outs):
        if out:
            _, hi, oi = oracle_meta[i]
            sd, asgi, ops = hists[hi]
            ctx.violation('emission-clause-violated',
                          {'history': hist_json(sd, asgi, ops), 'op_index': oi, 'clauses_failed': out,
                           'clause_names': [names[c] for c in out], 'impl': repr(results[hi][0][oi])},
                          key='emit-%s' % out)


# --------------------------------------------------------------------------- cookies

def cookie_checks(ctx, model, falcon, n, tag=''):
    """Single set_cookie / unset_cookie calls and short cookie-only histories: every cookie line is
    judged by the decision table (cookie_attrs_ok) / by `expired`, and echoed back through the
    request API."""
    import falcon.asgi
    from falcon import testing
    rng = ctx.rng
    cases, meta = [], []
    for ci in range(n):
        sd = rng.random() < 0.5
        asgi = rng.random() < 0.5
        opts = falcon.ResponseOptions()
        opts.secure_cookies_by_default = sd
        resp = (falcon.asgi.Response if asgi else falcon.Response)(options=opts)
        # a short prefix on the same names, so that a call meets an existing cookie
        hist = []
        for _ in range(rng.randint(0, 3)):
            if rng.random() < 0.7:
                a, w = gen_cookie_args(rng)
                hist.append((('set_cookie', a), [9, w]))
            else:
                name = rng.choice(COOKIE_NAMES[:4])
                hist.append((('unset_cookie', name, 'Lax', None, None), [10, name, 'Lax', [], []]))
        last_set = rng.random() < 0.7
        if last_set:
            a, w = gen_cookie_args(rng)
            if rng.random() < 0.7:
                a = (rng.choice(COOKIE_NAMES[:4]),) + a[1:]
                w = [a[0]] + w[1:]
            hist.append((('set_cookie', a), [9, w]))
        else:
            name = rng.choice(COOKIE_NAMES[:4])
            ss = rng.choice(['Lax', 'Strict', '', 'None'])
            d, p = rng.choice(DOMAINS[:4]), rng.choice(PATHS[:4])
            hist.append((('unset_cookie', name, ss, d, p), [10, name, ss, opt(d), opt(p)]))
        obs = [apply_op(resp, o, asgi) for o, _ in hist]
        lines = [v for n_, v in resp._wsgi_headers() if n_ == 'set-cookie']
        parsed = {}
        for line in lines:
            name, coded, m = parse_cookie_line(line)
            parsed[name] = (coded, m, line)
        o = hist[-1][0]
        ctx.count('cookie-' + o[0])
        key = ('cookie' + tag, ci, ctx.seed)
        if obs[-1] != ('none',):
            ctx.note_case(key, False)
            ctx.count('cookie-call-raised')
            # an exception of a documented class only
            if o[0] == 'set_cookie' and obs[-1][1] not in (1, 2):
                ctx.violation('set-cookie-undocumented-exception',
                              {'history': [repr(x) for x, _ in hist], 'impl': repr(obs[-1])}, key='cookie-exc')
            continue
        ctx.note_case(key, True)
        name = o[1][0] if o[0] == 'set_cookie' else o[1]
        if name not in parsed or sum(1 for l in lines if parse_cookie_line(l)[0] == name) != 1:
            ctx.violation('cookie-line-missing-or-duplicated',
                          {'history': [repr(x) for x, _ in hist], 'wire': json.loads(json.dumps([w for _, w in hist])),
                           'secure_default': sd, 'lines': lines}, key='cookie-line')
            continue
        coded, m, line = parsed[name]
        if 'unknown' in m:
            ctx.violation('cookie-attrs-differ', {'history': [repr(x) for x, _ in hist], 'line': line,
                                                  'wire': json.loads(json.dumps([w for _, w in hist])),
                                                  'secure_default': sd, 'asgi': asgi,
                                                  'unknown_attributes': m['unknown']}, key='cookie-unknown')
            continue
        if o[0] == 'set_cookie':
            cases.append([4, sd, hist[-1][1][1], wire_morsel(m)])
        else:
            if m['expires'] is not None and past_date(m['expires']):
                m['expires'] = ('delta', -1)
            cases.append([5, wire_morsel(m)])
        meta.append((hist, sd, asgi, line, m, coded))
    outs = model.run_many(cases)
    for (hist, sd, asgi, line, m, coded), out in zip(meta, outs):
        o = hist[-1][0]
        if not out:
            kind = 'cookie-attrs-differ' if o[0] == 'set_cookie' else 'unset-cookie-not-expired'
            ctx.violation(kind, {'what': ('the Set-Cookie line does not carry exactly the requested attributes'
                                          if o[0] == 'set_cookie' else 'the unset cookie is not expired'),
                                 'history': [repr(x) for x, _ in hist],
                                 'wire': json.loads(json.dumps([w for _, w in hist])),
                                 'secure_default': sd, 'asgi': asgi, 'line': line, 'observed': repr(m),
                                 'shape': shape_of(hist)},
                          key=kind + shape_of(hist))
            continue
        if o[0] == 'set_cookie' and TOKEN_RE.match(o[1][0]):
            # echo back through the request API (differential); names that are RFC 6265 tokens
            # (http.cookies also accepts ':', which is a separator)
            name, value = o[1][0], o[1][1]
            hdr = '%s=%s' % (name, coded)
            try:
                if asgi:
                    req = testing.create_asgi_req(headers={'Cookie': hdr})
                else:
                    req = testing.create_req(headers={'Cookie': hdr})
                got = (req.cookies.get(name), req.get_cookie_values(name))
            except Exception as e:  # noqa: BLE001
                got = repr(e)
            ctx.count('cookie-echo')
            if got != (value, [value]):
                ctx.violation('cookie-echo-differs',
                              {'what': 'a cookie written by set_cookie and echoed in a Cookie header is read back '
                                       'differently by the request API', 'name': name, 'value': value,
                               'cookie_header': hdr, 'asgi': asgi, 'read_back': repr(got)},
                              key='cookie-echo')
    ctx.sample({'cookie_line': meta[0][3]} if meta else {})


# --------------------------------------------------------------------------- cookie value echo (systematic)

def systematic_cookie_values(rng, n_random):
    """Cookie values built systematically from the characters http.cookies quotes or escapes (and the ones
    an unquoter can mistake for escapes): backslash, double quote, comma, semicolon, space, controls, DEL,
    and in particular a backslash followed by 1-3 digits (octal-looking or not), doubled backslashes before
    digits, and quoted-looking values."""
    import itertools
    vals = ['C:\\backup\\2024\\101', '\\177', '\\012', '\\377', '\\400', '\\000', '\\101', '2\\101', '"\\101"', '\\"',
            '\\\\101', '\\\\\\101', 'a\\', '\\', '\\\\', '"', '""', '"a"', '"a', 'a"', '\\"a\\"', 'a b', ' a', 'a ', 'a,b',
            'a;b', 'a=b', 'k=v; x=y', '%5C101', '\\x41', '\\u0041', '\\8', '\\89', '\\789', '\\0', '\\00', '\\0000',
            'é', 'a\xa0b', '€', '\U0001f600',      # not ASCII-encodable: set_cookie raises ValueError (counted, not echoed)
            '\\1010', '0\\1', 'a\\134b', '\\134101', '"\\134"', 'a\\\\"b', '\\"\\101\\"', "'\\101'"]
    vals += [chr(c) for c in range(0x80)]
    spec = ['\\', '"', ',', ';', ' ', '0', '1', '3', '7', '8', '9', 'a', '\x00', '\x1f', '\x7f', '\t', '=', '%']
    vals += [a + b for a in spec for b in spec]
    for ln in (1, 2, 3):
        for d in itertools.product('0123456789', repeat=ln):
            vals.append('\\' + ''.join(d))
    for d in itertools.product('0134789', repeat=3):
        ds = ''.join(d)
        vals.append('\\\\' + ds)
        vals.append('x\\' + ds + 'y')
    for d in itertools.product('0137', repeat=3):
        vals.append('"\\' + ''.join(d) + '"')
        vals.append(''.join(d) + '\\' + ''.join(d) + '\\' + ''.join(d))
    for _ in range(n_random):
        vals.append(''.join(rng.choice(spec) for _ in range(rng.randint(3, 9))))
    seen, out = set(), []
    for v in vals:
        if v not in seen:
            seen.add(v)
            out.append(v)
    return out


def cookie_echo_checks(ctx, model, falcon, n_random):
    """Binding clause 'echoed back in a Cookie header, is read by the request API as the same name and
    value': set_cookie(name, value) on a real Response -> the emitted Set-Cookie line -> its name=value
    pair placed in a Cookie header (alone and between two other cookies) -> req.cookies /
    req.get_cookie_values on WSGI and ASGI requests.  Every observation (value written, emitted text, value
    read) is judged by the proved oracle echo_oracle (C15_echo_oracle_sound, C15_cookie_value_echo):
    clause 1 = the value read is not the value written (binding); 2 = the emitted text is not the modelled
    http.cookies._quote; 3 = the value read is not what the modelled reader makes of the emitted text."""
    import falcon.asgi
    from falcon import testing
    rng = ctx.rng
    vals = systematic_cookie_values(rng, n_random)
    names = ['c', 'sid', 'tok_1', "!#$%&'*+-.^_`|~"]
    cases, meta = [], []
    for vi, value in enumerate(vals):
        name = names[vi % len(names)] if vi % 7 == 0 else 'c'
        asgi_resp = vi % 2 == 1
        resp = (falcon.asgi.Response if asgi_resp else falcon.Response)()
        try:
            resp.set_cookie(name, value)
        except ValueError:
            ctx.count('cookie-echo-value-rejected')
            if value.isascii():      # settable = ASCII-encodable: nothing else may be refused
                ctx.violation('set-cookie-undocumented-exception', {'value': value, 'what': 'an ASCII value was refused'},
                              key='cookie-echo-refused')
            continue
        if not value.isascii():
            ctx.violation('cookie-echo-differs', {'value': value, 'what': 'a non-ASCII value was accepted by set_cookie'},
                          found_input=False, key='cookie-echo-accepted')
            continue
        raw = resp._asgi_headers() if asgi_resp else resp._wsgi_headers()
        lines = [(v.decode('latin-1') if isinstance(v, bytes) else v) for k, v in raw
                 if (k.decode('latin-1') if isinstance(k, bytes) else k).lower() == 'set-cookie']
        line = lines[0]
        coded = line[len(name) + 1:].split('; ')[0] if line.startswith(name + '=') else None
        if coded is None:
            ctx.violation('cookie-line-missing-or-duplicated', {'name': name, 'value': value, 'line': line}, key='cookie-echo-line')
            continue
        pair = '%s=%s' % (name, coded)
        for shape, hdr in (('alone', pair), ('between', 'x=1; %s; y="q"' % pair)):
            for kind in ('wsgi', 'asgi'):
                try:
                    req = (testing.create_asgi_req if kind == 'asgi' else testing.create_req)(headers={'Cookie': hdr})
                    got = req.cookies.get(name)
                    got_all = req.get_cookie_values(name)
                except Exception as e:  # noqa: BLE001
                    got, got_all = None, repr(e)
                ctx.count('cookie-echo-systematic')
                ctx.note_case(('cookie-echo', value, shape, kind), '\\' in value or '"' in value)
                if got is None or got_all != [got]:
                    ctx.violation('cookie-echo-differs',
                                  {'what': 'the echoed cookie is missing, raised, or req.cookies and get_cookie_values disagree',
                                   'name': name, 'value': value, 'cookie_header': hdr, 'interface': kind,
                                   'read_back': repr((got, got_all))}, key='cookie-echo-sys')
                    continue
                cases.append([14, value, coded, got])
                meta.append((name, value, line, hdr, kind, coded, got))
    outs = model.run_many(cases)
    names_ = {1: 'the value read is not the value written', 2: 'the emitted text is not http.cookies._quote(value) as modelled',
              3: 'the value read is not what the modelled reader (strip, guard, _unquote) makes of the emitted text'}
    for (name, value, line, hdr, kind, coded, got), fails in zip(meta, outs):
        if not fails:
            continue
        detail = {'name': name, 'value': value, 'value_codepoints': [ord(c) for c in value], 'set_cookie_line': line,
                  'cookie_header': hdr, 'interface': kind, 'read_back': got, 'clauses_failed': fails,
                  'clause_names': [names_[c] for c in fails]}
        if 1 in fails:
            ctx.violation('cookie-echo-differs',
                          dict(detail, what='a cookie written by set_cookie and echoed in a Cookie header is read back '
                                            'differently by the request API'), key='cookie-echo-sys')
        else:
            ctx.violation('correspondence-broken',
                          dict(detail, broken='C15.cookie_text_corr (quote / parse_cookie_value vs http.cookies / '
                                              '_parse_cookie_header)'), found_input=False, key='cookie-echo-corr-%s' % fails)


def cookie_text_corr(ctx, model, falcon):
    """coq/C15/CookieText.v against the stdlib functions falcon relies on (the installed CPython's
    http.cookies._quote / _unquote) and against request_helpers._parse_cookie_header: exhaustively on all
    strings of length <= 4 over a 14-character alphabet, and on random longer ones."""
    import itertools
    from falcon.util import http_cookies
    from falcon import request_helpers
    rng = ctx.rng
    alpha = ['\\', '"', ';', ',', ' ', '0', '1', '3', '7', '8', 'a', 'é', '\x00', '\x7f']
    strs = []
    for ln in range(0, 5 if ctx.tier == 'quick' else 6):
        strs += [''.join(t) for t in itertools.product(alpha, repeat=ln)]
    more = alpha + ['\n', '\t', '2', '4', '9', '=', 'Ā', '€', 'Z', ':', '/', '(', '\xa0', '\x85', '\x1c', '\x0b']
    for _ in range(6000 if ctx.tier == 'quick' else 60000):
        strs.append(''.join(rng.choice(more) for _ in range(rng.randint(5, 14))))
    for _ in range(3000 if ctx.tier == 'quick' else 30000):   # quoted-looking inputs for _unquote
        strs.append('"' + ''.join(rng.choice(more) for _ in range(rng.randint(0, 10))) + '"')
    q = model.run_many([[11, x] for x in strs])
    u = model.run_many([[12, x] for x in strs])
    # the value reader: the text after '=' of a single cookie-pair (no ';' inside: split(';') comes first)
    pv = [x for x in strs if ';' not in x]
    p = model.run_many([[13, x] for x in pv])
    for x, a, b in zip(strs, q, u):
        ctx.count('cookie-text-quote-unquote')
        ctx.note_case(('cookie-text', x), '\\' in x or '"' in x)
        rq, ru = http_cookies._quote(x), http_cookies._unquote(x)
        if common.wstr(a) != rq or common.wstr(b) != ru:
            ctx.violation('correspondence-broken',
                          {'broken': 'C15.cookie_text_corr (CookieText.quote / unquote vs http.cookies._quote / _unquote)',
                           'input': x, 'input_codepoints': [ord(c) for c in x], '_quote': rq, 'model_quote': common.wstr(a),
                           '_unquote': ru, 'model_unquote': common.wstr(b)}, found_input=False, key='cookie-text')
    for x, a in zip(pv, p):
        ctx.count('cookie-text-parse-value')
        real = request_helpers._parse_cookie_header('c=' + x).get('c', [None])[0]
        if common.wstr(a) != real:
            ctx.violation('correspondence-broken',
                          {'broken': 'C15.cookie_text_corr (CookieText.parse_cookie_value vs _parse_cookie_header)',
                           'input': x, 'input_codepoints': [ord(c) for c in x], 'real': real, 'model': common.wstr(a)},
                          found_input=False, key='cookie-text-parse')


import re  # noqa: E402
TOKEN_RE = re.compile(r"^[!#$%&'*+\-.^_`|~0-9A-Za-z]+$")


def shape_of(hist):
    """Call-site shape of a cookie history, for known-finding matchers."""
    prev = [o for o, _ in hist[:-1]]
    last = hist[-1][0]
    name = last[1][0] if last[0] == 'set_cookie' else last[1]
    before = [p[0] for p in prev if (p[1][0] if p[0] == 'set_cookie' else p[1]) == name]
    s = last[0] + ('-after-' + '-'.join(before) if before else '-fresh')
    if last[0] == 'set_cookie' and last[1][2]['max_age'] in (0, 0.0):
        s += '-maxage0'
    return s


# --------------------------------------------------------------------------- cookie emission order

def cookie_order_checks(ctx, model, falcon, n):
    """Long cookie histories (20-80 calls on a handful of names, re-sets, unsets, failing calls, raw
    Set-Cookie lines in between) on falcon.Response and falcon.asgi.Response; the emitted list is taken
    after EVERY call.  (a) the whole run vs the model, ordered (step correspondence); (b) binding: the
    proved order oracle cookie_order_ok on the REAL lists around every successful call -- a cookie set
    again moves to the end of the Set-Cookie block, an unset one keeps its place
    (C15_set_cookie_order, C15_unset_cookie_order, C15_emitted_cookie_order)."""
    import falcon.asgi
    rng = ctx.rng
    names = ['a', 'b', 'sid', 'A', 'x-y', 'tok_1']
    hists = []
    for h in range(n):
        sd = rng.random() < 0.5
        asgi = h % 2 == 1
        emit = (lambda: (('emit_a', None), [13, []])) if asgi else (lambda: (('emit_w', None), [12, []]))
        ops = []
        for _ in range(rng.randint(20, 80)):
            r = rng.random()
            if r < 0.68:
                a, w = gen_cookie_args(rng)
                if rng.random() < 0.9:
                    nm = rng.choice(names)
                    a = (nm,) + a[1:]
                    w = [nm] + w[1:]
                if rng.random() < 0.85:     # mostly ASCII attributes, so that the ASGI emitter rarely raises
                    kw = dict(a[2])
                    if kw['domain'] == 'é.com':
                        kw['domain'] = 'example.com'
                        w[4] = ['example.com']
                    if kw['path'] == '/é':
                        kw['path'] = '/a/b'
                        w[5] = ['/a/b']
                    a = (a[0], a[1], kw)
                ops.append((('set_cookie', a), [9, w]))
            elif r < 0.88:
                nm = rng.choice(names) if rng.random() < 0.9 else rng.choice(COOKIE_NAMES)
                ss = rng.choice(['Lax', 'Strict', '', 'None'])
                ops.append((('unset_cookie', nm, ss, None, None), [10, nm, ss, [], []]))
            elif r < 0.95:
                v = 'raw%d=1' % len(ops)
                ops.append((('append', rcase(rng, 'Set-Cookie'), v), [2, 'set-cookie', [0, v]]))
            else:
                n_ = rng.choice(['X-Foo', 'Vary'])
                ops.append((('set', n_, 'v'), [1, n_, [0, 'v']]))
            ops.append(emit())
        hists.append((sd, asgi, ops))
    # (a) against the model, operation by operation, ordered
    _, results, _ = run_histories_plain(ctx, model, falcon, hists)
    ocases, ometa = [], []
    for hi, ((sd, asgi, ops), (impl, mobs)) in enumerate(zip(hists, results)):
        ctx.note_case(('cookie-order', hi, ctx.seed), True)
        ctx.count('cookie-order-asgi' if asgi else 'cookie-order-wsgi')
        prev = []          # cookie names of the last real emission (jar part)
        n_raw = 0
        ok_hist = True
        for i, ((o, w), a, b) in enumerate(zip(ops, impl, mobs)):
            if o[0] == 'append' and a == ('none',):
                n_raw += 1
            if a[0] == 'items':
                lines = [it[2] for it in a[1] if it[0] == 'set-cookie-line']
                jar_lines = lines[n_raw:]
                cur = [parse_cookie_line(x)[0] for x in jar_lines]
                po, pa = ops[i - 1][0], impl[i - 1]
                if po[0] in ('set_cookie', 'unset_cookie') and pa == ('none',) and prev is not None:
                    nm = po[1][0] if po[0] == 'set_cookie' else po[1]
                    ocases.append([10, 0 if po[0] == 'set_cookie' else 1, prev, nm, cur])
                    ometa.append((hi, i, po[0], nm, list(prev), cur))
                prev = cur
                if b[0] == 'items':
                    a = ('items', canon_items(a[1], b[1]))
            elif o[0] in ('emit_w', 'emit_a'):
                prev = None      # the emission raised (e.g. a non-ASCII attribute on ASGI): order unknown
            same = (a[1] == b[1]) if (a[0] == 'err' and b[0] == 'err') else (a == b)
            if not same and ok_hist:
                ok_hist = False
                disagreements.append(('cookie-order-' + o[0],
                                      {'what': 'long cookie history: operation %d (%s) observed differently on falcon.%sResponse '
                                               'and the model' % (i, o[0], 'asgi.' if asgi else ''),
                                       'history': hist_json(sd, asgi, ops[:i + 1]), 'op_index': i, 'impl': repr(a)[:2000],
                                       'model': repr(b)[:2000]}))
    outs = model.run_many(ocases)
    for (hi, i, kind, nm, before, after), ok in zip(ometa, outs):
        ctx.count('cookie-order-oracle-' + kind)
        ctx.count('cookie-order-oracle-' + ('asgi' if hists[hi][1] else 'wsgi'))
        if not ok:
            sd, asgi, ops = hists[hi]
            # the order of Set-Cookie lines is not a clause of the property: a deviation is a break of the
            # model correspondence (C15_set_cookie_order / C15_unset_cookie_order / C15_emitted_cookie_order)
            ctx.violation('correspondence-broken',
                          {'broken': 'C15.cookie_emission_order (C15_set_cookie_order / C15_unset_cookie_order / '
                                     'C15_emitted_cookie_order)',
                           'what': 'after a successful %s(%r) the Set-Cookie block of the emitted list is not in the order the '
                                   'model proves (re-set cookie last / unset cookie in place)' % (kind, nm),
                           'interface': 'asgi' if asgi else 'wsgi', 'names_before': before, 'names_after': after,
                           'history': hist_json(sd, asgi, ops[:i + 1]), 'op_index': i}, found_input=False,
                          key='cookie-order-' + kind)


def run_histories_plain(ctx, model, falcon, hists, fixed=True):
    """Run given histories on the real classes and on the model (no trailing reads)."""
    import falcon.asgi
    outs = model.run_many([[0, fixed, sd, [w for _, w in ops]] for sd, asgi, ops in hists])
    results = []
    for (sd, asgi, ops), out in zip(hists, outs):
        opts = falcon.ResponseOptions()
        opts.secure_cookies_by_default = sd
        resp = (falcon.asgi.Response if asgi else falcon.Response)(options=opts)
        impl = [apply_op(resp, o, asgi) for o, _ in ops]
        results.append((impl, [py_obs(v) for v in out[0]]))
    return hists, results, None


# --------------------------------------------------------------------------- process time zone

def timezone_checks(ctx, model, falcon):
    """The date-bearing outputs under NON-UTC process time zones: falcon's contract takes a naive datetime as
    UTC, whatever the process-local zone is (datetime.astimezone() on a naive value would take it as LOCAL time;
    with TZ=UTC the two are bit-identical, so these checks must not only run under UTC).  Cookie Expires (naive
    and aware) through the cookie-attribute checks, resp.expires / resp.last_modified directly and through
    operation histories; the expected text is rendered independently (fmt_cookie_date)."""
    import os
    import time
    import falcon.asgi
    rng = ctx.rng
    quick = ctx.tier == 'quick'
    old = os.environ.get('TZ')
    try:
        for tz in ['EST5EDT', 'JST-9'] + ([] if quick else ['Australia/Lord_Howe']):
            os.environ['TZ'] = tz
            time.tzset()
            if time.timezone == 0 and not time.daylight:
                ctx.advisory.append('time zone %s not available: %r' % (tz, time.tzname))
                continue
            tag = '-tz-' + tz
            cookie_checks(ctx, model, falcon, 400 if quick else 4000, tag=tag)
            hists, results, specs = run_histories(ctx, model, falcon, 300 if quick else 3000)
            oc, om = judge_histories(ctx, model, hists, results, specs, tag=tag)
            run_emit_oracles(ctx, model, hists, results, oc, om)
            for i in range(150 if quick else 1500):
                d = gen_datetime(rng)
                exp = fmt_cookie_date(d)
                for cls in (falcon.Response, falcon.asgi.Response):
                    resp = cls()
                    resp.expires = d
                    resp.last_modified = d
                    resp.set_cookie('c', 'v', expires=d)
                    line = [v for k, v in resp._wsgi_headers() if k == 'set-cookie'][0]
                    got = (resp.get_header('Expires'), resp.get_header('Last-Modified'), parse_cookie_line(line)[2]['expires'])
                    ctx.count('tz-date' + tag)
                    ctx.note_case(('tz-date', tz, i, cls.__name__), True)
                    if got != (exp, exp, exp):
                        ctx.violation('date-not-utc',
                                      {'what': 'a naive datetime is UTC by contract (an aware one is converted to UTC): the emitted '
                                               'HTTP-date is not its UTC rendering under this process time zone',
                                       'process_TZ': tz, 'datetime': repr(d), 'expected': exp, 'resp.expires': got[0],
                                       'resp.last_modified': got[1], 'cookie_expires': got[2], 'class': cls.__name__},
                                      key='tz-date')
    finally:
        if old is None:
            os.environ.pop('TZ', None)
        else:
            os.environ['TZ'] = old
        time.tzset()


# --------------------------------------------------------------------------- URI-bearing helpers

def parse_link_target(v):
    assert v.startswith('<')
    return v[1:v.index('>')]


def uri_checks(ctx, model, falcon, n):
    from falcon.util import uri
    rng = ctx.rng
    cases, meta = [], []

    def add(kind, isv, chk, s, out):
        cases.append([2, isv, chk, s, out])
        cases.append([1, isv, chk, s])
        cases.append([9, isv, chk, s])
        meta.append((kind, isv, chk, s, out))

    cd_cases, cd_meta = [], []
    # every control character (and DEL) alone, inside ASCII text, next to non-ASCII, and in mixtures, through
    # every URI-bearing helper and both download-name properties
    ctrl_vals = []
    for c in CTRL:
        ctrl_vals += [c, 'a' + c + 'b', c + 'é', '/p' + c + '?q=' + c]
    for _ in range(60):
        ctrl_vals.append(''.join(rng.choice(CTRL + ['a', '/', 'é', '%', ' ']) for _ in range(rng.randint(2, 8))))
    plan = [(v, h) for v in ctrl_vals for h in ('location', 'content_location', 'link-target', 'link-title*',
                                                'link-anchor', 'filename')]
    for i in range(n + len(plan)):
        resp = falcon.Response()
        r = rng.random()
        forced = plan[i - n] if i >= n else None
        if forced:
            r = {'location': 0.1, 'content_location': 0.1, 'link-target': 0.4, 'link-title*': 0.55,
                 'link-anchor': 0.62, 'filename': 0.9}[forced[1]]
        try:
            if r < 0.3:
                s = forced[0] if forced else gen_uri_text(rng)
                which = forced[1] if forced else rng.choice(['location', 'content_location'])
                setattr(resp, which, s)
                add(which, False, True, s, resp.get_header(which.replace('_', '-')))
            elif r < 0.5:
                s = forced[0] if forced else gen_uri_text(rng)
                resp.append_link(s, 'next')
                add('link-target', False, True, s, parse_link_target(resp.get_header('Link')))
            elif r < 0.6:
                s = forced[0] if forced else gen_uri_text(rng)
                resp.append_link('/x', 'next', title_star=('en', s))
                v = resp.get_header('Link')
                add('link-title*', True, True, s, v[v.index("title*=UTF-8'en'") + 16:])
            elif r < 0.65:
                s = forced[0] if forced else gen_uri_text(rng)
                resp.append_link('/x', 'next', anchor=s)
                v = resp.get_header('Link')
                add('link-anchor', False, True, s, v[v.index('anchor="') + 8:-1])
            else:
                s = (forced[0] + rng.choice(['', 'é'])) if forced else gen_filename(rng)
                which = rng.choice(['downloadable_as', 'viewable_as'])
                setattr(resp, which, s)
                out = resp.get_header('Content-Disposition')
                dt = 'attachment' if which == 'downloadable_as' else 'inline'
                cd_cases.append([3, dt, s, out])
                cd_cases.append([7, True, PROPS.index(which), [5, s, unicodedata.normalize('NFKD', s)]])
                cd_meta.append((which, dt, s, out))
        except UnicodeEncodeError:
            continue
    outs = model.run_many(cases)
    for j, (kind, isv, chk, s, out) in enumerate(meta):
        ok, enc, taken = outs[3 * j], outs[3 * j + 1], outs[3 * j + 2]
        ctx.count('uri-' + kind)
        ctx.note_case(('uri', kind, s), out != s)
        menc = common.wstr(enc[1]) if enc[0] == 1 else None
        detail = {'helper': kind, 'value': s, 'emitted': out, 'model': menc,
                  'python_unquote': urllib.parse.unquote(out)}
        if not ok:
            ctx.violation('uri-value-not-ascii-or-not-decodable',
                          dict(detail, what='the emitted value is not pure ASCII or does not percent-decode to the '
                                            'UTF-8 octets of the original'), key='uri-' + kind)
        elif menc != out:
            disagreements.append(('uri-' + kind, dict(detail, what='uri encoder output differs from the model')))
        # C15_uri_setters_decode_back / C15_uri_oracle_implies_decode, on the real decoder: outside the
        # documented taken-as-escaped region falcon's own uri.decode returns the original
        if not taken:
            ctx.count('uri-decode-back')
            back = [uri.decode(out, unquote_plus=False)] + ([uri.decode(out, unquote_plus=True)] if isv else [])
            if any(b != s for b in back):
                ctx.violation('uri-value-does-not-decode-back',
                              dict(detail, uri_decode=back, what='falcon.util.uri.decode of the emitted value is not the '
                                                                 'original'), key='uri-back-' + kind)
        else:
            ctx.count('uri-taken-as-escaped')
    outs = model.run_many(cd_cases)
    for j, (which, dt, s, out) in enumerate(cd_meta):
        ok, enc = outs[2 * j], outs[2 * j + 1]
        ctx.count('content-disposition')
        ctx.note_case(('cd', s), not s.isascii() or '"' in s or '\\' in s)
        menc = common.wstr(enc[1]) if enc[0] == 1 else None
        detail = {'helper': which, 'value': s, 'emitted': out, 'model': menc,
                  'shape': 'ascii-with-quote-or-backslash' if s.isascii() and ('"' in s or '\\' in s) else
                           ('ascii' if s.isascii() else 'non-ascii')}
        if not ok:
            ctx.violation('content-disposition-not-decodable',
                          dict(detail, what='the filename cannot be recovered from the emitted Content-Disposition '
                                            '(quoted-string / RFC 8187 ext-value reading)'),
                          key='cd-' + detail['shape'])
        elif menc != out:
            disagreements.append(('content-disposition', dict(detail, what='Content-Disposition differs from the model')))
        if not s.isascii() and "filename*=UTF-8''" in out:
            # C15_content_disposition_ext_value / C15_cd_oracle_implies_decode on the real decoder
            ev = out[out.index("filename*=UTF-8''") + 17:]
            ctx.count('cd-ext-value-decode-back')
            if uri.decode(ev, unquote_plus=False) != s:
                ctx.violation('content-disposition-not-decodable',
                              dict(detail, ext_value=ev, uri_decode=uri.decode(ev, unquote_plus=False),
                                   what='the RFC 8187 ext-value does not decode to the filename'), key='cd-ext-back')
    if meta:
        ctx.sample({'uri': meta[0][3], 'emitted': meta[0][4]})


# --------------------------------------------------------------------------- end to end

def e2e(ctx, model, falcon, n):
    """The header list actually handed to the server: start_response (own minimal WSGI driver)
    and the http.response.start event (own minimal ASGI driver), for generated responders."""
    import falcon.asgi
    rng = ctx.rng
    cur = {}

    class Res:
        def on_get(self, req, resp):
            cur['obs'] = [apply_op(resp, o, False) for o, _ in cur['ops']]

    class ARes:
        async def on_get(self, req, resp):
            cur['obs'] = [apply_op(resp, o, True) for o, _ in cur['ops']]

    wapp = falcon.App()
    wapp.add_route('/', Res())
    aapp = falcon.asgi.App()
    aapp.add_route('/', ARes())

    def drive_wsgi():
        got = {}

        def start_response(status, headers, exc_info=None):
            got['status'], got['headers'] = status, list(headers)
        import io
        env = {'REQUEST_METHOD': 'GET', 'PATH_INFO': '/', 'QUERY_STRING': '', 'SERVER_NAME': 'x',
               'SERVER_PORT': '80', 'SERVER_PROTOCOL': 'HTTP/1.1', 'wsgi.url_scheme': 'http',
               'wsgi.input': io.BytesIO(b''), 'wsgi.errors': io.StringIO(), 'SCRIPT_NAME': ''}
        body = b''.join(wapp(env, start_response))
        return got['status'], got['headers'], body

    def drive_asgi():
        events = []

        async def receive():
            return {'type': 'http.request', 'body': b'', 'more_body': False}

        async def send(ev):
            events.append(ev)
        scope = {'type': 'http', 'asgi': {'version': '3.0'}, 'http_version': '1.1', 'method': 'GET',
                 'scheme': 'http', 'path': '/', 'raw_path': b'/', 'query_string': b'', 'root_path': '',
                 'headers': [], 'server': ('x', 80), 'client': ('1.1.1.1', 1)}
        asyncio.run(aapp(scope, receive, send))
        st = [e for e in events if e['type'] == 'http.response.start'][0]
        return st['status'], [(k.decode('latin-1'), v.decode('latin-1')) for k, v in st['headers']], None

    cases, meta = [], []
    for i in range(n):
        asgi = rng.random() < 0.5
        ops = []
        while len(ops) < rng.randint(1, 10):
            o = gen_op(rng)
            if o[0][0] in ('emit_w', 'emit_a'):
                continue
            if asgi and o[0][0] in ('set', 'append', 'set_many', 'prop_set', 'link', 'set_cookie', 'unset_cookie'):
                # keep the ASGI run inside latin-1/ASCII so that the exchange completes
                if not json.dumps(o[1]).isascii() or any(isinstance(x, int) and x > 127 for x in flat(o[1])):
                    continue
            ops.append(o)
        cur['ops'] = ops
        try:
            status, headers, body = drive_asgi() if asgi else drive_wsgi()
        except Exception as e:  # noqa: BLE001
            ctx.count('e2e-raised')
            continue
        if not str(status).startswith('200'):
            ctx.count('e2e-non200')
            continue
        meta.append((asgi, ops, headers, cur['obs']))
        cases.append([0, True, True, [w for _, w in ops] + [[13 if asgi else 12, ['application/json']]]])
    outs = model.run_many(cases)
    ocases = []
    for (asgi, ops, headers, obs), out in zip(meta, outs):
        mo = py_obs(out[0][-1])
        impl_items = items_of([(k, v) for k, v in headers if k.lower() != 'content-length'], False)
        if mo[0] != 'items':
            disagreements.append(('e2e', {'what': 'model emission raised but the exchange completed',
                                          'history': hist_json(True, asgi, ops), 'impl': repr(headers)}))
            continue
        mitems = [x for x in mo[1] if not (x[0] == 'plain' and x[1] == 'content-length')]
        a = canon_items(impl_items, mitems)
        ctx.count('e2e-asgi' if asgi else 'e2e-wsgi')
        ctx.note_case(('e2e', len(ocases), ctx.seed), len(a) > 1)
        expected = [[x[1], x[2]] for x in mitems if x[0] == 'plain' and x[1] != 'set-cookie']
        n_lines = len(mitems) - len(expected)
        witems = [[0, x[1], x[2]] if x[0] == 'plain' else [1, x[1], x[2], wire_morsel(x[3])] for x in a]
        ocases.append(([6, expected, n_lines, witems], asgi, ops, headers, a, mitems))
    fails = model.run_many([c[0] for c in ocases])
    for (c, asgi, ops, headers, a, mitems), f in zip(ocases, fails):
        if f:
            ctx.violation('emission-clause-violated',
                          {'where': 'header list handed to the server (%s)' % ('ASGI send' if asgi else 'start_response'),
                           'history': hist_json(True, asgi, ops), 'clauses_failed': f, 'impl': repr(headers)},
                          key='e2e-emit-%s' % f)
        elif a != mitems:
            disagreements.append(('e2e', {'what': 'header list handed to the server differs from the model',
                                          'history': hist_json(True, asgi, ops), 'impl': repr(a), 'model': repr(mitems)}))


def flat(v):
    if isinstance(v, (list, tuple)):
        for x in v:
            yield from flat(x)
    elif isinstance(v, str):
        for c in v:
            yield ord(c)
    else:
        yield v


# --------------------------------------------------------------------------- replay

def replay(ctx, obj, quiet=False):
    """Re-run one recorded witness on the current implementation and judge it with the oracles."""
    import falcon
    import falcon.asgi
    model = common.Model(ctx)
    kind = obj.get('kind')
    ctx.note_case('replay-' + str(obj.get('_file', kind)), True)
    if kind in ('cookie-attrs-differ', 'unset-cookie-not-expired') and 'wire' in obj:
        sd, asgi = obj.get('secure_default', True), obj.get('asgi', False)
        opts = falcon.ResponseOptions()
        opts.secure_cookies_by_default = sd
        resp = (falcon.asgi.Response if asgi else falcon.Response)(options=opts)
        last = None
        for w in obj['wire']:
            last = w
            if w[0] == 9:
                a = w[1]
                ma = a[3][0] if a[3] else None
                if ma is not None:
                    ma = ma[1] if ma[0] == 0 else (ma[1] / ma[2] if ma[0] == 1 else ma[1])
                exp = None
                if a[2]:
                    exp = email.utils.parsedate_to_datetime(a[2][0]).replace(tzinfo=None)
                try:
                    resp.set_cookie(a[0], a[1], expires=exp, max_age=ma, domain=a[4][0] if a[4] else None,
                                    path=a[5][0] if a[5] else None, secure=bool(a[6][0]) if a[6] else None,
                                    http_only=bool(a[7]), same_site=a[8][0] if a[8] else None,
                                    partitioned=bool(a[9]))
                except (KeyError, ValueError):
                    pass
            elif w[0] == 10:
                resp.unset_cookie(w[1], samesite=w[2], domain=w[3][0] if w[3] else None,
                                  path=w[4][0] if w[4] else None)
        name = last[1][0] if last[0] == 9 else last[1]
        lines = [v for n_, v in resp._wsgi_headers() if n_ == 'set-cookie' and parse_cookie_line(v)[0] == name]
        _, coded, m = parse_cookie_line(lines[0])
        if last[0] == 9:
            ok = model.run([4, sd, last[1], wire_morsel(m)])
        else:
            if m['expires'] is not None and past_date(m['expires']):
                m['expires'] = ('delta', -1)
            ok = model.run([5, wire_morsel(m)])
        ctx.sample({'replayed': obj.get('_file', kind), 'line': lines[0], 'ok': bool(ok)})
        if not ok:
            ctx.violation(kind, {'wire': obj['wire'], 'secure_default': sd, 'asgi': asgi, 'line': lines[0],
                                 'observed': repr(m), 'shape': obj.get('shape')}, key='replay-' + kind + str(obj.get('shape')))
        return
    if kind == 'cookie-echo-differs':
        from falcon import testing
        resp = falcon.Response()
        resp.set_cookie(obj['name'], obj['value'])
        line = [v for n_, v in resp._wsgi_headers() if n_ == 'set-cookie'][0]
        name, coded, m = parse_cookie_line(line)
        hdr = '%s=%s' % (name, coded)
        req = (testing.create_asgi_req if obj.get('asgi') else testing.create_req)(headers={'Cookie': hdr})
        got = (req.cookies.get(name), req.get_cookie_values(name))
        ctx.sample({'replayed': obj.get('_file', kind), 'cookie_header': hdr, 'read_back': repr(got)})
        if got != (obj['value'], [obj['value']]):
            ctx.violation(kind, {'name': name, 'value': obj['value'], 'cookie_header': hdr, 'asgi': obj.get('asgi'),
                                 'read_back': repr(got)}, key='replay-echo')
        return
    if kind == 'content-disposition-not-decodable':
        resp = falcon.Response()
        setattr(resp, obj['helper'], obj['value'])
        out = resp.get_header('Content-Disposition')
        dt = 'attachment' if obj['helper'] == 'downloadable_as' else 'inline'
        ok = model.run([3, dt, obj['value'], out])
        ctx.sample({'replayed': obj.get('_file', kind), 'emitted': out, 'ok': bool(ok)})
        if not ok:
            ctx.violation(kind, {'helper': obj['helper'], 'value': obj['value'], 'emitted': out,
                                 'shape': obj.get('shape')}, key='replay-cd')
        return
    if kind == 'uri-value-not-ascii-or-not-decodable':
        resp = falcon.Response()
        s = obj['value']
        h = obj['helper']
        if h in ('location', 'content_location'):
            setattr(resp, h, s)
            out = resp.get_header(h.replace('_', '-'))
            isv = False
        elif h == 'link-target':
            resp.append_link(s, 'next')
            out = parse_link_target(resp.get_header('Link'))
            isv = False
        else:
            return main(ctx)
        ok = model.run([2, isv, True, s, out])
        if not ok:
            ctx.violation(kind, {'helper': h, 'value': s, 'emitted': out}, key='replay-uri')
        return
    if 'history' in obj and isinstance(obj['history'], dict) and 'ops' in obj['history']:
        # a recorded operation history: re-run the whole check on it is not possible without the
        # python values; fall back to the full run with the recorded seed
        ctx.rng.seed(obj.get('seed', ctx.seed))
    if not quiet:
        main(ctx)
