"""C17 — WebSocket sessions follow the ASGI state machine and report misuse and errors.

A real falcon.asgi.App with scripted WebSocket responders (and optional scripted middleware)
is driven by an independent ASGI server + protocol monitor on the deterministic event loop of
harness/c18.py (not falcon's own simulator).  Every session (configuration, scripts, client
events, send-failure script) is run on the real code and on the extracted Coq model
(coq/C17/Model.v); results, the calls of the server's send() with their outcomes, the public
state before every operation and the way the application ended must coincide, and what the
real code did is judged by the proved oracles of coq/C17/Spec.v (session legality, supported
features, (state, operation) -> documented error, payload identity).
"""
import asyncio
import asyncio.events as aio_events
import itertools
import os
import time

import common
from c18 import DetLoop

# 1 = model of the repaired close() (fixes/C17-close-send-failure.patch)
MODEL_FIXED = int(os.environ.get('VERIF_C17_MODEL_FIXED', '1'))

# quick tier: no new batch of sessions is started once this many seconds have passed since the
# check began (build included); what was cut is recorded in the evidence
QUICK_DEADLINE = float(os.environ.get('VERIF_QUICK_DEADLINE', '60'))


def over_deadline(ctx):
    return ctx.tier == 'quick' and time.time() - ctx.t0 > QUICK_DEADLINE


VERSIONS = {'2.0': (0, 0), '2.1': (1, 0), '2.2': (1, 0), '2.3': (1, 1), '2.4': (1, 1)}


class Generic(Exception):
    pass


class ServerError(Exception):
    pass


class ServerInvalid(Exception):
    """how Daphne / Autobahn reject a close code: a generic exception whose text says so"""


class ServerInvalidValue(ValueError):
    pass


INVALID_TEXTS = ['Invalid close code 1011', 'invalid close code', 'INVALID CLOSE CODE: reserved',
                 'close failed: Invalid Close Code (must be 1000 or 3000-4999)']


class WithBytes:
    def __bytes__(self):
        return b'1'


class WithStr:
    def __str__(self):
        return '1'


# payloads of the wrong type: send_text takes a str, send_data bytes / bytearray / memoryview
BAD_TEXT = [lambda: 7, lambda: b'5', lambda: bytearray(b'5'), lambda: memoryview(b'5'), lambda: True,
            lambda: [53], lambda: (53,), lambda: None, lambda: 5.0, lambda: {'a': 1}, WithStr]
BAD_DATA = [lambda: 'notbytes', lambda: 5, lambda: True, lambda: [1, 2, 3], lambda: (1, 2), lambda: None,
            lambda: 5.0, lambda: {}, WithBytes, lambda: 0]


class MyStr(str):
    pass


class MyBytes(bytes):
    pass


def norm_client(client):
    """[0|1, n(, both)] / [2(, code)] (old corpus form) or [2, [code]|[], reason]"""
    out = []
    for e in client:
        if e[0] in (0, 1):
            out.append([e[0], e[1], e[2] if len(e) > 2 else 0])
        elif len(e) == 3:
            out.append([2, list(e[1]), e[2]])
        else:
            out.append([2, [e[1]] if len(e) > 1 else [], 0])
    return out


def cfg5(cfg):
    """(ver, cap, err[, handler kind, park])"""
    return tuple(cfg) + (0, 0)[len(cfg) - 3:] if len(cfg) < 5 else tuple(cfg)


class BinHandler:
    """binary media handler (msgpack is not a dependency of the check).  serialize() returns
    bytes (kind 0), a bytearray (2) or a memoryview over one (3), all allowed by
    BinaryBaseHandlerWS; the buffers are registered so that the harness can change them later"""

    def __init__(self, kind=0, bufs=None):
        self.kind = kind
        self.bufs = bufs if bufs is not None else []

    def serialize(self, media):
        raw = str(media).encode()
        if self.kind == 0:
            return raw
        buf = bytearray(raw)
        self.bufs.append(buf)
        return buf if self.kind == 2 else memoryview(buf)

    def deserialize(self, payload):
        return int(bytes(payload))


class Stop(BaseException):
    pass


Cancelled = object()


# --------------------------------------------------------------------------- the real session


def exc_code(falcon, ex):
    from falcon import errors
    if isinstance(ex, (ServerInvalid, ServerInvalidValue)):
        return [11]
    if isinstance(ex, errors.OperationNotAllowed):
        return [0]
    if isinstance(ex, errors.WebSocketDisconnected):
        return [1, ex.code]
    if isinstance(ex, errors.PayloadTypeError):
        return [2]
    if isinstance(ex, falcon.HTTPError):
        return [8, ex.status_code]
    if isinstance(ex, falcon.HTTPStatus):
        return [9, ex.status_code]
    if isinstance(ex, Generic):
        return [10]
    if isinstance(ex, AssertionError):
        return [7]
    if isinstance(ex, ValueError):
        return [3]
    if isinstance(ex, TypeError):
        return [4]
    if isinstance(ex, OSError):
        return [5]
    return [6]


def value_code(v):
    if v is None:
        return [0]
    if v is Cancelled:
        return [4]
    if isinstance(v, str):
        return [1, int(v)]
    if isinstance(v, (bytes, bytearray)):
        return [2, int(bytes(v))]
    if isinstance(v, int):
        return [3, v]
    return [99, repr(v)]


class Session:
    def __init__(self, falcon, cfg, connect_ok, mw, route, client, fails):
        import falcon.asgi
        self.falcon = falcon
        self.ver, self.cap, self.err_code, self.hk, self.park = cfg5(cfg)
        self.bufs = []          # mutable buffers the application (or its media handler) owns
        self.sent_events = []   # (trace index, event object, field, snapshot at the call)
        self.send_gates = []
        self.cancel_gates = []
        self.tlen = []
        self.loop = DetLoop()
        self.results = []
        self.pubs = []
        self.gates = []
        self.pulls = []
        self.events = [{'type': 'websocket.connect'} if connect_ok else {'type': 'websocket.receive', 'text': '0'}]
        for e in norm_client(client):
            # every legal shape: the unused payload key absent, or present with None;
            # disconnect with / without 'code', with a 'reason' (spec 2.3+)
            if e[0] == 0:
                ev = {'type': 'websocket.receive', 'text': str(e[1])}
                if e[2]:
                    ev['bytes'] = None
            elif e[0] == 1:
                ev = {'type': 'websocket.receive', 'bytes': str(e[1]).encode()}
                if e[2]:
                    ev['text'] = None
            else:
                ev = {'type': 'websocket.disconnect'}
                if e[1]:
                    ev['code'] = e[1][0]
                if e[2] and VERSIONS[cfg5(cfg)[0]][1]:
                    ev['reason'] = 'going away'
            self.events.append(ev)
        self.fails = list(fails)
        self.trace = []
        self.handed = False
        self.mark = 0
        self.cause = None
        self.route_kind = route[0]
        sess = self

        class MW:
            async def process_request_ws(self, req, ws):
                await sess.script(ws, mw)

        class Res:
            async def on_websocket(self, req, ws):
                await sess.script(ws, route[1])

        class NoWs:
            async def on_get(self, req, resp):
                pass

        app = falcon.asgi.App(middleware=[MW()] if mw else [])
        app.ws_options.max_receive_queue = self.cap
        app.ws_options.error_close_code = self.err_code
        app.ws_options.media_handlers[falcon.WebSocketPayloadType.BINARY] = BinHandler(self.hk, self.bufs)
        app.add_route('/r', Res())
        app.add_route('/nows', NoWs())
        self.app = app
        self.path = {0: '/r', 1: '/none', 2: '/nows'}[route[0]]

    # ---- scripted responder
    async def gate(self):
        f = self.loop.create_future()
        self.gates.append(f)
        await f

    async def do_op(self, ws, op):
        falcon = self.falcon
        k = op[0]
        if k == 0:
            sub = {0: None, 1: None, 2: 17}[op[1][0]]
            if op[1][0] == 1:
                sub = 'p%d' % op[1][1]
            hdr = {0: None, 1: [('X-A', '1')], 2: {'Sec-WebSocket-Protocol': 'x'}}[op[2]]
            return await ws.accept(subprotocol=sub, headers=hdr)
        if k == 1:
            code = {0: None, 2: 'x'}.get(op[1][0])
            if op[1][0] == 1:
                code = op[1][1]
            return await ws.close(code, 'bye' if op[2] else None)
        if k == 2:
            if op[1][0] != 0:
                j = op[1][1] if len(op[1]) > 1 else 0
                return await ws.send_text(BAD_TEXT[j % len(BAD_TEXT)]())
            t = str(op[1][1])
            return await ws.send_text(MyStr(t) if op[1][2] == 1 else t)
        if k == 3:
            if op[1][0] != 0:
                j = op[1][1] if len(op[1]) > 1 else 0
                return await ws.send_data(BAD_DATA[j % len(BAD_DATA)]())
            raw = str(op[1][1]).encode()
            kind = op[1][2]
            if kind == 0:
                pl = raw
            elif kind == 1:
                pl = MyBytes(raw)
            else:
                buf = bytearray(raw)
                self.bufs.append(buf)
                pl = buf if kind == 2 else memoryview(buf)
            return await ws.send_data(pl)
        if k == 4:
            pt = falcon.WebSocketPayloadType.BINARY if op[1] else falcon.WebSocketPayloadType.TEXT
            return await ws.send_media(op[2], pt)
        if k == 5:
            return await ws.receive_text()
        if k == 6:
            return await ws.receive_data()
        if k == 7:
            return await ws.receive_media()
        if k == 8:
            if op[1] == 0:
                raise falcon.HTTPError(op[2])
            if op[1] == 1:
                raise falcon.HTTPStatus(op[2])
            if op[1] == 3:
                # raised by the responder itself (it concerns some other socket)
                raise falcon.WebSocketDisconnected(op[2] or None)
            raise Generic('scripted')
        if k == 10:
            return await self.recv_cancelled(ws)
        return await self.gate()

    async def recv_cancelled(self, ws):
        """asyncio.wait_for(ws.receive_text(), timeout) whose timeout fires as soon as the receive
        has parked: the harness runs the receive task alone until it blocks, then cancels it"""
        t = self.loop.create_task(ws.receive_text())
        f = self.loop.create_future()
        self.cancel_gates.append((t, f))
        await f
        if t.cancelled():
            return Cancelled
        return t.result()

    async def script(self, ws, sc):
        try:
            await self._script(ws, sc)
        finally:
            self.mark = len(self.trace)

    async def _script(self, ws, sc):
        for op, catch in sc:
            self.pubs.append(0 if ws.unaccepted else (2 if ws.closed else 1))
            if ws.ready != (not ws.unaccepted and not ws.closed):
                self.pubs[-1] = 98
            self.tlen.append([len(self.trace), None])
            try:
                v = await self.do_op(ws, op)
                self.scribble()
                self.tlen[-1][1] = len(self.trace)
                self.results.append([0, value_code(v)])
            except Exception as ex:
                self.scribble()
                self.tlen[-1][1] = len(self.trace)
                self.results.append([1, exc_code(self.falcon, ex)])
                if not catch:
                    self.cause = exc_code(self.falcon, ex)
                    raise

    def scribble(self):
        """the application reuses its buffers: every registered buffer is overwritten"""
        for b in self.bufs:
            b[:] = b'9' * len(b)

    # ---- the ASGI server
    @staticmethod
    def kind_of(x):
        if type(x) is str or type(x) is bytes:
            return 0
        if isinstance(x, (str, bytes)):
            return 1
        if isinstance(x, bytearray):
            return 2
        if isinstance(x, memoryview):
            return 3
        return 99

    @staticmethod
    def content_of(x):
        try:
            return int(x) if isinstance(x, str) else int(bytes(x))
        except Exception:
            return -1

    @staticmethod
    def malformed(event):
        """field types of the ASGI WebSocket send-side events (spec: HTTP & WebSocket, v2.x)"""
        t = event.get('type')
        if t == 'websocket.accept':
            sp = event.get('subprotocol')
            if sp is not None and type(sp) is not str:
                return 'accept.subprotocol is %s' % type(sp).__name__
            for h in event.get('headers', []):
                if not (isinstance(h, (list, tuple)) and len(h) == 2 and type(h[0]) is bytes and type(h[1]) is bytes):
                    return 'accept.headers entry %r' % (h,)
        elif t == 'websocket.send':
            has_t = event.get('text') is not None
            has_b = event.get('bytes') is not None
            if has_t == has_b:
                return 'send: exactly one of text / bytes expected'
            if set(event) - {'type', 'text', 'bytes'}:
                return 'send: unexpected keys %r' % sorted(event)
        elif t == 'websocket.close':
            c = event.get('code', 1000)
            if type(c) is not int:
                return 'close.code is %s' % type(c).__name__
            if 'reason' in event and event['reason'] is not None and type(event['reason']) is not str:
                return 'close.reason is %s' % type(event['reason']).__name__
        else:
            return 'unknown event type %r' % (t,)
        return None

    async def receive(self):
        f = self.loop.create_future()
        self.pulls.append(f)
        return await f

    async def send(self, event):
        k = self.fails.pop(0) if self.fails else [0]
        variant = k[1] if k[0] == 5 and len(k) > 1 else 0
        if k[0] == 5:
            k = [5]
        t = event['type']
        if t == 'websocket.accept':
            sp = event.get('subprotocol')
            ev = [0, [] if sp is None else [int(sp[1:])], int('headers' in event)]
        elif t == 'websocket.send':
            field = 'text' if event.get('text') is not None else 'bytes'
            x = event[field]
            ev = [1 if field == 'text' else 2, self.content_of(x), self.kind_of(x)]
            self.sent_events.append((len(self.trace), event, field, self.content_of(x)))
        elif t == 'websocket.close':
            ev = [3, event.get('code', 1000), int('reason' in event)]
        else:
            ev = [99, t]
        bad = self.malformed(event)
        if bad:
            ev = [99, bad]
        self.trace.append([ev, k])
        if k[0] == 0 and self.park:
            # the server does not read the event at once: another task of the application
            # runs meanwhile (and reuses its buffers)
            g = self.loop.create_future()
            self.send_gates.append(g)
            await g
        if k[0] == 1:
            if len(k) > 1:
                try:
                    raise ServerError('received %d (going away); then sent %d' % (k[1], k[1]))
                except ServerError as cause:
                    raise OSError('connection closed') from cause
            raise OSError('connection closed')
        if k[0] == 2:
            raise ServerError('no close frame received or sent; code = 1000 (OK), no reason')
        if k[0] == 3:
            raise ServerError('protocol accepted must be from the list')
        if k[0] == 4:
            raise RuntimeError('boom')
        if k[0] == 5:
            text = INVALID_TEXTS[variant % len(INVALID_TEXTS)]
            raise (ServerInvalidValue if variant % 2 else ServerInvalid)(text)

    # ---- the driver
    def quiesce(self, task):
        """server + every framework task other than the application run until nothing moves"""
        loop = self.loop
        for _ in range(1000):
            moved = False
            for f in self.pulls:
                if not f.done() and self.events:
                    e = self.events.pop(0)
                    if e['type'] == 'websocket.disconnect':
                        self.handed = True
                    f.set_result(e)
                    moved = True
            loop.run_callbacks()
            for h in list(loop.ready):
                o = loop.owner(h)
                if o is not None and o is not task and h in loop.ready \
                        and all(o is not t for t, _ in self.cancel_gates):
                    loop.run_handle(h)
                    loop.run_callbacks()
                    moved = True
            if not moved:
                return

    def run(self):
        loop = self.loop
        aio_events._set_running_loop(loop)
        try:
            hdrs, _ = VERSIONS[self.ver]
            scope = {'type': 'websocket', 'asgi': {'version': '3.0', 'spec_version': self.ver},
                     'http_version': '1.1', 'scheme': 'ws', 'path': self.path,
                     'raw_path': self.path.encode(), 'query_string': b'', 'root_path': '',
                     'headers': [], 'client': ('127.0.0.1', 4000), 'server': ('srv', 80),
                     'subprotocols': ['p1', 'p2']}
            task = loop.create_task(self.app(scope, self.receive, self.send))
            ending = None
            for _ in range(2000):
                loop.run_callbacks()
                h = loop.handle_of(task)
                if h is not None:
                    loop.run_handle(h)
                    continue
                if task.done():
                    break
                cg = [(t, f) for t, f in self.cancel_gates if not f.done()]
                if cg:
                    t, f = cg[0]
                    for _ in range(100):       # the receive task runs alone until it blocks
                        loop.run_callbacks()
                        h2 = loop.handle_of(t)
                        if h2 is None:
                            break
                        loop.run_handle(h2)
                    if not t.done():
                        t.cancel()             # the timeout fires
                        for _ in range(100):
                            loop.run_callbacks()
                            h2 = loop.handle_of(t)
                            if h2 is None:
                                break
                            loop.run_handle(h2)
                    if t.done():
                        if not t.cancelled() and t.exception() is not None:
                            f.set_exception(t.exception())
                        else:
                            f.set_result(None)
                        loop.run_callbacks()
                        continue
                sg = [f for f in self.send_gates if not f.done()]
                if sg:
                    self.scribble()
                    sg[0].set_result(None)
                    continue
                self.quiesce(task)
                g = [f for f in self.gates if not f.done()]
                if g:
                    g[0].set_result(None)
                    loop.run_callbacks()
                    continue
                loop.run_callbacks()
                if loop.handle_of(task) is None and not task.done():
                    ending = [2]
                    break
            if ending is None:
                if task.cancelled():
                    ending = [1, [6]]
                elif task.exception() is not None:
                    ending = [1, exc_code(self.falcon, task.exception())]
                else:
                    ending = [0]
            for idx, event, field, snap in self.sent_events:
                # the server reads the event only now: same content as when send() was called?
                if self.content_of(event[field]) != snap and self.trace[idx][0][0] != 99:
                    self.trace[idx][0][2] = 4
            left = [t for t in loop.tasks if not t.done() and t is not task]
            if self.cause is None:
                cause = [self.route_kind, 0]
            elif self.cause[0] in (8, 9):
                cause = [3, self.cause[1]]
            else:
                cause = [4, 0]
            return {'cause': cause, 'mark': self.mark, 'tlen': self.tlen,
                    'results': self.results, 'ending': ending, 'trace': self.trace,
                    'handed': int(self.handed), 'pubs': self.pubs,
                    'pending_tasks': len(left) if ending != [2] else 0,
                    'loop_errors': [repr(e.get('exception') or e.get('message')) for e in loop.errors]}
        finally:
            for _ in range(50):
                pend = [t for t in loop.tasks if not t.done()]
                if not pend and not loop.ready:
                    break
                for t in pend:
                    t.cancel()
                while loop.ready:
                    loop.run_handle(loop.ready[0])
            aio_events._set_running_loop(None)


def run_real(falcon, case):
    cfg, connect_ok, mw, route, client, fails = case
    import logging
    logging.getLogger('falcon').disabled = True
    return Session(falcon, cfg, connect_ok, mw, route, client, fails).run()


# --------------------------------------------------------------------------- generators

OPS_SMALL = [
    [0, [0], 0], [1, [0], 0], [2, [0, 5, 0]], [3, [0, 6, 2]], [4, 1, 7], [5], [6], [7], [9], [10], [8, 2, 0], [8, 0, 403], [8, 3, 1001],
]


def gen_op(rng):
    x = rng.random()
    if x < 0.16:
        return [0, rng.choice([[0], [0], [1, 1], [1, 2], [2]]), rng.choice([0, 0, 1, 2])]
    if x < 0.30:
        return [1, rng.choice([[0], [0], [1, 1000], [1, 1001], [1, 3000], [1, 4999], [1, 999], [1, 1005],
                               [1, 1015], [1, 1999], [1, 2000], [1, 1003], [1, 1007], [1, 1014], [2], [1, 0], [1, -5]]),
                rng.choice([0, 0, 1])]
    if x < 0.42:
        return [2, rng.choice([[0, rng.randint(1, 99), 0], [0, rng.randint(1, 99), 1], [1, rng.randrange(11)]])]
    if x < 0.50:
        return [3, rng.choice([[0, rng.randint(1, 99), rng.randrange(4)], [0, rng.randint(1, 99), rng.randrange(4)], [1, rng.randrange(10)]])]
    if x < 0.56:
        return [4, rng.choice([0, 1]), rng.randint(1, 99)]
    if x < 0.68:
        return [5]
    if x < 0.74:
        return [6]
    if x < 0.80:
        return [7]
    if x < 0.88:
        return [8, *rng.choice([[0, 403], [0, 404], [0, 500], [1, 200], [1, 302], [2, 0], [3, 0], [3, 1001], [3, 4000]])]
    if x < 0.94:
        return [10]
    return [9]


def gen_script(rng, n):
    return [[gen_op(rng), int(rng.random() < 0.6)] for _ in range(n)]


def gen_client(rng):
    ev = []
    for _ in range(rng.randint(0, 4)):
        ev.append([rng.choice([0, 0, 1]), rng.randint(1, 99), rng.choice([0, 1])])
    ev.append([2, rng.choice([[1000], [1001], [1006], [4400], []]), rng.choice([0, 0, 1])])
    return ev


def gen_fails(rng):
    if rng.random() < 0.45:
        return []
    n = rng.randint(1, 5)
    fl = [[0]] * n
    for _ in range(rng.choice([1, 1, 2])):
        fl[rng.randrange(n)] = rng.choice([[1], [1, 1001], [1, 1006], [2], [3], [4], [5, rng.randrange(4)], [5, rng.randrange(4)]])
    return [list(x) for x in fl]


def gen_case(rng):
    ver = rng.choice(list(VERSIONS))
    cfg = (ver, rng.choice([0, 1, 2, 4]), rng.choice([1011, 1011, 3011, 4000, 999, 1005, 1500]),
           rng.choice([0, 0, 2, 3]), int(rng.random() < 0.35))
    connect_ok = int(rng.random() < 0.96)
    mw = gen_script(rng, rng.randint(1, 2)) if rng.random() < 0.2 else []
    x = rng.random()
    if x < 0.86:
        sc = gen_script(rng, rng.randint(0, 6))
        if rng.random() < 0.7:
            sc = [[[0, [0], 0], 0]] + sc            # start with a plain accept
        route = [0, sc]
    elif x < 0.93:
        route = [1]
    else:
        route = [2]
    return (cfg, connect_ok, mw, route, gen_client(rng), gen_fails(rng))


def wire_case(case):
    (ver, cap, err, hk, park), connect_ok, mw, route, client, fails = (cfg5(case[0]),) + tuple(case[1:])
    h, r = VERSIONS[ver]
    return [1, MODEL_FIXED, [h, r, cap, err, hk], connect_ok, mw, route, norm_client(client), fails]


EXC = {0: 'OperationNotAllowed', 1: 'WebSocketDisconnected', 2: 'PayloadTypeError', 3: 'ValueError',
       4: 'TypeError', 5: 'OSError', 6: 'other exception', 7: 'AssertionError', 8: 'HTTPError',
       9: 'HTTPStatus', 10: 'scripted exception', 11: 'server exception "invalid close code"'}
OPN = ['accept', 'close', 'send_text', 'send_data', 'send_media', 'receive_text', 'receive_data',
       'receive_media', 'raise', 'advance', 'receive_cancelled']


def res_str(r):
    if r[0] == 0:
        return 'returned %s' % (r[1][1:] or '')
    if r[0] == 1:
        return 'raised %s%s' % (EXC.get(r[1][0], '?'), r[1][1:] or '')
    return 'blocked'


# --------------------------------------------------------------------------- judging


def judge(ctx, model, cases, reals, tag):
    mouts = model.run_many([wire_case(c) for c in cases])
    so, mo, po = [], [], []
    idx_m, idx_p = [], []
    for i, (case, real) in enumerate(zip(cases, reals)):
        (ver, cap, err, hk, park), connect_ok, mw, route, client, fails = (cfg5(case[0]),) + tuple(case[1:])
        h, r = VERSIONS[ver]
        cfgw = [h, r, cap, err, hk]
        so.append([2, cfgw, real['trace'], real['ending'], real['handed']])
        ops = [o for o, _ in mw] + ([o for o, _ in route[1]] if route[0] == 0 else [])
        k = 0
        for j, (res, pub) in enumerate(zip(real['results'], real['pubs'])):
            if j >= len(ops):
                break
            op = ops[j]
            mo.append([3, cfgw, pub, op, res])
            idx_m.append((i, j))
            # a receive that got past the state check and did not end in WebSocketDisconnected /
            # cancellation consumed one client event: judge what it made of it
            if op[0] in (5, 6, 7, 10) and res != [0, [4]] and (res[0] == 0 or (res[0] == 1 and res[1][0] in (2, 3, 4, 5, 6, 10))):
                if k < len(client):
                    po.append([4, 0 if op[0] == 10 else op[0] - 5, norm_client(client)[k], res])
                    idx_p.append((i, j))
                k += 1
    wo, idx_w, ro = [], [], []
    for i, (case, real) in enumerate(zip(cases, reals)):
        (ver, cap, err, hk, park), connect_ok, mw, route, client, fails = (cfg5(case[0]),) + tuple(case[1:])
        if connect_ok and real['ending'] != [2]:
            h, r = VERSIONS[ver]
            wo.append([5, [h, r, cap, err, hk], real['cause'][0], real['cause'][1], real['trace'][real['mark']:]])
            idx_w.append(i)
            ro.append([7, real['cause'][0], real['trace'][real['mark']:]])
    qo, idx_q = [], []
    for i, (case, real) in enumerate(zip(cases, reals)):
        (ver, cap, err, hk, park), connect_ok, mw, route, client, fails = (cfg5(case[0]),) + tuple(case[1:])
        ops = [o for o, _ in mw] + ([o for o, _ in route[1]] if route[0] == 0 else [])
        for j, (op, tl) in enumerate(zip(ops, real.get('tlen', []))):
            if op[0] in (2, 3) and tl[1] is not None:
                qo.append([6, op, tl[0], tl[1]])
                idx_q.append((i, j))
    qres = model.run_many(qo) if qo else []
    wres = model.run_many(wo) if wo else []
    rres = model.run_many(ro) if ro else []
    souts = model.run_many(so)
    mres = model.run_many(mo) if mo else []
    pres = model.run_many(po) if po else []
    bad = {}
    for i, o in enumerate(souts):
        if o[0] != 1:
            bad.setdefault(i, []).append(('session', 'illegal ASGI session (send-side monitor)'))
        if o[1] != 1:
            bad.setdefault(i, []).append(('features', 'malformed send() event: accept headers / close reason not supported by the server, '
                                          "or a payload field that is not str / exactly bytes, or whose content changed after send() "
                                          'was called (the event aliases a buffer the application still owns)'))
    for i, o in zip(idx_w, wres):
        if o != 1:
            bad.setdefault(i, []).append(('close-code', 'the close code sent by the application wrapper is not the one '
                                          'documented for the way the responder ended (1000 / 3404 / 3405 / 3000+status / '
                                          'error_close_code or fallback)'))
    for i, o in zip(idx_w, rres):
        if o != 1:
            bad.setdefault(i, []).append(('close-retry', 'the server rejected a close with "invalid close code" and the wrapper '
                                          'did not fall back to another close: the client is left connected without a close'))
    for (i, j), o in zip(idx_q, qres):
        if o != 1:
            bad.setdefault(i, []).append(('bad-payload-sent', 'a payload of the wrong type was put on the wire (op %d)' % j))
    for (i, j), o in zip(idx_m, mres):
        if o != 1:
            bad.setdefault(i, []).append(('misuse', j))
    for (i, j), o in zip(idx_p, pres):
        if o != 1:
            bad.setdefault(i, []).append(('payload', j))
    n_found = 0
    corr = []
    model_results = [[r for r in m[0] if r != [2]] for m in mouts]
    for i, (case, real, m) in enumerate(zip(cases, reals, mouts)):
        (ver, cap, err, hk, park), connect_ok, mw, route, client, fails = (cfg5(case[0]),) + tuple(case[1:])
        ops = [o for o, _ in mw] + ([o for o, _ in route[1]] if route[0] == 0 else [])
        key = (tag, repr(case))
        ctx.note_case(key, len(real['trace']) > 0 and len(real['results']) > 0)
        ctx.count('sessions')
        ctx.count('ver=' + ver)
        ctx.count('cap=%d' % cap)
        ctx.count('ending=%s' % real['ending'][0])
        detail = {'case': [list(case[0])] + list(case[1:]),
                  'ops': [OPN[o[0]] for o in ops],
                  'impl': {k: real[k] for k in ('results', 'ending', 'trace', 'handed', 'pubs', 'cause', 'mark')},
                  'impl_readable': [res_str(r) for r in real['results']]}
        weird = [r for r in real['results'] if r[1] and r[1][0] == 99] + [t for t in real['trace'] if t[0][0] == 99]
        if weird or real['loop_errors'] or real['pending_tasks'] or 98 in real['pubs']:
            n_found += 1
            ctx.violation('c17-unexpected-behaviour',
                          dict(detail, unexpected=weird[:3], loop_errors=real['loop_errors'],
                               pending_tasks=real['pending_tasks']), key='unexpected')
            continue
        for what in bad.get(i, []):
            if what[0] == 'misuse':
                j = what[1]
                op = ops[j]
                res = real['results'][j]
                rc = EXC.get(res[1][0], '?') if res[0] == 1 else 'returned'
                mr = model_results[i][j] if j < len(model_results[i]) else None
                mrc = 'none' if mr is None else (EXC.get(mr[1][0], '?') if mr[0] == 1 else 'returned')
                n_found += 1
                ctx.violation('c17-misuse-undocumented-error',
                              dict(detail, at_op=j, op=OPN[op[0]], op_wire=op,
                                   public_state=['unaccepted', 'ready', 'closed'][real['pubs'][j]],
                                   result_class=rc, model_predicts=mrc,
                                   op_group='receive' if op[0] in (5, 6, 7, 10) else OPN[op[0]]),
                              key='misuse-%s-%s-%s' % (OPN[op[0]], real['pubs'][j], rc))
            elif what[0] == 'payload':
                n_found += 1
                ctx.violation('c17-payload-changed', dict(detail, at_op=what[1]), key='payload')
            else:
                n_found += 1
                ctx.violation('c17-session-illegal', dict(detail, clause=what[0], why=what[1]),
                              key='session-' + what[0])
        mres_, mend, mtrace, mhanded, mpub, mpubs = m
        mres_ = [r for r in mres_ if r != [2]]
        diff = None
        if mres_ != real['results']:
            diff = {'what': 'operation results', 'model': mres_}
        elif mend != real['ending']:
            diff = {'what': 'how the application ended', 'model': mend}
        elif mtrace != real['trace']:
            diff = {'what': 'calls of the server send()', 'model': mtrace}
        elif mhanded != real['handed']:
            diff = {'what': 'disconnect event handed over', 'model': mhanded}
        elif mpubs != real['pubs']:
            diff = {'what': 'public state (unaccepted/ready/closed) before each operation', 'model': mpubs}
        if diff is not None:
            corr.append((i in bad, dict(detail, first_difference=diff,
                                        broken='C17.session_corr (model and implementation disagree)')))
    return n_found, corr


def report_corr(ctx, corr, any_found):
    for has, detail in corr[:5]:
        if has:
            continue
        ctx.violation('correspondence-broken', detail, found_input=any_found, key='corr')


def small_cases(depth, full):
    """all responder scripts of <= depth operations over a small alphabet (every operation
    swallowed or not) x a few client scripts x every single send-failure point"""
    out = []
    clients = [[[2, [1001], 1]], [[0, 5, 1], [2, [], 0]], [[1, 6, 1], [0, 7, 0], [2, [1000], 0]]]
    fails_all = [[]] + [[[0]] * i + [k] for i in range(3) for k in ([1], [4], [2], [3])]
    cfgs = [('2.3', 1, 1011, 2, 1), ('2.0', 0, 999, 0, 0)] if not full else \
        [('2.3', 1, 1011, 2, 1), ('2.0', 0, 999, 0, 0), ('2.1', 2, 1011, 3, 0)]
    for n in range(depth + 1):
        for ops in itertools.product(OPS_SMALL, repeat=n):
            for catches in itertools.product([0, 1], repeat=n):
                sc = [[o, c] for o, c in zip(ops, catches)]
                for cl in clients:
                    for fl in fails_all:
                        for cfg in cfgs:
                            out.append((cfg, 1, [], [0, sc], cl, fl))
    return out


def close_fault_cases():
    """server faults placed exactly on the websocket.close events the wrapper / responder send:
    every fault kind (incl. the "invalid close code" rejections in their variants) on the first
    close and on the one after it, for normal return, HTTP error, unexpected exception, a
    responder-made close, before and after accept, valid and invalid configured error codes"""
    out = []
    acc = [[0, [0], 0], 0]
    scripts = [
        ([acc], 1), ([acc, [[8, 2, 0], 0]], 1), ([acc, [[8, 0, 403], 0]], 1), ([[[8, 2, 0], 0]], 0),
        ([acc, [[2, [0, 5, 0]], 0], [[8, 2, 0], 0]], 2), ([acc, [[1, [1, 1011], 0], 1]], 1),
        ([acc, [[1, [0], 0], 1], [[5], 1]], 1), ([acc, [[8, 3, 1001], 0]], 1),
    ]
    faults = [[5, 0], [5, 1], [5, 2], [5, 3], [4], [1], [2], [3]]
    for sc, idx in scripts:
        for err in (1011, 1000, 4000, 999, 1005):
            for f1 in faults:
                for f2 in ([0], [5, 1], [4]):
                    fl = [[0]] * idx + [f1, f2]
                    for ver in ('2.0', '2.3'):
                        out.append(((ver, 2, err, 0, 0), 1, [], [0, sc], [[0, 5, 0], [2, [1001], 0]], [list(x) for x in fl]))
    return out


def main(ctx):
    import falcon
    model = common.Model(ctx)
    ctx.cov['rule'] = ('one case = one WebSocket session (spec version, queue size, error close code, connect ok, '
                       'middleware script, route/responder script, client events, send-failure script) run on the '
                       'real falcon.asgi.App under the deterministic loop and on the extracted model, then judged by '
                       'the Spec oracles; non-trivial = at least one operation result and one send() call')
    ctx.assumptions += [
        'asyncio Task/Future semantics are trusted; the pump task only runs at OAdvance / when the application blocks',
        'server failures: OSError (optionally caused by "received NNNN ..."), "code = 1000 (OK)", '
        '"protocol accepted must be from the list", RuntimeError',
    ]
    any_found = False
    corr_all = []

    def batch(cases, tag, cut=True):
        nonlocal any_found
        done = 0
        for i in range(0, len(cases), 1000):
            if cut and over_deadline(ctx):
                break
            part = cases[i:i + 1000]
            reals = [run_real(falcon, c) for c in part]
            n, corr = judge(ctx, model, part, reals, tag)
            any_found |= n > 0
            corr_all.extend(corr)
            done += len(part)
        return done

    cor = [tuple(o['case']) for o in common.corpus('C17') if 'case' in o]
    if cor:
        batch([(tuple(c[0]),) + tuple(c[1:]) for c in cor], 'corpus', cut=False)
    quick = ctx.tier == 'quick'
    ex = small_cases(2 if quick else 3, not quick)
    if quick:
        ex = ctx.rng.sample(ex, min(len(ex), 6000))
    elif len(ex) > 400000:
        ex = ctx.rng.sample(ex, 400000)
    else:
        ctx.cov['exhaustive'] = False
    # interleave so that a deadline cut keeps both kinds
    n = 12000 if quick else 120000
    cases = [gen_case(ctx.rng) for _ in range(n)]
    cf = close_fault_cases()
    ctx.cov['close_fault_cases'] = batch(cf if not quick else ctx.rng.sample(cf, 700), 'closefault', cut=False)
    d_small = batch(ex[:1000], 'small', cut=False)
    d_rnd = batch(cases[:2000], 'rnd', cut=False)
    # alternate so that a cut keeps both kinds in proportion
    i = j = 0
    rest_s, rest_r = ex[1000:], cases[2000:]
    while (i < len(rest_s) or j < len(rest_r)) and not over_deadline(ctx):
        if i < len(rest_s):
            d_small += batch(rest_s[i:i + 1000], 'small')
            i += 1000
        if j < len(rest_r):
            d_rnd += batch(rest_r[j:j + 2000], 'rnd')
            j += 2000
    ctx.cov['small_scripts'] = {'planned': len(ex), 'run': d_small}
    ctx.cov['random_sessions'] = {'planned': n, 'run': d_rnd,
                                  'cut_by_deadline_s': QUICK_DEADLINE if (d_rnd < n or d_small < len(ex)) else None}
    ctx.sample({'case': [list(cases[0][0])] + list(cases[0][1:])})
    report_corr(ctx, corr_all, any_found)


def replay(ctx, obj):
    import falcon
    model = common.Model(ctx)
    if 'case' not in obj:
        return main(ctx)
    c = obj['case']
    case = (tuple(c[0]),) + tuple(c[1:])
    real = run_real(falcon, case)
    n, corr = judge(ctx, model, [case], [real], 'replay')
    ctx.note_case('replay2', True)
    ctx.sample({'replayed': c, 'impl': real['results'], 'trace': real['trace']})
    report_corr(ctx, corr, n > 0)
