"""C04 — every raised exception becomes the response its most specific handler defines.

Random exception class hierarchies (multiple inheritance), registration histories, raise sites
(middleware phases, hook, responder, body rendering), HTTPError/HTTPStatus objects with
arbitrary unicode attributes and Accept headers are run through the real falcon.App (direct
WSGI call) and falcon.asgi.App (direct ASGI call); the handler that ran, the status, the
headers and the *decoded* body are compared with the extracted Coq model (coq/C04/Model.v) and
judged by the proved oracle (coq/C04/Spec.v)."""
import asyncio
import io
import json
import logging
import xml.etree.ElementTree as et

import common

KNOWN = {}          # class -> id, filled per run (object 0, BaseException 1, Exception 2, ...)
X_TEST = 'application/x-test'


def class_id(c):
    if c not in KNOWN:
        KNOWN[c] = len(KNOWN)
    return KNOWN[c]


def init_known(falcon):
    KNOWN.clear()
    for c in (object, BaseException, Exception, falcon.HTTPError, falcon.HTTPStatus):
        class_id(c)


class Boom(Exception):
    """raised by a custom error handler: not an HTTPError/HTTPStatus"""


# ------------------------------------------------------------------ generators

TEXTS = ['', 'x', 'Not here', 'café ☃', '<&>"\'', 'a\nb\tc', 'éè', ']]>', '\U0001f600 ok',
         'line1\r\nline2', '{"json": 1}', 'x' * 40]
TEXTS += ['ctl\x0b\x01x', 'cr\rlf', 'tab\there', 'a&amp;b &lt; ]]> &#38;']
# lone surrogates: only in the dedicated generator (surrogate_cases)
SURR_TEXTS = ['lone \ud800 surrogate', '\udfff', 'x\udc00\ud800y']
HREFS = ['http://example.com/help', 'http://example.com/a b?q=é', '/rel/path', 'http://x/<y>&z=1']
ACCEPTS = [None, '*/*', 'application/json', 'text/xml', 'application/xml', 'application/xml;q=0.9, application/json',
           'application/json;q=0.1, application/xml', 'text/html', 'application/vnd.x+json', 'application/vnd.x+xml',
           'APPLICATION/VND.X+XML', X_TEST, X_TEST + ', application/json;q=0.5', 'text/xml, application/json',
           'application/xml, text/xml;q=0.9, */*;q=0.1', 'garbage', 'application/json, */*;q=0.5',
           'text/*', 'application/*', 'application/xml;q=0', 'application/x-test;q=0.3, application/xml;q=0.4',
           'image/png, application/problem+json', 'image/png, application/atom+xml;q=0.2']
MT_EXACT = ['application/json', 'application/xml', 'text/xml', X_TEST]
MT_VENDOR_JSON = ['application/vnd.api+json', 'application/problem+json', 'application/hal+JSON', 'image/svg+json']
MT_VENDOR_XML = ['application/atom+xml', 'application/vnd.x+xml', 'image/svg+XML', 'application/rss+xml']
MT_OTHER = ['text/csv', 'image/png', 'text/html', 'application/octet-stream', 'text/plain', 'application/yaml',
            'multipart/mixed']
MT_WILD = ['*/*', 'application/*', 'text/*', 'image/*']
PARAMS = ['', '', '', ';q=0.2', ';q=0.9', '; q=0', ';charset=utf-8', ';version=2;q=0.5', '; q=1.0', ';q=0.001']


def gen_accept(rng):
    """Accept headers from a grammar: 1-4 media ranges over exact / vendor+json / vendor+xml /
    other / wildcard types, with and without parameters and q-values, any order."""
    k = rng.random()
    if k < 0.06:
        return None
    if k < 0.1:
        return rng.choice(['garbage', '', 'application/json;q=abc', ',', 'a/b/c'])
    n = rng.choice([1, 1, 2, 2, 3, 4])
    # families drawn with a bias towards headers that match nothing directly (no wildcard,
    # no exact type): those exercise the '+json' / '+xml' substring fallbacks
    profile = rng.choice(['any', 'any', 'vendor-only', 'vendor-only', 'no-wild'])
    fams = {'any': [MT_EXACT, MT_VENDOR_JSON, MT_VENDOR_XML, MT_OTHER, MT_WILD],
            'vendor-only': [MT_VENDOR_JSON, MT_VENDOR_XML, MT_OTHER, MT_OTHER],
            'no-wild': [MT_EXACT, MT_VENDOR_JSON, MT_VENDOR_XML, MT_OTHER]}[profile]
    parts = []
    for _ in range(n):
        mt = rng.choice(rng.choice(fams))
        parts.append(mt + rng.choice(PARAMS))
    return rng.choice([', ', ',', ' , ']).join(parts)


HEADER_SETS = [None, [], [['X-Err', '1']], [['x-err', '2'], ['X-Other', 'v']], {'Vary': 'Origin'},
               [['Content-Type', 'text/plain']], {'X-Err': 'dict'}]
STATUSES = [400, 404, 409, 418, 500, 503, 299, 200, 745]


def rnd_opt(rng, xs, p_none=0.4):
    return None if rng.random() < p_none else rng.choice(xs)


def gen_herr_args(rng):
    return {'status': rng.choice(STATUSES), 'title': rnd_opt(rng, TEXTS), 'description': rnd_opt(rng, TEXTS),
            'headers': rng.choice(HEADER_SETS), 'href': rnd_opt(rng, HREFS, 0.6), 'href_text': rnd_opt(rng, TEXTS, 0.6),
            'code': rnd_opt(rng, [0, 7, -3, 10 ** 12, 'E42', '', 'cöde <1>'], 0.6)}


def gen_hstat_args(rng):
    return {'status': rng.choice(STATUSES), 'headers': rng.choice(HEADER_SETS), 'text': rnd_opt(rng, TEXTS)}


def status_arg(rng, code, falcon):
    """int, str line, or http.HTTPStatus for codes that have one"""
    import http
    k = rng.randint(0, 2)
    if k == 0:
        return code
    if k == 1:
        return falcon.code_to_http_status(code)
    try:
        return http.HTTPStatus(code)
    except ValueError:
        return code


def gen_hierarchy(rng, falcon, n):
    """user classes on top of Exception / HTTPError subclasses / HTTPStatus / builtins"""
    roots = [Exception, Exception, falcon.HTTPError, falcon.HTTPNotFound, falcon.HTTPStatus, ValueError, KeyError,
             LookupError, BaseException, OSError]
    classes = []
    tries = 0
    while len(classes) < n and tries < 50:
        tries += 1
        pool = roots + classes * 3
        k = rng.choice([1, 1, 1, 2, 2, 3])
        bases = []
        for _ in range(k):
            b = rng.choice(pool)
            if b not in bases:
                bases.append(b)
        try:
            c = type('U%d' % len(classes), tuple(bases), {})
        except TypeError:
            continue   # inconsistent MRO / layout conflict
        if issubclass(c, falcon.HTTPError) and issubclass(c, falcon.HTTPStatus):
            continue
        classes.append(c)
    return classes


def make_instance(rng, falcon, c):
    """An instance with all public attributes in place, or None if the class cannot be
    instantiated through the HTTPError/HTTPStatus constructor (another __init__ comes first)."""
    ex = _make_instance(rng, falcon, c)
    try:
        if isinstance(ex, falcon.HTTPError):
            wire_herr(ex)
        elif isinstance(ex, falcon.HTTPStatus):
            wire_hstat(ex)
    except Exception:
        return None
    return ex


def _make_instance(rng, falcon, c):
    try:
        if issubclass(c, falcon.HTTPError):
            a = gen_herr_args(rng)
            if c is falcon.HTTPNotFound or (falcon.HTTPNotFound in c.__mro__ and falcon.HTTPError in c.__mro__
                                            and c.__mro__.index(falcon.HTTPNotFound) < c.__mro__.index(falcon.HTTPError)):
                kw = {k: v for k, v in a.items() if k != 'status'}
                kw.pop('href_text')
                kw.pop('href')
                kw.pop('code')
                return c(**kw)
            st = status_arg(rng, a.pop('status'), falcon)
            return c(st, **a)
        if issubclass(c, falcon.HTTPStatus):
            a = gen_hstat_args(rng)
            return c(status_arg(rng, a['status'], falcon), a['headers'], a['text'])
        return c('boom')
    except Exception:
        return None


def pairs_of(headers):
    if headers is None:
        return []
    items = headers.items() if hasattr(headers, 'items') else headers
    return [[[k, v] for k, v in items]]


def wire_herr(e):
    link = []
    if e.link is not None:
        link = [[e.link['text'], e.link['href'], e.link['rel']]]
    return [e.status_code, e.title, [] if e.description is None else [e.description],
            [] if e.code is None else [[0, e.code] if isinstance(e.code, int) else [1, e.code]], link,
            pairs_of(e.headers)]


def wire_hstat(s):
    return [s.status_code, [] if s.text is None else [s.text], pairs_of(s.headers)]


def wire_exc(falcon, ex):
    mro = [class_id(c) for c in type(ex).__mro__]
    if isinstance(ex, falcon.HTTPError):
        return [mro, [0, wire_herr(ex)]]
    if isinstance(ex, falcon.HTTPStatus):
        return [mro, [1, wire_hstat(ex)]]
    return [mro, [2]]


def gen_writes(rng):
    return {'status': rnd_opt(rng, [201, 202, 404, 203], 0.7), 'text': rnd_opt(rng, TEXTS, 0.6),
            'data': rnd_opt(rng, [b'raw', b'\x00\xff'], 0.7), 'media': rnd_opt(rng, [0], 0.7),
            'headers': rng.choice([[], [], [['X-App', 'a']], [['Vary', 'Cookie']], [['X-App', 'b'], ['x-app', 'c']]]),
            'render': False}


def wire_writes(w):
    o = lambda x: [] if x is None else [x]
    return [o(w['status']), o(w['text']), o(w['data']), o(w['media']), w['headers'], int(bool(w.get('render')))]


MEDIA_OBJ = {0: {'ok': 1}, 2: {'handled': 'by the error handler'}}


def apply_writes(resp, w):
    if w['status'] is not None:
        resp.status = w['status']
    if w['text'] is not None:
        resp.text = w['text']
    if w['data'] is not None:
        resp.data = w['data']
    if w['media'] is not None:
        resp.media = MEDIA_OBJ.get(w['media'], object())
    resp.set_headers(w['headers'])


# ------------------------------------------------------------------ one scenario on the real framework

SITES = ['responder', 'process_request', 'process_resource', 'process_response', 'before_hook', 'render', 'none']


class XTestHandler:
    """media handler for application/x-test: marker + JSON"""
    def __init__(self, media):
        self._base = media.BaseHandler

    def serialize(self, obj, content_type=None):
        return b'XT' + json.dumps(obj, ensure_ascii=False).encode()

    async def serialize_async(self, obj, content_type=None):
        return self.serialize(obj, content_type)

    def deserialize(self, stream, content_type, content_length):
        raise NotImplementedError

    async def deserialize_async(self, stream, content_type, content_length):
        raise NotImplementedError

    exhaust_stream = False
    _serialize_sync = None
    _deserialize_sync = None


def build_scenario(rng, falcon):
    """Everything random about one scenario, as plain data + live objects."""
    classes = gen_hierarchy(rng, falcon, rng.randint(1, 8))
    # registration history
    nh = rng.randint(0, 6)
    scripts = []
    hist = []
    for n in range(nh):
        end = rng.choice(['return', 'return', 'error', 'status', 'other'])
        sc = {'writes': gen_writes(rng), 'end': end}
        if sc['writes']['media'] is not None:
            sc['writes']['media'] = 2      # distinguishable from the pre-exception payload
        if end != 'return':
            # application media next to a negotiated error content type may not be renderable
            sc['writes']['media'] = None
        if end == 'error':
            a = gen_herr_args(rng)
            st = status_arg(rng, a.pop('status'), falcon)
            sc['obj'] = falcon.HTTPError(st, **a)
        elif end == 'status':
            a = gen_hstat_args(rng)
            sc['obj'] = falcon.HTTPStatus(status_arg(rng, a['status'], falcon), a['headers'], a['text'])
        scripts.append(sc)
        pool = classes + [Exception, falcon.HTTPError, falcon.HTTPStatus, falcon.HTTPNotFound, ValueError, LookupError]
        if rng.random() < 0.3:
            tup = [rng.choice(pool) for _ in range(rng.randint(1, 3))]
            if rng.random() < 0.15:
                tup.insert(rng.randint(0, len(tup)), int)
            hist.append((tuple(tup), n))
        else:
            hist.append((rng.choice(pool), n))
    raise_pool = classes * 3 + [ValueError, KeyError, falcon.HTTPNotFound, falcon.HTTPError, falcon.HTTPStatus,
                                falcon.HTTPBadRequest, ZeroDivisionError]
    site = rng.choice(SITES)
    ex = None
    if site not in ('render', 'none'):
        for _ in range(10):
            ex = make_instance(rng, falcon, rng.choice(raise_pool))
            if ex is not None:
                break
        if ex is None:
            ex = ValueError('x')
    return {'classes': classes, 'hist': hist, 'scripts': scripts, 'site': site, 'ex': ex,
            'writes': dict(gen_writes(rng), render=(site != 'render' and rng.random() < 0.35)), 'accept': rng.choice(ACCEPTS) if rng.random() < 0.35 else gen_accept(rng),
            'xml': rng.random() < 0.7,
            'handlers': rng.choice(['default', 'default', 'xtest', 'jsononly']),
            'render_media': rng.choice([1, 1, 2]) if site == 'render' else None}


def wire_script(falcon, sc):
    end = sc['end']
    if end == 'return':
        e = [0]
    elif end == 'error':
        e = [1, wire_herr(sc['obj'])]
    elif end == 'status':
        e = [2, wire_hstat(sc['obj'])]
    else:
        e = [3]
    return [wire_writes(sc['writes']), e]


def run_scenario(falcon, testing, sc, asgi):
    """Build the app, run one request; returns observation + the oracle inputs computed from
    the live objects (client_prefers, _resolve)."""
    import falcon.asgi
    import falcon.media
    ran = []
    scripts = sc['scripts']

    def handler_body(n, resp):
        ran.append(n)
        s = scripts[n]
        apply_writes(resp, s['writes'])
        if s['end'] in ('error', 'status'):
            raise s['obj']
        if s['end'] == 'other':
            raise Boom()

    def mk_handler(n):
        if asgi:
            async def h(req, resp, ex, params):
                handler_body(n, resp)
        else:
            def h(req, resp, ex, params):
                handler_body(n, resp)
        return h

    site, ex, w = sc['site'], sc['ex'], sc['writes']

    def act(here, resp):
        # the application's own writes happen at the raising site (or in the responder when
        # nothing is raised before rendering / the raise comes later in process_response)
        if here == site and site not in ('process_response',):
            apply_writes(resp, w)
        elif here == 'responder' and site in ('render', 'none', 'process_response'):
            apply_writes(resp, w)
        if here == 'responder' and site == 'render':
            resp.media = object() if sc['render_media'] == 1 else {'ok': 1}
            if sc['render_media'] == 2:
                resp.content_type = 'application/x-unknown'
        # an early resp.render_body() (a middleware / the responder peeking at the body)
        wrote = (here == site and site != 'process_response') or \
                (here == 'responder' and site in ('none', 'process_response'))
        return bool(w.get('render')) and wrote

    def fin(here):
        if here == site:
            raise ex

    if asgi:
        class MW:
            async def process_request(self, req, resp):
                if act('process_request', resp):
                    await resp.render_body()
                fin('process_request')

            async def process_resource(self, req, resp, resource, params):
                if act('process_resource', resp):
                    await resp.render_body()
                fin('process_resource')

            async def process_response(self, req, resp, resource, req_succeeded):
                if act('process_response', resp):
                    await resp.render_body()
                fin('process_response')

        async def hook(req, resp, resource, params):
            if act('before_hook', resp):
                await resp.render_body()
            fin('before_hook')

        class Res:
            @falcon.before(hook)
            async def on_get(self, req, resp):
                if act('responder', resp):
                    await resp.render_body()
                fin('responder')
    else:
        class MW:
            def process_request(self, req, resp):
                if act('process_request', resp):
                    resp.render_body()
                fin('process_request')

            def process_resource(self, req, resp, resource, params):
                if act('process_resource', resp):
                    resp.render_body()
                fin('process_resource')

            def process_response(self, req, resp, resource, req_succeeded):
                if act('process_response', resp):
                    resp.render_body()
                fin('process_response')

        def hook(req, resp, resource, params):
            if act('before_hook', resp):
                resp.render_body()
            fin('before_hook')

        class Res:
            @falcon.before(hook)
            def on_get(self, req, resp):
                if act('responder', resp):
                    resp.render_body()
                fin('responder')

    App = falcon.asgi.App if asgi else falcon.App
    app = App(middleware=[MW()])
    app.add_route('/', Res())
    app.resp_options.xml_error_serialization = sc['xml']
    if sc['handlers'] == 'xtest':
        app.resp_options.media_handlers[X_TEST] = XTestHandler(falcon.media)
    elif sc['handlers'] == 'jsononly':
        app.resp_options.media_handlers = falcon.media.Handlers({falcon.MEDIA_JSON: falcon.media.JSONHandler()})
    reg_ok = []
    for target, n in sc['hist']:
        try:
            app.add_error_handler(target, mk_handler(n))
            reg_ok.append(True)
        except TypeError:
            reg_ok.append(False)
    headers = {} if sc['accept'] is None else {'Accept': sc['accept']}
    # ---- oracle inputs (stdlib-like behaviour that the model takes as given)
    opts = app.resp_options
    predefined = [falcon.MEDIA_JSON, 'text/xml', falcon.MEDIA_XML] if sc['xml'] else [falcon.MEDIA_JSON]
    lst = predefined + [mt for mt in opts.media_handlers if mt not in predefined]
    req0 = testing.create_req(headers=headers)
    preferred = req0.client_prefers(lst)
    resolvable = [t for t in set(lst + [falcon.MEDIA_XML, falcon.MEDIA_JSON])
                  if opts.media_handlers._resolve(t, falcon.MEDIA_JSON, raise_not_found=False)[0]]
    ncfg = [sc['xml'], [] if preferred is None else [preferred], req0.accept, sorted(resolvable)]
    # ---- the request
    obs = {}
    if asgi:
        scope = testing.create_scope(path='/', method='GET', headers=headers)
        msgs = [{'type': 'http.request', 'body': b'', 'more_body': False}]
        sent = []

        async def receive():
            return msgs.pop(0) if msgs else {'type': 'http.disconnect'}

        async def send(ev):
            sent.append(ev)

        async def go():
            await app(scope, receive, send)
        try:
            asyncio.run(go())
            start = [e for e in sent if e['type'] == 'http.response.start']
            assert len(start) == 1
            obs['status'] = start[0]['status']
            obs['headers'] = {k.decode('latin-1').lower(): v.decode('latin-1') for k, v in start[0]['headers']}
            obs['body'] = b''.join(e.get('body', b'') for e in sent if e['type'] == 'http.response.body')
            obs['escaped'] = None
        except BaseException as e:  # noqa
            obs['escaped'] = type(e).__name__
    else:
        env = testing.create_environ(path='/', method='GET', headers=headers, wsgierrors=io.StringIO())
        started = []

        def start_response(status, hdrs, exc_info=None):
            started.append((status, hdrs))
        try:
            it = app(env, start_response)
            body = b''.join(it)
            assert len(started) == 1
            obs['status'] = int(started[0][0].split(' ')[0])
            obs['headers'] = {k.lower(): v for k, v in started[0][1]}
            obs['body'] = body
            obs['escaped'] = None
        except BaseException as e:  # noqa
            obs['escaped'] = type(e).__name__
    obs['ran'] = ran
    return obs, ncfg, reg_ok


def wire_hist(sc):
    out = []
    for target, n in sc['hist']:
        tup = target if isinstance(target, tuple) else (target,)
        out.append([[[class_id(c), issubclass(c, BaseException)] for c in tup], [3, n]])
    return out


def handlers_for(falcon, kind):
    import falcon.media
    if kind == 'jsononly':
        return falcon.media.Handlers({falcon.MEDIA_JSON: falcon.media.JSONHandler()})
    h = falcon.media.Handlers()
    if kind == 'xtest':
        h[X_TEST] = XTestHandler(falcon.media)
    return h


def media_fails_table(falcon, sc):
    """what rendering resp.media raises (exception objects obtained from the live handlers):
    [[content types whose handler does not resolve or cannot serialize], [application objects
    that do not serialize]]"""
    ctypes, tags = [], []
    handlers = handlers_for(falcon, sc['handlers'])
    try:
        handlers._resolve('application/x-unknown', falcon.MEDIA_JSON)
    except falcon.HTTPError as e:
        ctypes.append(['application/x-unknown', wire_exc(falcon, e)])
    for mt in list(handlers):
        # request-only handlers (multipart) cannot serialize: negotiating such a type for an
        # error makes rendering fail
        try:
            handlers._resolve(mt, falcon.MEDIA_JSON)[0].serialize({'title': 'x'}, mt)
        except Exception as e:  # noqa
            ctypes.append([mt, wire_exc(falcon, e)])
    try:
        json.dumps(object())
    except TypeError as e:
        tags.append([1, wire_exc(falcon, e)])
    return [ctypes, tags]


def model_case(falcon, sc, ncfg, fixed=True):
    w = dict(sc['writes'])
    if sc['site'] == 'render':
        w['media'] = 1 if sc['render_media'] == 1 else 0
        if sc['render_media'] == 2:
            w = dict(w, headers=w['headers'] + [['Content-Type', 'application/x-unknown']])
    raised = [] if sc['ex'] is None else [wire_exc(falcon, sc['ex'])]
    return [0, fixed, wire_hist(sc), [wire_script(falcon, s) for s in sc['scripts']], ncfg,
            media_fails_table(falcon, sc), wire_writes(w), raised]


def dict_of_errdict(d):
    out = {'title': common.wstr(d[0])}
    if d[1]:
        out['description'] = common.wstr(d[1][0])
    if d[2]:
        out['code'] = d[2][0][1] if d[2][0][0] == 0 else common.wstr(d[2][0][1])
    if d[3]:
        t, h, r = d[3][0]
        out['link'] = {'text': common.wstr(t), 'href': common.wstr(h), 'rel': common.wstr(r)}
    return out


def xml_to_dict(b):
    root = et.fromstring(b.decode('utf-8'))
    assert root.tag == 'error'
    out = {}
    for ch in root:
        if ch.tag == 'link':
            out['link'] = {c.tag: (c.text or '') for c in ch}
        elif ch.tag == 'code':
            out['code'] = int(ch.text)
        else:
            out[ch.tag] = ch.text or ''
    return out


def body_matches(mbody, body):
    """model body descriptor vs real bytes; returns (ok, what)"""
    k = mbody[0]
    if k == 0:
        return body == b'', 'empty body expected'
    if k == 1:
        return body == common.wstr(mbody[1]).encode('utf-8', 'surrogatepass'), 'text'
    d = mbody[1]
    if k == 2:
        if d[0] == 0:
            return body == bytes(d[1]), 'raw data'
        # BINDING, byte level: the body must be exactly the bytes of the proved printers
        # (JSON: utf8(print(to_dict_jv e)), C04_error_json_body_faithful on top of coq/C12;
        #  XML: xml_body e, C04_error_xml_body_faithful)
        if not d[2]:
            return False, 'the model says encoding this error body raises UnicodeEncodeError'
        exp = bytes(d[2][0])
        if d[0] == 1:
            return body == exp, 'json error body: expected exactly %r' % exp[:300]
        return body == exp, 'xml error body: expected exactly %r' % exp[:300]
    if d[0] == 0:
        exp = dict_of_errdict(d[1])
        try:
            if body.startswith(b'XT'):
                return json.loads(body[2:].decode('utf-8')) == exp, 'x-test media error body'
            return json.loads(body.decode('utf-8')) == exp, 'media error body'
        except Exception as e:
            import urllib.parse
            if body == urllib.parse.urlencode(exp, doseq=True).encode():
                return True, 'urlencoded media error body'
            return False, 'undecodable media body: %r' % e
    try:
        return json.loads(body.decode('utf-8')) == MEDIA_OBJ[d[1]], 'application media'
    except Exception as e:
        return False, 'undecodable application media: %r' % e


def describe(falcon, sc):
    return {'classes': [[c.__name__, [b.__name__ for b in c.__bases__]] for c in sc['classes']],
            'hist': [[[c.__name__ for c in (t if isinstance(t, tuple) else (t,))], n] for t, n in sc['hist']],
            'scripts': [{'writes': repr(s['writes']), 'end': s['end'], 'obj': repr(s.get('obj'))} for s in sc['scripts']],
            'site': sc['site'], 'raised': repr(sc['ex']), 'raised_mro': [c.__name__ for c in type(sc['ex']).__mro__] if sc['ex'] is not None else None,
            'writes': repr(sc['writes']), 'accept': sc['accept'], 'xml_error_serialization': sc['xml'],
            'media_handlers': sc['handlers'], 'render_media': sc['render_media']}


def check_scenarios(ctx, model, falcon, testing, seeds, asgi_choice):
    import random
    cases, metas = [], []
    for seed in seeds:
        init_known(falcon)
        if isinstance(seed, dict):
            # a fixed scenario from corpus/ (no randomness)
            sc = dict(classes=[], hist=[], scripts=[], ex=None,
                      writes={'status': None, 'text': None, 'data': None, 'media': None, 'headers': []},
                      accept=seed.get('accept'), xml=True, handlers='default',
                      site='render', render_media=seed['render_media'])
            asgi = bool(seed.get('asgi'))
            seed = 'corpus:%s:%d' % (seed['render_media'], asgi)
        else:
            rng = random.Random(seed)
            sc = build_scenario(rng, falcon)
            asgi = asgi_choice(rng)
        obs, ncfg, reg_ok = run_scenario(falcon, testing, sc, asgi)
        cases.append(model_case(falcon, sc, ncfg))
        metas.append((seed, sc, asgi, obs, ncfg, reg_ok))
    outs = model.run_many(cases)
    ocases, oidx = [], []
    for i, ((seed, sc, asgi, obs, ncfg, reg_ok), m) in enumerate(zip(metas, outs)):
        ctx.count('asgi' if asgi else 'wsgi')
        ctx.count('site:' + sc['site'])
        ctx.note_case(('sc', seed, asgi), bool(obs['ran']) or sc['ex'] is not None or sc['site'] == 'render')
        detail = {'scenario_seed': seed, 'asgi': asgi, 'scenario': describe(falcon, sc),
                  'impl': {k: (v.decode('latin-1') if isinstance(v, bytes) else v) for k, v in obs.items()}}
        # registration success/failure (TypeError exactly for a non-exception entry)
        exp_ok = [all(issubclass(c, BaseException) for c in (t if isinstance(t, tuple) else (t,))) for t, n in sc['hist']]
        if exp_ok != reg_ok:
            ctx.violation('registration-typeerror', dict(detail, expected=exp_ok, got=reg_ok), key='reg')
        mres, mhs = m[1], m[2]
        exp_ran = [h[0][1] for h in mhs if h and h[0][0] == 3]
        # the oracle on the first handling
        if sc['ex'] is not None:
            first = [] if not obs['ran'] else [[3, obs['ran'][0]]]
            default_ran = not obs['ran'] and obs['escaped'] is None
            if default_ran:
                # a default handler ran: identify it from the model's spec side (it is not
                # instrumented); the oracle still checks escape/500
                first = mhs[0] if mhs and mhs[0] and mhs[0][0][0] != 3 else []
            ocases.append([2, wire_hist(sc), [wire_script(falcon, s) for s in sc['scripts']], wire_exc(falcon, sc['ex']),
                           first, obs['escaped'] is not None, obs.get('status', 0)])
            oidx.append(i)
        # model vs implementation
        diffs = []
        if (mres[0] == 0) != (obs['escaped'] is not None):
            diffs.append('escape: model %s, impl %s' % (mres[0] == 0, obs['escaped']))
        if exp_ran != obs['ran']:
            diffs.append('handlers that ran: model %s, impl %s' % (exp_ran, obs['ran']))
        if mres[0] == 1 and obs['escaped'] is None:
            if mres[1] != obs['status']:
                diffs.append('status: model %s, impl %s' % (mres[1], obs['status']))
            mh = {common.wstr(k): common.wstr(v) for k, v in mres[2]}
            for k, v in mh.items():
                if obs['headers'].get(k) != v:
                    diffs.append('header %s: model %r, impl %r' % (k, v, obs['headers'].get(k)))
            # the FULL header set: nothing but the model's headers and the two framing
            # headers the framework supplies while sending (C05)
            for k in obs['headers']:
                if k not in mh and k not in ('content-length', 'content-type'):
                    diffs.append('header %s: foreign header %r in the response' % (k, obs['headers'][k]))
            ok, what = body_matches(mres[3], obs['body'])
            if not ok:
                diffs.append('body (%s): impl %r' % (what, obs['body'][:200]))
        if diffs:
            detail['diffs'] = diffs
            detail['model'] = repr(m)
            kind = 'error-response-differs'
            ctx.violation(kind, detail, key='diff-' + diffs[0].split(':')[0])
    fails = model.run_many(ocases)
    for i, f in zip(oidx, fails):
        if f[1]:
            seed, sc, asgi, obs, ncfg, reg_ok = metas[i]
            detail = {'scenario_seed': seed, 'asgi': asgi, 'scenario': describe(falcon, sc),
                      'impl': {k: (v.decode('latin-1') if isinstance(v, bytes) else v) for k, v in obs.items()},
                      'clauses_failed': f[1],
                      'clause_names': {'1': 'not the nearest/latest handler', '2': 'escape', '3': 'default not 500',
                                       '4': 'handler registered for a non-Exception BaseException class is never invoked'}}
            if f[1] == [4]:
                ctx.violation('baseexception-handler-ignored',
                              dict(detail, finding='handler registered for a BaseException-derived class that is not '
                                                   'Exception-derived; the raised object escapes unhandled'),
                              key='oracle-4')
            else:
                ctx.violation('handler-selection-violated', detail, key='oracle-%s' % f[1])
    return metas


# ------------------------------------------------------------------ generic request driver

def call_app(testing, app, asgi, method='GET', path='/', headers=None):
    """one request against a real app (direct WSGI / ASGI call); the full observation"""
    headers = headers or {}
    obs = {}
    if asgi:
        scope = testing.create_scope(path=path, method=method, headers=headers)
        msgs = [{'type': 'http.request', 'body': b'', 'more_body': False}]
        sent = []

        async def receive():
            return msgs.pop(0) if msgs else {'type': 'http.disconnect'}

        async def send(ev):
            sent.append(ev)

        async def go():
            await app(scope, receive, send)
        try:
            asyncio.run(go())
            start = [e for e in sent if e['type'] == 'http.response.start']
            assert len(start) == 1
            obs['status'] = start[0]['status']
            obs['headers'] = {k.decode('latin-1').lower(): v.decode('latin-1') for k, v in start[0]['headers']}
            obs['body'] = b''.join(e.get('body', b'') for e in sent if e['type'] == 'http.response.body')
            obs['escaped'] = None
        except BaseException as e:  # noqa
            obs['escaped'] = type(e).__name__
    else:
        env = testing.create_environ(path=path, method=method, headers=headers, wsgierrors=io.StringIO())
        started = []

        def start_response(status, hdrs, exc_info=None):
            started.append((status, hdrs))
        try:
            body = b''.join(app(env, start_response))
            assert len(started) == 1
            obs['status'] = int(started[0][0].split(' ')[0])
            obs['headers'] = {k.lower(): v for k, v in started[0][1]}
            obs['body'] = body
            obs['escaped'] = None
        except BaseException as e:  # noqa
            obs['escaped'] = type(e).__name__
    return obs


def negotiation_inputs(falcon, testing, opts, xml, headers):
    predefined = [falcon.MEDIA_JSON, 'text/xml', falcon.MEDIA_XML] if xml else [falcon.MEDIA_JSON]
    lst = predefined + [mt for mt in opts.media_handlers if mt not in predefined]
    req0 = testing.create_req(headers=headers)
    preferred = req0.client_prefers(lst)
    resolvable = [t for t in set(lst + [falcon.MEDIA_XML, falcon.MEDIA_JSON])
                  if opts.media_handlers._resolve(t, falcon.MEDIA_JSON, raise_not_found=False)[0]]
    return [xml, [] if preferred is None else [preferred], req0.accept, sorted(resolvable)]


def response_diffs(mres, obs):
    """model result vs observation: status, every model header, NO foreign header, body"""
    diffs = []
    if (mres[0] == 0) != (obs['escaped'] is not None):
        diffs.append('escape: model %s, impl %s' % (mres[0] == 0, obs['escaped']))
    if mres[0] == 1 and obs['escaped'] is None:
        if mres[1] != obs['status']:
            diffs.append('status: model %s, impl %s' % (mres[1], obs['status']))
        mh = {common.wstr(k): common.wstr(v) for k, v in mres[2]}
        for k, v in mh.items():
            if obs['headers'].get(k) != v:
                diffs.append('header %s: model %r, impl %r' % (k, v, obs['headers'].get(k)))
        for k in obs['headers']:
            if k not in mh and k not in ('content-length', 'content-type'):
                diffs.append('header %s: foreign header %r in the response' % (k, obs['headers'][k]))
        ok, what = body_matches(mres[3], obs['body'])
        if not ok:
            diffs.append('body (%s): impl %r' % (what, obs['body'][:200]))
    return diffs


# ------------------------------------------------------------------ one app over time (sessions)

def run_sessions(ctx, model, falcon, testing, seeds_asgi):
    sessions = [run_session(ctx, model, falcon, testing, seed, asgi) for seed, asgi in seeds_asgi]
    for i in range(0, len(sessions), 5000):
        part = sessions[i:i + 5000]
        for sess, m in zip(part, model.run_many([x['wire'] for x in part])):
            judge_session(ctx, sess, m)


def run_session(ctx, model, falcon, testing, seed, asgi):
    """add_error_handler calls interleaved with requests on ONE app instance"""
    import random
    import falcon.asgi
    rng = random.Random(seed)
    init_known(falcon)
    classes = gen_hierarchy(rng, falcon, rng.randint(2, 7))
    ran = []
    cur = {}

    def mk_handler(n):
        if asgi:
            async def h(req, resp, ex, params):
                ran.append(n)
                resp.status = 590
        else:
            def h(req, resp, ex, params):
                ran.append(n)
                resp.status = 590
        return h
    if asgi:
        class Res:
            async def on_get(self, req, resp):
                raise cur['ex']
    else:
        class Res:
            def on_get(self, req, resp):
                raise cur['ex']
    app = (falcon.asgi.App if asgi else falcon.App)()
    app.add_route('/', Res())
    catchable = [c for c in classes if issubclass(c, Exception)]
    reg_pool = classes * 2 + [Exception, falcon.HTTPError, falcon.HTTPStatus, falcon.HTTPNotFound, ValueError,
                              LookupError, KeyError]
    raise_pool = catchable * 3 + [ValueError, KeyError, falcon.HTTPNotFound, falcon.HTTPBadRequest, ZeroDivisionError,
                                  falcon.HTTPStatus]
    # a few concrete types are raised again and again, with registrations in between
    targets = [rng.choice(raise_pool) for _ in range(rng.randint(1, 3))]
    ops, wire_ops, log = [], [], []
    nreg = 0
    for _ in range(rng.randint(4, 12)):
        if rng.random() < 0.45:
            if rng.random() < 0.3:
                tup = tuple(rng.choice(reg_pool) for _ in range(rng.randint(1, 3)))
                if rng.random() < 0.15:
                    tup = tup[:1] + (int,) + tup[1:]
            else:
                tup = (rng.choice(reg_pool),)
            n = nreg
            nreg += 1
            try:
                app.add_error_handler(tup if len(tup) > 1 else tup[0], mk_handler(n))
                ok = True
            except TypeError:
                ok = False
            exp_ok = all(issubclass(c, BaseException) for c in tup)
            if ok != exp_ok:
                ctx.violation('registration-typeerror', {'session_seed': seed, 'asgi': asgi,
                                                         'classes': [c.__name__ for c in tup]}, key='sess-reg')
            wire_ops.append([0, [[[class_id(c), issubclass(c, BaseException)] for c in tup], [3, n]]])
            log.append(['add_error_handler', [c.__name__ for c in tup], n])
        else:
            c = rng.choice(targets)
            ex = make_instance(rng, falcon, c) or ValueError('x')
            cur['ex'] = ex
            del ran[:]
            obs = call_app(testing, app, asgi)
            wire_ops.append([1, [class_id(k) for k in type(ex).__mro__]])
            ops.append((ex, list(ran), obs))
            log.append(['raise', type(ex).__name__, [k.__name__ for k in type(ex).__mro__], 'ran', list(ran),
                        obs.get('status'), obs['escaped']])
    return {'seed': seed, 'asgi': asgi, 'wire': [3, [], wire_ops], 'ops': ops, 'log': log}


def judge_session(ctx, sess, m):
    seed, asgi, ops, log = sess['seed'], sess['asgi'], sess['ops'], sess['log']
    ctx.count('session')
    ctx.note_case(('session', seed, asgi), bool(ops))
    bad = []
    if m[1] != m[2]:
        ctx.violation('model-fails-own-oracle', {'session_seed': seed, 'model': m}, found_input=False, key='sess-model')
    for k, ((ex, r, obs), exp) in enumerate(zip(ops, m[2])):
        if not exp:
            good = obs['escaped'] is not None and not r
        elif exp[0][0] == 3:
            good = r == [exp[0][1]] and obs['escaped'] is None and obs['status'] == 590
        elif exp[0][0] == 0:
            good = not r and obs['escaped'] is None and obs['status'] == 500
        else:
            good = not r and obs['escaped'] is None and obs['status'] == ex.status_code
        if not good:
            bad.append({'request_index': k, 'raised': type(ex).__name__, 'expected_handler': exp,
                        'impl_ran': r, 'impl_status': obs.get('status'), 'impl_escaped': obs['escaped']})
    if bad:
        ctx.violation('handler-selection-violated',
                      {'session_seed': seed, 'asgi': asgi, 'what': 'registrations interleaved with requests on one app',
                       'session': log, 'mismatches': bad,
                       'legend': 'expected_handler [[3,n]] = n-th add_error_handler call of the session; [[0,0]] '
                                 'default Exception handler; [[1,0]] default HTTPError; [[2,0]] default HTTPStatus'},
                      key='session-%d' % asgi)


# ------------------------------------------------------------------ sequences of header-bearing errors

ERR_KINDS = ['auto405', '405', '401', '401-none', '429', '503', '413', '416', '404', '429-none']


def make_error(falcon, kind, arg, user_headers):
    kw = {} if user_headers is None else {'headers': [list(p) for p in user_headers]}
    if kind == '405':
        return falcon.HTTPMethodNotAllowed(list(arg), **kw)
    if kind == '401':
        return falcon.HTTPUnauthorized(challenges=list(arg), **kw)
    if kind == '401-none':
        return falcon.HTTPUnauthorized(**kw)
    if kind == '429':
        return falcon.HTTPTooManyRequests(retry_after=arg, **kw)
    if kind == '429-none':
        return falcon.HTTPTooManyRequests(**kw)
    if kind == '503':
        return falcon.HTTPServiceUnavailable(retry_after=arg, **kw)
    if kind == '413':
        return falcon.HTTPContentTooLarge(retry_after=arg, **kw) if hasattr(falcon, 'HTTPContentTooLarge') \
            else falcon.HTTPPayloadTooLarge(retry_after=arg, **kw)
    if kind == '416':
        return falcon.HTTPRangeNotSatisfiable(arg, **kw)
    return falcon.HTTPNotFound(**kw)


def wire_ctor(kind, arg):
    if kind in ('auto405', '405'):
        return [0, list(arg)]
    if kind == '401':
        return [1, list(arg)]
    if kind == '401-none':
        return [1, []]
    if kind in ('429', '503', '413'):
        return [2, [str(arg)]]
    if kind == '429-none':
        return [2, []]
    if kind == '416':
        return [3, str(arg)]
    return [4]


def run_error_sequence(ctx, model, falcon, testing, seed):
    """2-4 different header-bearing HTTPErrors in sequence on the same app and across two app
    instances (WSGI and ASGI): each response must carry exactly its own error's headers.  The
    expected headers come from the constructor ARGUMENTS through the model (ctor_headers),
    never from the live error object."""
    import random
    import falcon.asgi
    rng = random.Random(seed)
    init_known(falcon)
    cur = {}

    def build(asgi):
        if asgi:
            class Res:
                async def on_get(self, req, resp):
                    raise make_error(falcon, *cur['spec'])
        else:
            class Res:
                def on_get(self, req, resp):
                    raise make_error(falcon, *cur['spec'])
        app = (falcon.asgi.App if asgi else falcon.App)()
        app.add_route('/e', Res())
        return app
    apps = [(a, build(a)) for a in (rng.random() < 0.5, rng.random() < 0.5)]
    steps = []
    cases = []
    for _ in range(rng.randint(2, 4)):
        kind = rng.choice(ERR_KINDS)
        arg = None
        if kind == '405':
            arg = rng.choice([['GET'], ['GET', 'POST'], ['PATCH', 'DELETE', 'OPTIONS']])
        elif kind == 'auto405':
            arg = ['GET', 'OPTIONS']
        elif kind == '401':
            arg = rng.choice([['Basic realm="x"'], ['Bearer', 'Basic realm="y"']])
        elif kind in ('429', '503', '413'):
            arg = rng.choice([0, 7, 120, 86400])
        elif kind == '416':
            arg = rng.choice([0, 1, 123456])
        user_headers = None if rng.random() < 0.75 else rng.choice([[['X-Mine', 'v']], [], [['Retry-After', '1']]])
        if kind == 'auto405':
            user_headers = None
        asgi, app = apps[rng.randint(0, 1)]
        accept = rng.choice([None, None, 'application/xml', 'application/vnd.e+json, text/csv'])
        headers = {} if accept is None else {'Accept': accept}
        cur['spec'] = (kind, arg, user_headers)
        obs = call_app(testing, app, asgi, method='PUT' if kind == 'auto405' else 'GET', path='/e', headers=headers)
        # attributes other than headers from a reference instance of the same constructor call
        ref = make_error(falcon, '405' if kind == 'auto405' else kind, arg, None)
        herr = [ref.status_code, ref.title, [] if ref.description is None else [ref.description],
                [] if ref.code is None else [ref.code], [], [] if user_headers is None else [user_headers]]
        exc = [[class_id(k) for k in type(ref).__mro__], [3, wire_ctor(kind, arg), herr]]
        ncfg = negotiation_inputs(falcon, testing, app.resp_options, True, headers)
        cases.append([0, True, [], [], ncfg, [[], []], wire_writes({'status': None, 'text': None, 'data': None,
                                                                      'media': None, 'headers': []}), [exc]])
        steps.append({'error': kind, 'arg': arg, 'headers_arg': user_headers, 'asgi': bool(asgi),
                      'app': 0 if app is apps[0][1] else 1, 'accept': accept,
                      'impl': {k: (v.decode('latin-1') if isinstance(v, bytes) else v) for k, v in obs.items()}})
    return {'seed': seed, 'cases': cases, 'steps': steps}


def run_error_sequences(ctx, model, falcon, testing, seeds):
    seqs = [run_error_sequence(ctx, model, falcon, testing, seed) for seed in seeds]
    flat = [c for q in seqs for c in q['cases']]
    outs = model.run_many(flat)
    pos = 0
    for q in seqs:
        n = len(q['cases'])
        judge_error_sequence(ctx, q, outs[pos:pos + n])
        pos += n


def judge_error_sequence(ctx, q, outs):
    seed, steps = q['seed'], q['steps']
    ctx.count('error-sequence')
    ctx.note_case(('errseq', seed), True)
    for k, (st, m) in enumerate(zip(steps, outs)):
        obs = dict(st['impl'])
        if isinstance(obs.get('body'), str):
            obs['body'] = obs['body'].encode('latin-1')
        diffs = response_diffs(m[1], obs)
        if diffs:
            ctx.violation('error-response-differs',
                          {'sequence_seed': seed, 'what': 'sequence of header-bearing HTTP errors: response %d does not '
                           'carry exactly its own status/headers/body' % k, 'sequence': steps, 'request_index': k,
                           'diffs': diffs, 'model': repr(m)}, key='errseq-' + diffs[0].split(':')[0])
            break



def error_text_cases(ctx, model, falcon, testing, n):
    """HTTPErrors whose texts contain lone surrogates, control characters or CR, JSON and XML
    negotiated, default handlers, WSGI and ASGI: the body bytes must be exactly the proved
    printers' output; the escape predicted for a lone surrogate under JSON is the known finding;
    the XML image is additionally read back with the model's reader and with ElementTree."""
    import random
    import falcon.asgi
    cur = {}

    def build(asgi):
        if asgi:
            class Res:
                async def on_get(self, req, resp):
                    raise cur['ex']
        else:
            class Res:
                def on_get(self, req, resp):
                    raise cur['ex']
        app = (falcon.asgi.App if asgi else falcon.App)()
        app.add_route('/', Res())
        return app
    apps = {0: build(False), 1: build(True)}
    cases, metas = [], []
    texts = SURR_TEXTS + TEXTS
    for k in range(n):
        rng = random.Random(ctx.rng.getrandbits(40))
        init_known(falcon)
        surrogate = rng.random() < 0.4
        pick = lambda p: None if rng.random() < p else rng.choice(SURR_TEXTS if (surrogate and rng.random() < 0.5) else texts)
        kw = {'title': pick(0.3), 'description': pick(0.4), 'href': rnd_opt(rng, HREFS, 0.6), 'href_text': pick(0.6),
              'code': rnd_opt(rng, [0, 7, -3, 'E42', '', 'c<&>'] + (SURR_TEXTS[:1] if surrogate else []), 0.5)}
        ex = falcon.HTTPError(rng.choice(STATUSES), **kw)
        asgi = rng.randint(0, 1)
        accept = rng.choice([None, 'application/json', 'application/xml', 'text/xml', 'application/vnd.q+xml, text/csv'])
        headers = {} if accept is None else {'Accept': accept}
        cur['ex'] = ex
        obs = call_app(testing, apps[asgi], asgi, headers=headers)
        ncfg = negotiation_inputs(falcon, testing, apps[asgi].resp_options, True, headers)
        cases.append([0, True, [], [], ncfg, [[], []],
                      wire_writes({'status': None, 'text': None, 'data': None, 'media': None, 'headers': []}),
                      [wire_exc(falcon, ex)]])
        metas.append((kw, asgi, accept, obs, ex))
    outs = model.run_many(cases)
    xml_jobs = []
    for (kw, asgi, accept, obs, ex), m in zip(metas, outs):
        ctx.count('error-texts')
        ctx.note_case(('errtext', repr(kw), asgi, accept), True)
        detail = {'error_kwargs': {k: (v if not isinstance(v, str) else v.encode('unicode_escape').decode()) for k, v in kw.items()},
                  'asgi': asgi, 'accept': accept,
                  'impl': {k: (v.decode('latin-1') if isinstance(v, bytes) else v) for k, v in obs.items()}}
        mres = m[1]
        if mres[0] == 0 and obs['escaped'] == 'UnicodeEncodeError':
            # predicted by the model (C04_error_json_surrogate_fails): known finding
            ctx.violation('error-text-surrogate-escapes',
                          dict(detail, finding='an HTTPError whose text holds a lone surrogate: to_json() ends in '
                                               'str.encode() which raises inside the error handler'),
                          key='surrogate-%d' % asgi)
            continue
        diffs = response_diffs(mres, obs)
        if diffs:
            ctx.violation('error-response-differs', dict(detail, diffs=diffs, model=repr(m)[:2000]),
                          key='errtext-' + diffs[0].split(':')[0])
            continue
        if mres[0] == 1 and mres[3][0] == 2 and mres[3][1][0] == 2:
            xml_jobs.append((detail, obs['body'], ex))
    # XML: the model's reader and a real XML parser on the real bytes
    reads = model.run_many([[4, b.decode('utf-8', 'surrogatepass') if b'&#' not in b else b.decode('utf-8')]
                            for _, b, _ in xml_jobs])
    for (detail, body, ex), rd in zip(xml_jobs, reads):
        exp = ex.to_dict()
        want = {'title': exp['title']}
        if 'description' in exp:
            want['description'] = exp['description']
        if 'code' in exp:
            want['code'] = str(exp['code'])
        if 'link' in exp:
            want['link'] = exp['link']
        texts_used = [want['title'], want.get('description', ''), want.get('code', '')] + list(want.get('link', {}).values())
        has_surr = any(0xD800 <= ord(c) <= 0xDFFF for t in texts_used for c in t)
        if not has_surr:
            got = None
            if rd[0] == 1:
                got = {'title': common.wstr(rd[1])}
                if rd[2]:
                    got['description'] = common.wstr(rd[2][0])
                if rd[3]:
                    got['code'] = common.wstr(rd[3][0])
                if rd[4]:
                    t, h, r = rd[4][0]
                    got['link'] = {'text': common.wstr(t), 'href': common.wstr(h), 'rel': common.wstr(r)}
            if got != want:
                ctx.violation('error-response-differs', dict(detail, what='the proved XML reader does not recover the '
                              'fields from the real body', read=repr(got), fields=repr(want)), key='xml-reader')
                continue
        # a conforming XML parser
        bad = has_surr or any((ord(c) < 32 and c not in '\t\n') or c == '\r' for t in texts_used for c in t)
        try:
            root = et.fromstring(body.decode('utf-8'))
            parsed = {}
            for ch in root:
                parsed[ch.tag] = {c.tag: (c.text or '') for c in ch} if ch.tag == 'link' else (ch.text or '')
            faithful = root.tag == 'error' and parsed == want
        except Exception:
            parsed, faithful = None, False
        if not faithful:
            if bad:
                ctx.violation('xml-error-body-unfaithful',
                              dict(detail, finding='ElementTree writes control characters / CR / lone surrogates '
                                                   'unescaped or as &#N;: a conforming XML parser rejects or alters the text',
                                   parsed=repr(parsed)), key='xml-unfaithful')
            else:
                ctx.violation('error-response-differs', dict(detail, what='xml.etree does not read the fields back from '
                              'the XML error body', parsed=repr(parsed), fields=repr(want)), key='xml-et')


def mutated_error_cases(ctx, model, falcon, testing, n):
    """Error OBJECTS are mutable and reusable: the same HTTPError instance is raised in 2-3
    consecutive requests with its fields changed in between, optionally after an early
    to_json() / to_dict() / _to_xml() call; or a handler logs ex.to_json(), scrubs fields and
    re-raises it.  The body must reflect the fields AT RENDER TIME (judged byte for byte by the
    proved printers)."""
    import random
    import falcon.asgi
    cur = {}

    def mutate(rng, ex):
        for field in rng.sample(['title', 'description', 'code', 'link', 'headers'], rng.randint(1, 3)):
            if field == 'title':
                ex.title = rng.choice([t for t in TEXTS if t])
            elif field == 'description':
                ex.description = rnd_opt(rng, TEXTS, 0.3)
            elif field == 'code':
                ex.code = rnd_opt(rng, [0, 7, 'E42', 99], 0.3)
            elif field == 'link':
                ex.link = None if rng.random() < 0.4 else {'text': rng.choice([t for t in TEXTS if t]),
                                                           'href': rng.choice(HREFS), 'rel': 'help'}
            else:
                ex.headers = rng.choice([None, [['X-Err', 'n%d' % rng.randint(0, 9)]], {'X-New': 'v'}])

    def early(ex, how):
        if how == 1:
            ex.to_json()
        elif how == 2:
            ex.to_dict()
        elif how == 3:
            ex._to_xml()

    def build(asgi, scrub):
        if asgi:
            class Res:
                async def on_get(self, req, resp):
                    raise cur['ex']
        else:
            class Res:
                def on_get(self, req, resp):
                    raise cur['ex']
        app = (falcon.asgi.App if asgi else falcon.App)()
        app.add_route('/', Res())
        if scrub:
            def body(ex):
                ex.to_json()                       # "logging" the original document
                cur['scrub'](ex)
                raise ex
            if asgi:
                async def h(req, resp, ex, params):
                    body(ex)
            else:
                def h(req, resp, ex, params):
                    body(ex)
            app.add_error_handler(falcon.HTTPError, h)
        return app
    apps = {(a, sc): build(a, sc) for a in (0, 1) for sc in (0, 1)}
    cases, metas = [], []
    for k in range(n):
        rng = random.Random(ctx.rng.getrandbits(40))
        init_known(falcon)
        a = gen_herr_args(rng)
        ex = falcon.HTTPError(a.pop('status'), **a)
        asgi, scrub = rng.randint(0, 1), int(rng.random() < 0.35)
        app = apps[(asgi, scrub)]
        accept = rng.choice([None, 'application/json', 'application/xml'])
        headers = {} if accept is None else {'Accept': accept}
        steps = []
        for req_no in range(rng.randint(1, 3)):
            how = rng.randint(0, 3)
            early(ex, how)                          # an early serialization, then a mutation
            if req_no > 0 or rng.random() < 0.7:
                mutate(rng, ex)
            cur['ex'] = ex
            if scrub:
                seed2 = rng.getrandbits(30)
                cur['scrub'] = lambda e, seed2=seed2: mutate(random.Random(seed2), e)
            obs = call_app(testing, app, asgi, headers=headers)
            ncfg = negotiation_inputs(falcon, testing, app.resp_options, True, headers)
            # the model sees the fields as they are when the response is composed
            final = wire_exc(falcon, ex)
            if scrub:
                hist = [[[[class_id(falcon.HTTPError), True]], [3, 0]]]
                scripts = [[wire_writes({'status': None, 'text': None, 'data': None, 'media': None, 'headers': []}),
                            [1, final[1][1]]]]
            else:
                hist, scripts = [], []
            cases.append([0, True, hist, scripts, ncfg, [[], []],
                          wire_writes({'status': None, 'text': None, 'data': None, 'media': None, 'headers': []}),
                          [final]])
            metas.append((k, req_no, asgi, scrub, accept, how, obs, repr(ex.to_dict())))
    outs = model.run_many(cases)
    for (k, req_no, asgi, scrub, accept, how, obs, fields), m in zip(metas, outs):
        ctx.count('mutated-error')
        ctx.note_case(('muterr', k, req_no), True)
        if m[1][0] == 0:
            continue
        diffs = response_diffs(m[1], obs)
        if diffs:
            ctx.violation('error-response-differs',
                          {'what': 'an HTTPError instance mutated before rendering / raised again with other fields: '
                                   'the response must reflect the fields at render time',
                           'request_no': req_no, 'asgi': asgi, 'scrubbing_handler': scrub, 'accept': accept,
                           'early_call': ['none', 'to_json()', 'to_dict()', '_to_xml()'][how],
                           'fields_at_render_time': fields,
                           'impl': {kk: (v.decode('latin-1') if isinstance(v, bytes) else v) for kk, v in obs.items()},
                           'diffs': diffs}, key='muterr-' + diffs[0].split(':')[0])


def registry_cases(ctx, model, falcon, n):
    """handler selection alone: _find_error_handler vs the model's dict and the history spec"""
    import random
    cases, exp = [], []
    for k in range(n):
        rng = random.Random(ctx.rng.getrandbits(48))
        init_known(falcon)
        classes = gen_hierarchy(rng, falcon, rng.randint(1, 8))
        app = falcon.App()
        handlers = []
        hist = []
        pool = classes + [Exception, falcon.HTTPError, falcon.HTTPStatus, falcon.HTTPNotFound, ValueError, LookupError,
                          BaseException]
        for j in range(rng.randint(0, 8)):
            def h(req, resp, ex, params, j=j):
                pass
            handlers.append(h)
            tup = tuple(rng.choice(pool) for _ in range(rng.randint(1, 3)))
            if rng.random() < 0.1:
                tup = tup[:1] + (str,) + tup[1:]
            try:
                app.add_error_handler(tup if len(tup) > 1 or rng.random() < 0.3 else tup[0], h)
            except TypeError:
                pass
            hist.append((tup, j))
        c = rng.choice(classes + [falcon.HTTPNotFound, KeyError, falcon.HTTPStatus])
        try:
            ex = c.__new__(c)
        except TypeError:
            try:
                ex = BaseException.__new__(c)
            except TypeError:
                continue
        found = app._find_error_handler(ex)
        if found is None:
            e = []
        elif found in handlers:
            e = [[3, handlers.index(found)]]
        else:
            e = [[{'_python_error_handler': 0, '_http_error_handler': 1, '_http_status_handler': 2}[found.__name__], 0]]
        exp.append((e, [cc.__name__ for cc in c.__mro__], [[[x.__name__ for x in t], j] for t, j in hist]))
        cases.append([1, [[[[class_id(x), issubclass(x, BaseException)] for x in t], [3, j]] for t, j in hist],
                      [class_id(x) for x in c.__mro__]])
    outs = model.run_many(cases)
    for (e, mro, hist), m in zip(exp, outs):
        ctx.count('registry')
        ctx.note_case(('reg', repr(mro), repr(hist)), bool(e))
        if m[1] != e or m[2] != e:
            ctx.violation('handler-selection-violated', {'mro': mro, 'history': hist, 'impl_handler': e,
                                                         'model_dict': m[1], 'spec_nearest_latest': m[2]},
                          key='registry')


def main(ctx):
    import falcon
    from falcon import testing
    model = common.Model(ctx)
    logging.getLogger('falcon').setLevel(logging.CRITICAL + 1)
    for o in common.corpus('C04'):
        o.pop('_file', None)
        replay(ctx, o)
    ctx.cov['rule'] = ('one scenario = random exception hierarchy (<=8 user classes, multiple inheritance) x registration '
                       'history (<=6, tuples, non-exception entries) x raise site x exception object with random attributes x '
                       'pre-raise writes x Accept x xml_error_serialization x media handlers, run end-to-end on the real '
                       'App (WSGI or ASGI) and on the extracted model; non-trivial = something was raised or a handler ran')
    quick = ctx.tier == 'quick'
    n = 2500 if quick else 30000
    seeds = [ctx.rng.getrandbits(40) for _ in range(n)]
    metas = check_scenarios(ctx, model, falcon, testing, seeds, lambda rng: rng.random() < 0.4)
    for seed, sc, asgi, obs, ncfg, reg_ok in metas[:3]:
        ctx.sample({'scenario': describe(falcon, sc), 'asgi': asgi,
                    'impl': {k: (v.decode('latin-1') if isinstance(v, bytes) else v) for k, v in obs.items()}})
    registry_cases(ctx, model, falcon, 3000 if quick else 40000)
    error_text_cases(ctx, model, falcon, testing, 1500 if quick else 15000)
    mutated_error_cases(ctx, model, falcon, testing, 600 if quick else 6000)
    run_sessions(ctx, model, falcon, testing,
                 [(ctx.rng.getrandbits(40), ctx.rng.random() < 0.5) for _ in range(1500 if quick else 6000)])
    run_error_sequences(ctx, model, falcon, testing,
                        [ctx.rng.getrandbits(40) for _ in range(1000 if quick else 4000)])
    ctx.assumptions += [
        'oracle inputs taken from the live objects: req.client_prefers(predefined + media handlers) and '
        'media_handlers._resolve(type) (content negotiation itself is C11)',
        'JSON/XML encoders are not modelled: bodies are decoded with json.loads / xml.etree and compared with to_dict() '
        '(clause error_body_faithful is tested, not proved); XML text is compared modulo newline normalisation',
        'CPython C3 linearisation (type.__mro__) is an input of the model']


def replay(ctx, obj):
    import falcon
    from falcon import testing
    model = common.Model(ctx)
    if 'render_media' in obj and 'scenario_seed' not in obj:
        check_scenarios(ctx, model, falcon, testing, [obj], None)
        ctx.note_case('replay-' + repr(sorted(obj.items())), True)
        return
    if 'error_kwargs' in obj or 'fields_at_render_time' in obj:
        return main(ctx)
    if 'session_seed' in obj:
        run_sessions(ctx, model, falcon, testing, [(obj['session_seed'], bool(obj.get('asgi')))])
        ctx.note_case('replay-session', True)
        return
    if 'sequence_seed' in obj:
        run_error_sequences(ctx, model, falcon, testing, [obj['sequence_seed']])
        ctx.note_case('replay-seq', True)
        return
    if 'scenario_seed' not in obj or not isinstance(obj['scenario_seed'], int):
        return main(ctx)
    asgi = bool(obj.get('asgi'))
    check_scenarios(ctx, model, falcon, testing, [obj['scenario_seed']], lambda rng: (rng.random(), asgi)[1])
    ctx.note_case('replay', True)
