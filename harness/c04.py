"""C04 — every raised exception becomes the response its most specific handler defines.

Random exception class hierarchies (multiple inheritance), registration histories, raise sites
(middleware phases, hook, responder, body rendering), HTTPError/HTTPStatus objects with
arbitrary unicode attributes and Accept headers are run through the real falcon.App (direct
WSGI call) and falcon.asgi.App (direct ASGI call); the handler that ran, the status, the
headers and the *decoded* body are compared with the extracted Coq model (coq/C04/Model.v) and
judged by the proved oracle (coq/C04/Spec.v)."""
import asyncio
import io
import json
import logging
import xml.etree.ElementTree as et

import common

KNOWN = {}          # class -> id, filled per run (object 0, BaseException 1, Exception 2, ...)
X_TEST = 'application/x-test'


def class_id(c):
    if c not in KNOWN:
        KNOWN[c] = len(KNOWN)
    return KNOWN[c]


def init_known(falcon):
    KNOWN.clear()
    for c in (object, BaseException, Exception, falcon.HTTPError, falcon.HTTPStatus):
        class_id(c)


class Boom(Exception):
    """raised by a custom error handler: not an HTTPError/HTTPStatus"""


# ------------------------------------------------------------------ generators

TEXTS = ['', 'x', 'Not here', 'café ☃', '<&>"\'', 'a\nb\tc', 'éè', ']]>', '\U0001f600 ok',
         'line1\r\nline2', '{"json": 1}', 'x' * 40]
HREFS = ['http://example.com/help', 'http://example.com/a b?q=é', '/rel/path', 'http://x/<y>&z=1']
ACCEPTS = [None, '*/*', 'application/json', 'text/xml', 'application/xml', 'application/xml;q=0.9, application/json',
           'application/json;q=0.1, application/xml', 'text/html', 'application/vnd.x+json', 'application/vnd.x+xml',
           'APPLICATION/VND.X+XML', X_TEST, X_TEST + ', application/json;q=0.5', 'text/xml, application/json',
           'application/xml, text/xml;q=0.9, */*;q=0.1', 'garbage', 'application/json, */*;q=0.5',
           'text/*', 'application/*', 'application/xml;q=0', 'application/x-test;q=0.3, application/xml;q=0.4',
           'image/png, application/problem+json', 'image/png, application/atom+xml;q=0.2']
HEADER_SETS = [None, [], [['X-Err', '1']], [['x-err', '2'], ['X-Other', 'v']], {'Vary': 'Origin'},
               [['Content-Type', 'text/plain']], {'X-Err': 'dict'}]
STATUSES = [400, 404, 409, 418, 500, 503, 299, 200, 745]


def rnd_opt(rng, xs, p_none=0.4):
    return None if rng.random() < p_none else rng.choice(xs)


def gen_herr_args(rng):
    return {'status': rng.choice(STATUSES), 'title': rnd_opt(rng, TEXTS), 'description': rnd_opt(rng, TEXTS),
            'headers': rng.choice(HEADER_SETS), 'href': rnd_opt(rng, HREFS, 0.6), 'href_text': rnd_opt(rng, TEXTS, 0.6),
            'code': rnd_opt(rng, [0, 7, -3, 10 ** 12], 0.6)}


def gen_hstat_args(rng):
    return {'status': rng.choice(STATUSES), 'headers': rng.choice(HEADER_SETS), 'text': rnd_opt(rng, TEXTS)}


def status_arg(rng, code, falcon):
    """int, str line, or http.HTTPStatus for codes that have one"""
    import http
    k = rng.randint(0, 2)
    if k == 0:
        return code
    if k == 1:
        return falcon.code_to_http_status(code)
    try:
        return http.HTTPStatus(code)
    except ValueError:
        return code


def gen_hierarchy(rng, falcon, n):
    """user classes on top of Exception / HTTPError subclasses / HTTPStatus / builtins"""
    roots = [Exception, Exception, falcon.HTTPError, falcon.HTTPNotFound, falcon.HTTPStatus, ValueError, KeyError,
             LookupError, BaseException, OSError]
    classes = []
    tries = 0
    while len(classes) < n and tries < 50:
        tries += 1
        pool = roots + classes * 3
        k = rng.choice([1, 1, 1, 2, 2, 3])
        bases = []
        for _ in range(k):
            b = rng.choice(pool)
            if b not in bases:
                bases.append(b)
        try:
            c = type('U%d' % len(classes), tuple(bases), {})
        except TypeError:
            continue   # inconsistent MRO / layout conflict
        if issubclass(c, falcon.HTTPError) and issubclass(c, falcon.HTTPStatus):
            continue
        classes.append(c)
    return classes


def make_instance(rng, falcon, c):
    """An instance with all public attributes in place, or None if the class cannot be
    instantiated through the HTTPError/HTTPStatus constructor (another __init__ comes first)."""
    ex = _make_instance(rng, falcon, c)
    try:
        if isinstance(ex, falcon.HTTPError):
            wire_herr(ex)
        elif isinstance(ex, falcon.HTTPStatus):
            wire_hstat(ex)
    except Exception:
        return None
    return ex


def _make_instance(rng, falcon, c):
    try:
        if issubclass(c, falcon.HTTPError):
            a = gen_herr_args(rng)
            if c is falcon.HTTPNotFound or (falcon.HTTPNotFound in c.__mro__ and falcon.HTTPError in c.__mro__
                                            and c.__mro__.index(falcon.HTTPNotFound) < c.__mro__.index(falcon.HTTPError)):
                kw = {k: v for k, v in a.items() if k != 'status'}
                kw.pop('href_text')
                kw.pop('href')
                kw.pop('code')
                return c(**kw)
            st = status_arg(rng, a.pop('status'), falcon)
            return c(st, **a)
        if issubclass(c, falcon.HTTPStatus):
            a = gen_hstat_args(rng)
            return c(status_arg(rng, a['status'], falcon), a['headers'], a['text'])
        return c('boom')
    except Exception:
        return None


def pairs_of(headers):
    if headers is None:
        return []
    items = headers.items() if hasattr(headers, 'items') else headers
    return [[[k, v] for k, v in items]]


def wire_herr(e):
    link = []
    if e.link is not None:
        link = [[e.link['text'], e.link['href'], e.link['rel']]]
    return [e.status_code, e.title, [] if e.description is None else [e.description],
            [] if e.code is None else [e.code], link, pairs_of(e.headers)]


def wire_hstat(s):
    return [s.status_code, [] if s.text is None else [s.text], pairs_of(s.headers)]


def wire_exc(falcon, ex):
    mro = [class_id(c) for c in type(ex).__mro__]
    if isinstance(ex, falcon.HTTPError):
        return [mro, [0, wire_herr(ex)]]
    if isinstance(ex, falcon.HTTPStatus):
        return [mro, [1, wire_hstat(ex)]]
    return [mro, [2]]


def gen_writes(rng):
    return {'status': rnd_opt(rng, [201, 202, 404, 203], 0.7), 'text': rnd_opt(rng, TEXTS, 0.6),
            'data': rnd_opt(rng, [b'raw', b'\x00\xff'], 0.7), 'media': rnd_opt(rng, [0], 0.7),
            'headers': rng.choice([[], [], [['X-App', 'a']], [['Vary', 'Cookie']], [['X-App', 'b'], ['x-app', 'c']]])}


def wire_writes(w):
    o = lambda x: [] if x is None else [x]
    return [o(w['status']), o(w['text']), o(w['data']), o(w['media']), w['headers']]


MEDIA_OBJ = {0: {'ok': 1}}


def apply_writes(resp, w):
    if w['status'] is not None:
        resp.status = w['status']
    if w['text'] is not None:
        resp.text = w['text']
    if w['data'] is not None:
        resp.data = w['data']
    if w['media'] is not None:
        resp.media = MEDIA_OBJ.get(w['media'], object())
    resp.set_headers(w['headers'])


# ------------------------------------------------------------------ one scenario on the real framework

SITES = ['responder', 'process_request', 'process_resource', 'process_response', 'before_hook', 'render', 'none']


class XTestHandler:
    """media handler for application/x-test: marker + JSON"""
    def __init__(self, media):
        self._base = media.BaseHandler

    def serialize(self, obj, content_type=None):
        return b'XT' + json.dumps(obj, ensure_ascii=False).encode()

    async def serialize_async(self, obj, content_type=None):
        return self.serialize(obj, content_type)

    def deserialize(self, stream, content_type, content_length):
        raise NotImplementedError

    async def deserialize_async(self, stream, content_type, content_length):
        raise NotImplementedError

    exhaust_stream = False
    _serialize_sync = None
    _deserialize_sync = None


def build_scenario(rng, falcon):
    """Everything random about one scenario, as plain data + live objects."""
    classes = gen_hierarchy(rng, falcon, rng.randint(1, 8))
    # registration history
    nh = rng.randint(0, 6)
    scripts = []
    hist = []
    for n in range(nh):
        end = rng.choice(['return', 'return', 'error', 'status', 'other'])
        sc = {'writes': gen_writes(rng), 'end': end}
        if end != 'return':
            # application media next to a negotiated error content type may not be renderable
            sc['writes']['media'] = None
        if end == 'error':
            a = gen_herr_args(rng)
            st = status_arg(rng, a.pop('status'), falcon)
            sc['obj'] = falcon.HTTPError(st, **a)
        elif end == 'status':
            a = gen_hstat_args(rng)
            sc['obj'] = falcon.HTTPStatus(status_arg(rng, a['status'], falcon), a['headers'], a['text'])
        scripts.append(sc)
        pool = classes + [Exception, falcon.HTTPError, falcon.HTTPStatus, falcon.HTTPNotFound, ValueError, LookupError]
        if rng.random() < 0.3:
            tup = [rng.choice(pool) for _ in range(rng.randint(1, 3))]
            if rng.random() < 0.15:
                tup.insert(rng.randint(0, len(tup)), int)
            hist.append((tuple(tup), n))
        else:
            hist.append((rng.choice(pool), n))
    raise_pool = classes * 3 + [ValueError, KeyError, falcon.HTTPNotFound, falcon.HTTPError, falcon.HTTPStatus,
                                falcon.HTTPBadRequest, ZeroDivisionError]
    site = rng.choice(SITES)
    ex = None
    if site not in ('render', 'none'):
        for _ in range(10):
            ex = make_instance(rng, falcon, rng.choice(raise_pool))
            if ex is not None:
                break
        if ex is None:
            ex = ValueError('x')
    return {'classes': classes, 'hist': hist, 'scripts': scripts, 'site': site, 'ex': ex,
            'writes': gen_writes(rng), 'accept': rng.choice(ACCEPTS), 'xml': rng.random() < 0.7,
            'handlers': rng.choice(['default', 'default', 'xtest', 'jsononly']),
            'render_media': rng.choice([1, 1, 2]) if site == 'render' else None}


def wire_script(falcon, sc):
    end = sc['end']
    if end == 'return':
        e = [0]
    elif end == 'error':
        e = [1, wire_herr(sc['obj'])]
    elif end == 'status':
        e = [2, wire_hstat(sc['obj'])]
    else:
        e = [3]
    return [wire_writes(sc['writes']), e]


def run_scenario(falcon, testing, sc, asgi):
    """Build the app, run one request; returns observation + the oracle inputs computed from
    the live objects (client_prefers, _resolve)."""
    import falcon.asgi
    import falcon.media
    ran = []
    scripts = sc['scripts']

    def handler_body(n, resp):
        ran.append(n)
        s = scripts[n]
        apply_writes(resp, s['writes'])
        if s['end'] in ('error', 'status'):
            raise s['obj']
        if s['end'] == 'other':
            raise Boom()

    def mk_handler(n):
        if asgi:
            async def h(req, resp, ex, params):
                handler_body(n, resp)
        else:
            def h(req, resp, ex, params):
                handler_body(n, resp)
        return h

    site, ex, w = sc['site'], sc['ex'], sc['writes']

    def act(here, resp):
        # the application's own writes happen at the raising site (or in the responder when
        # nothing is raised before rendering / the raise comes later in process_response)
        if here == site and site not in ('process_response',):
            apply_writes(resp, w)
        elif here == 'responder' and site in ('render', 'none', 'process_response'):
            apply_writes(resp, w)
        if here == 'responder' and site == 'render':
            resp.media = object() if sc['render_media'] == 1 else {'ok': 1}
            if sc['render_media'] == 2:
                resp.content_type = 'application/x-unknown'
        if here == site:
            raise ex

    if asgi:
        class MW:
            async def process_request(self, req, resp):
                act('process_request', resp)

            async def process_resource(self, req, resp, resource, params):
                act('process_resource', resp)

            async def process_response(self, req, resp, resource, req_succeeded):
                act('process_response', resp)

        async def hook(req, resp, resource, params):
            act('before_hook', resp)

        class Res:
            @falcon.before(hook)
            async def on_get(self, req, resp):
                act('responder', resp)
    else:
        class MW:
            def process_request(self, req, resp):
                act('process_request', resp)

            def process_resource(self, req, resp, resource, params):
                act('process_resource', resp)

            def process_response(self, req, resp, resource, req_succeeded):
                act('process_response', resp)

        def hook(req, resp, resource, params):
            act('before_hook', resp)

        class Res:
            @falcon.before(hook)
            def on_get(self, req, resp):
                act('responder', resp)

    App = falcon.asgi.App if asgi else falcon.App
    app = App(middleware=[MW()])
    app.add_route('/', Res())
    app.resp_options.xml_error_serialization = sc['xml']
    if sc['handlers'] == 'xtest':
        app.resp_options.media_handlers[X_TEST] = XTestHandler(falcon.media)
    elif sc['handlers'] == 'jsononly':
        app.resp_options.media_handlers = falcon.media.Handlers({falcon.MEDIA_JSON: falcon.media.JSONHandler()})
    reg_ok = []
    for target, n in sc['hist']:
        try:
            app.add_error_handler(target, mk_handler(n))
            reg_ok.append(True)
        except TypeError:
            reg_ok.append(False)
    headers = {} if sc['accept'] is None else {'Accept': sc['accept']}
    # ---- oracle inputs (stdlib-like behaviour that the model takes as given)
    opts = app.resp_options
    predefined = [falcon.MEDIA_JSON, 'text/xml', falcon.MEDIA_XML] if sc['xml'] else [falcon.MEDIA_JSON]
    lst = predefined + [mt for mt in opts.media_handlers if mt not in predefined]
    req0 = testing.create_req(headers=headers)
    preferred = req0.client_prefers(lst)
    resolvable = [t for t in set(lst + [falcon.MEDIA_XML, falcon.MEDIA_JSON])
                  if opts.media_handlers._resolve(t, falcon.MEDIA_JSON, raise_not_found=False)[0]]
    ncfg = [sc['xml'], [] if preferred is None else [preferred], req0.accept, sorted(resolvable)]
    # ---- the request
    obs = {}
    if asgi:
        scope = testing.create_scope(path='/', method='GET', headers=headers)
        msgs = [{'type': 'http.request', 'body': b'', 'more_body': False}]
        sent = []

        async def receive():
            return msgs.pop(0) if msgs else {'type': 'http.disconnect'}

        async def send(ev):
            sent.append(ev)

        async def go():
            await app(scope, receive, send)
        try:
            asyncio.run(go())
            start = [e for e in sent if e['type'] == 'http.response.start']
            assert len(start) == 1
            obs['status'] = start[0]['status']
            obs['headers'] = {k.decode('latin-1').lower(): v.decode('latin-1') for k, v in start[0]['headers']}
            obs['body'] = b''.join(e.get('body', b'') for e in sent if e['type'] == 'http.response.body')
            obs['escaped'] = None
        except BaseException as e:  # noqa
            obs['escaped'] = type(e).__name__
    else:
        env = testing.create_environ(path='/', method='GET', headers=headers, wsgierrors=io.StringIO())
        started = []

        def start_response(status, hdrs, exc_info=None):
            started.append((status, hdrs))
        try:
            it = app(env, start_response)
            body = b''.join(it)
            assert len(started) == 1
            obs['status'] = int(started[0][0].split(' ')[0])
            obs['headers'] = {k.lower(): v for k, v in started[0][1]}
            obs['body'] = body
            obs['escaped'] = None
        except BaseException as e:  # noqa
            obs['escaped'] = type(e).__name__
    obs['ran'] = ran
    return obs, ncfg, reg_ok


def wire_hist(sc):
    out = []
    for target, n in sc['hist']:
        tup = target if isinstance(target, tuple) else (target,)
        out.append([[[class_id(c), issubclass(c, BaseException)] for c in tup], [3, n]])
    return out


def media_fails_table(falcon, sc):
    """what rendering resp.media raises (exception objects obtained from the live handlers):
    [[content types that do not resolve], [application objects that do not serialize]]"""
    import falcon.media
    ctypes, tags = [], []
    try:
        falcon.media.Handlers()._resolve('application/x-unknown', falcon.MEDIA_JSON)
    except falcon.HTTPError as e:
        ctypes.append(['application/x-unknown', wire_exc(falcon, e)])
    try:
        json.dumps(object())
    except TypeError as e:
        tags.append([1, wire_exc(falcon, e)])
    return [ctypes, tags]


def model_case(falcon, sc, ncfg, fixed=True):
    w = dict(sc['writes'])
    if sc['site'] == 'render':
        w['media'] = 1 if sc['render_media'] == 1 else 0
        if sc['render_media'] == 2:
            w = dict(w, headers=w['headers'] + [['Content-Type', 'application/x-unknown']])
    raised = [] if sc['ex'] is None else [wire_exc(falcon, sc['ex'])]
    return [0, fixed, wire_hist(sc), [wire_script(falcon, s) for s in sc['scripts']], ncfg,
            media_fails_table(falcon, sc), wire_writes(w), raised]


def dict_of_errdict(d):
    out = {'title': common.wstr(d[0])}
    if d[1]:
        out['description'] = common.wstr(d[1][0])
    if d[2]:
        out['code'] = d[2][0]
    if d[3]:
        t, h, r = d[3][0]
        out['link'] = {'text': common.wstr(t), 'href': common.wstr(h), 'rel': common.wstr(r)}
    return out


def xml_to_dict(b):
    root = et.fromstring(b.decode('utf-8'))
    assert root.tag == 'error'
    out = {}
    for ch in root:
        if ch.tag == 'link':
            out['link'] = {c.tag: (c.text or '') for c in ch}
        elif ch.tag == 'code':
            out['code'] = int(ch.text)
        else:
            out[ch.tag] = ch.text or ''
    return out


def body_matches(mbody, body):
    """model body descriptor vs real bytes; returns (ok, what)"""
    k = mbody[0]
    if k == 0:
        return body == b'', 'empty body expected'
    if k == 1:
        return body == common.wstr(mbody[1]).encode('utf-8', 'surrogatepass'), 'text'
    d = mbody[1]
    if k == 2:
        if d[0] == 0:
            return body == bytes(d[1]), 'raw data'
        exp = dict_of_errdict(d[1])
        try:
            if d[0] == 1:
                return json.loads(body.decode('utf-8')) == exp, 'json error body'
            got = xml_to_dict(body)
            # XML cannot distinguish '' from absent text, and normalises \r\n; compare modulo that
            norm = lambda s: s.replace('\r\n', '\n').replace('\r', '\n') if isinstance(s, str) else s
            exp2 = {kk: ({a: norm(b) for a, b in v.items()} if isinstance(v, dict) else norm(v)) for kk, v in exp.items()}
            return got == exp2, 'xml error body'
        except Exception as e:  # undecodable body
            return False, 'undecodable error body: %r' % e
    if d[0] == 0:
        exp = dict_of_errdict(d[1])
        try:
            if body.startswith(b'XT'):
                return json.loads(body[2:].decode('utf-8')) == exp, 'x-test media error body'
            return json.loads(body.decode('utf-8')) == exp, 'media error body'
        except Exception as e:
            return False, 'undecodable media body: %r' % e
    try:
        return json.loads(body.decode('utf-8')) == MEDIA_OBJ[d[1]], 'application media'
    except Exception as e:
        return False, 'undecodable application media: %r' % e


def describe(falcon, sc):
    return {'classes': [[c.__name__, [b.__name__ for b in c.__bases__]] for c in sc['classes']],
            'hist': [[[c.__name__ for c in (t if isinstance(t, tuple) else (t,))], n] for t, n in sc['hist']],
            'scripts': [{'writes': repr(s['writes']), 'end': s['end'], 'obj': repr(s.get('obj'))} for s in sc['scripts']],
            'site': sc['site'], 'raised': repr(sc['ex']), 'raised_mro': [c.__name__ for c in type(sc['ex']).__mro__] if sc['ex'] is not None else None,
            'writes': repr(sc['writes']), 'accept': sc['accept'], 'xml_error_serialization': sc['xml'],
            'media_handlers': sc['handlers'], 'render_media': sc['render_media']}


def check_scenarios(ctx, model, falcon, testing, seeds, asgi_choice):
    import random
    cases, metas = [], []
    for seed in seeds:
        init_known(falcon)
        if isinstance(seed, dict):
            # a fixed scenario from corpus/ (no randomness)
            sc = dict(classes=[], hist=[], scripts=[], ex=None,
                      writes={'status': None, 'text': None, 'data': None, 'media': None, 'headers': []},
                      accept=seed.get('accept'), xml=True, handlers='default',
                      site='render', render_media=seed['render_media'])
            asgi = bool(seed.get('asgi'))
            seed = 'corpus:%s:%d' % (seed['render_media'], asgi)
        else:
            rng = random.Random(seed)
            sc = build_scenario(rng, falcon)
            asgi = asgi_choice(rng)
        obs, ncfg, reg_ok = run_scenario(falcon, testing, sc, asgi)
        cases.append(model_case(falcon, sc, ncfg))
        metas.append((seed, sc, asgi, obs, ncfg, reg_ok))
    outs = model.run_many(cases)
    ocases, oidx = [], []
    for i, ((seed, sc, asgi, obs, ncfg, reg_ok), m) in enumerate(zip(metas, outs)):
        ctx.count('asgi' if asgi else 'wsgi')
        ctx.count('site:' + sc['site'])
        ctx.note_case(('sc', seed, asgi), bool(obs['ran']) or sc['ex'] is not None or sc['site'] == 'render')
        detail = {'scenario_seed': seed, 'asgi': asgi, 'scenario': describe(falcon, sc),
                  'impl': {k: (v.decode('latin-1') if isinstance(v, bytes) else v) for k, v in obs.items()}}
        # registration success/failure (TypeError exactly for a non-exception entry)
        exp_ok = [all(issubclass(c, BaseException) for c in (t if isinstance(t, tuple) else (t,))) for t, n in sc['hist']]
        if exp_ok != reg_ok:
            ctx.violation('registration-typeerror', dict(detail, expected=exp_ok, got=reg_ok), key='reg')
        mres, mhs = m[1], m[2]
        exp_ran = [h[0][1] for h in mhs if h and h[0][0] == 3]
        # the oracle on the first handling
        if sc['ex'] is not None:
            first = [] if not obs['ran'] else [[3, obs['ran'][0]]]
            default_ran = not obs['ran'] and obs['escaped'] is None
            if default_ran:
                # a default handler ran: identify it from the model's spec side (it is not
                # instrumented); the oracle still checks escape/500
                first = mhs[0] if mhs and mhs[0] and mhs[0][0][0] != 3 else []
            ocases.append([2, wire_hist(sc), [wire_script(falcon, s) for s in sc['scripts']], wire_exc(falcon, sc['ex']),
                           first, obs['escaped'] is not None, obs.get('status', 0)])
            oidx.append(i)
        # model vs implementation
        diffs = []
        if (mres[0] == 0) != (obs['escaped'] is not None):
            diffs.append('escape: model %s, impl %s' % (mres[0] == 0, obs['escaped']))
        if exp_ran != obs['ran']:
            diffs.append('handlers that ran: model %s, impl %s' % (exp_ran, obs['ran']))
        if mres[0] == 1 and obs['escaped'] is None:
            if mres[1] != obs['status']:
                diffs.append('status: model %s, impl %s' % (mres[1], obs['status']))
            mh = {common.wstr(k): common.wstr(v) for k, v in mres[2]}
            for k, v in mh.items():
                if obs['headers'].get(k) != v:
                    diffs.append('header %s: model %r, impl %r' % (k, v, obs['headers'].get(k)))
            ok, what = body_matches(mres[3], obs['body'])
            if not ok:
                diffs.append('body (%s): impl %r' % (what, obs['body'][:200]))
        if diffs:
            detail['diffs'] = diffs
            detail['model'] = repr(m)
            kind = 'error-response-differs'
            ctx.violation(kind, detail, key='diff-' + diffs[0].split(':')[0])
    fails = model.run_many(ocases)
    for i, f in zip(oidx, fails):
        if f[1]:
            seed, sc, asgi, obs, ncfg, reg_ok = metas[i]
            detail = {'scenario_seed': seed, 'asgi': asgi, 'scenario': describe(falcon, sc),
                      'impl': {k: (v.decode('latin-1') if isinstance(v, bytes) else v) for k, v in obs.items()},
                      'clauses_failed': f[1],
                      'clause_names': {'1': 'not the nearest/latest handler', '2': 'escape', '3': 'default not 500',
                                       '4': 'handler registered for a non-Exception BaseException class is never invoked'}}
            if f[1] == [4]:
                ctx.violation('baseexception-handler-ignored',
                              dict(detail, finding='handler registered for a BaseException-derived class that is not '
                                                   'Exception-derived; the raised object escapes unhandled'),
                              key='oracle-4')
            else:
                ctx.violation('handler-selection-violated', detail, key='oracle-%s' % f[1])
    return metas


def registry_cases(ctx, model, falcon, n):
    """handler selection alone: _find_error_handler vs the model's dict and the history spec"""
    import random
    cases, exp = [], []
    for k in range(n):
        rng = random.Random(ctx.rng.getrandbits(48))
        init_known(falcon)
        classes = gen_hierarchy(rng, falcon, rng.randint(1, 8))
        app = falcon.App()
        handlers = []
        hist = []
        pool = classes + [Exception, falcon.HTTPError, falcon.HTTPStatus, falcon.HTTPNotFound, ValueError, LookupError,
                          BaseException]
        for j in range(rng.randint(0, 8)):
            def h(req, resp, ex, params, j=j):
                pass
            handlers.append(h)
            tup = tuple(rng.choice(pool) for _ in range(rng.randint(1, 3)))
            if rng.random() < 0.1:
                tup = tup[:1] + (str,) + tup[1:]
            try:
                app.add_error_handler(tup if len(tup) > 1 or rng.random() < 0.3 else tup[0], h)
            except TypeError:
                pass
            hist.append((tup, j))
        c = rng.choice(classes + [falcon.HTTPNotFound, KeyError, falcon.HTTPStatus])
        try:
            ex = c.__new__(c)
        except TypeError:
            try:
                ex = BaseException.__new__(c)
            except TypeError:
                continue
        found = app._find_error_handler(ex)
        if found is None:
            e = []
        elif found in handlers:
            e = [[3, handlers.index(found)]]
        else:
            e = [[{'_python_error_handler': 0, '_http_error_handler': 1, '_http_status_handler': 2}[found.__name__], 0]]
        exp.append((e, [cc.__name__ for cc in c.__mro__], [[[x.__name__ for x in t], j] for t, j in hist]))
        cases.append([1, [[[[class_id(x), issubclass(x, BaseException)] for x in t], [3, j]] for t, j in hist],
                      [class_id(x) for x in c.__mro__]])
    outs = model.run_many(cases)
    for (e, mro, hist), m in zip(exp, outs):
        ctx.count('registry')
        ctx.note_case(('reg', repr(mro), repr(hist)), bool(e))
        if m[1] != e or m[2] != e:
            ctx.violation('handler-selection-violated', {'mro': mro, 'history': hist, 'impl_handler': e,
                                                         'model_dict': m[1], 'spec_nearest_latest': m[2]},
                          key='registry')


def main(ctx):
    import falcon
    from falcon import testing
    model = common.Model(ctx)
    logging.getLogger('falcon').setLevel(logging.CRITICAL + 1)
    for o in common.corpus('C04'):
        o.pop('_file', None)
        replay(ctx, o)
    ctx.cov['rule'] = ('one scenario = random exception hierarchy (<=8 user classes, multiple inheritance) x registration '
                       'history (<=6, tuples, non-exception entries) x raise site x exception object with random attributes x '
                       'pre-raise writes x Accept x xml_error_serialization x media handlers, run end-to-end on the real '
                       'App (WSGI or ASGI) and on the extracted model; non-trivial = something was raised or a handler ran')
    quick = ctx.tier == 'quick'
    n = 2500 if quick else 30000
    seeds = [ctx.rng.getrandbits(40) for _ in range(n)]
    metas = check_scenarios(ctx, model, falcon, testing, seeds, lambda rng: rng.random() < 0.4)
    for seed, sc, asgi, obs, ncfg, reg_ok in metas[:3]:
        ctx.sample({'scenario': describe(falcon, sc), 'asgi': asgi,
                    'impl': {k: (v.decode('latin-1') if isinstance(v, bytes) else v) for k, v in obs.items()}})
    registry_cases(ctx, model, falcon, 3000 if quick else 40000)
    ctx.assumptions += [
        'oracle inputs taken from the live objects: req.client_prefers(predefined + media handlers) and '
        'media_handlers._resolve(type) (content negotiation itself is C11)',
        'JSON/XML encoders are not modelled: bodies are decoded with json.loads / xml.etree and compared with to_dict() '
        '(clause error_body_faithful is tested, not proved); XML text is compared modulo newline normalisation',
        'CPython C3 linearisation (type.__mro__) is an input of the model']


def replay(ctx, obj):
    import falcon
    from falcon import testing
    model = common.Model(ctx)
    if 'render_media' in obj and 'scenario_seed' not in obj:
        check_scenarios(ctx, model, falcon, testing, [obj], None)
        ctx.note_case('replay-' + repr(sorted(obj.items())), True)
        return
    if 'scenario_seed' not in obj or not isinstance(obj['scenario_seed'], int):
        return main(ctx)
    asgi = bool(obj.get('asgi'))
    check_scenarios(ctx, model, falcon, testing, [obj['scenario_seed']], lambda rng: (rng.random(), asgi)[1])
    ctx.note_case('replay', True)
