"""C05 — responses are protocol-valid and length-consistent on WSGI and ASGI.

Every cell of (status form x method x body sources x preset headers x stream script x send
fault x response class x file_wrapper) is served by the real falcon.App / falcon.asgi.App
through two *independent* protocol monitors written here (a PEP 3333 server side and an ASGI
HTTP server side; falcon.testing is not used), the observation is compared with the extracted
Coq model (coq/C05/Model.v) and judged by the proved oracle predicates (coq/C05/Spec.v)."""
import asyncio
import http
import itertools
import json
import logging

import common


class StreamBoom(Exception):
    """scripted failure of the response stream"""


class SendFail(Exception):
    """scripted failure of the server's send callable"""


class BaseBoom(BaseException):
    """scripted KeyboardInterrupt/GeneratorExit-like failure: NOT an Exception"""


# fault kinds (coq/C05/Model.v fault): 1 Exception, 2 BaseException, 3 asyncio.CancelledError
# raised from inside, 4 (send only) the server cancels the app task while it is parked in send()
SCRIPTED = (StreamBoom, SendFail, BaseBoom, asyncio.CancelledError)


def raise_fault(kind, exc_cls):
    if kind == 1:
        raise exc_cls()
    if kind == 2:
        raise BaseBoom()
    raise asyncio.CancelledError()


class ProtocolError(Exception):
    """the app violated the server interface (detected by a monitor)"""


class Runaway(BaseException):
    """raised by the monitor's send() to stop an app that keeps emitting after the client has
    disconnected (COUNT based: more than RUNAWAY_EVENTS further events)"""


class WallClockGuard(Exception):
    """last-resort wall-clock guard fired; never a verdict by itself: the cell is re-run alone"""


RUNAWAY_EVENTS = 50        # events tolerated after http.disconnect was delivered
WALL_CLOCK_GUARD_S = 120   # last resort only, confirmed by a second run


# ------------------------------------------------------------------ scripted streams

class Script:
    def __init__(self, chunks, raises):
        self.chunks = list(chunks)
        self.raises = raises
        self.reads = 0
        self.closes = 0

    def step(self, stop):
        self.reads += 1
        if self.chunks:
            return self.chunks.pop(0)
        if self.raises:
            raise_fault(int(self.raises), StreamBoom)
        raise stop


class _End(Exception):
    pass


# stream kinds: 0 file-like (read), 1 iterator (iter(x) is x), 2 (ASGI) async generator,
# 3 CONTAINER: __iter__/__aiter__ returns a SEPARATE iterator object (close() lives on the
# container the application assigned), 5 has both read() and __iter__/__aiter__
def model_kind(kind):
    return 0 if kind in (0, 5) else 1


def make_wsgi_stream(kind, chunks, raises, has_close):
    sc = Script(chunks, raises)
    if kind == 3:
        class Box:
            def __iter__(self):
                def gen():
                    while True:
                        try:
                            item = sc.step(_End())
                        except _End:
                            return
                        yield item
                return gen()
        cls = Box
    elif kind == 5:
        class Both:
            def read(self, size=-1):
                try:
                    return sc.step(_End())
                except _End:
                    return b''

            def __iter__(self):
                raise ProtocolError('a file-like stream must be read(), not iterated')
        cls = Both
    elif kind == 0:
        class F:
            def read(self, size=-1):
                try:
                    return sc.step(_End())
                except _End:
                    return b''
        cls = F
    else:
        class It:
            def __iter__(self):
                return self

            def __next__(self):
                return sc.step(StopIteration())
        cls = It
    if has_close:
        def close(self):
            sc.closes += 1
        cls.close = close
    return cls(), sc


def make_asgi_stream(kind, chunks, raises, has_close):
    sc = Script(chunks, raises)
    if kind == 2:
        # an async GENERATOR: no close() attribute (only aclose()), so falcon has nothing to call
        async def agen():
            while True:
                try:
                    item = sc.step(_End())
                except _End:
                    return
                yield item
        return agen(), sc
    if kind == 3:
        class ABox:
            def __aiter__(self):
                async def agen():
                    while True:
                        try:
                            item = sc.step(_End())
                        except _End:
                            return
                        yield item
                return agen()
        cls = ABox
    elif kind == 5:
        class ABoth:
            async def read(self, size=-1):
                try:
                    return sc.step(_End())
                except _End:
                    return b''

            def __aiter__(self):
                raise ProtocolError('a file-like stream must be read(), not iterated')
        cls = ABoth
    elif kind == 0:
        class F:
            async def read(self, size=-1):
                try:
                    return sc.step(_End())
                except _End:
                    return b''
        cls = F
    else:
        class It:
            def __aiter__(self):
                return self

            async def __anext__(self):
                return sc.step(StopAsyncIteration())
        cls = It
    if has_close:
        async def close(self):
            sc.closes += 1
        cls.close = close
    return cls(), sc


# ------------------------------------------------------------------ PEP 3333 monitor

class FileWrapper:
    """wsgi.file_wrapper as in PEP 3333's example"""
    def __init__(self, filelike, blksize=8192):
        self.filelike = filelike
        self.blksize = blksize
        if hasattr(filelike, 'close'):
            self.close = filelike.close

    def __iter__(self):
        return self

    def __next__(self):
        data = self.filelike.read(self.blksize)
        if data:
            return data
        raise StopIteration


def wsgi_environ(method, wrapper):
    import io
    env = {'REQUEST_METHOD': method, 'SCRIPT_NAME': '', 'PATH_INFO': '/', 'QUERY_STRING': '',
           'SERVER_NAME': 'localhost', 'SERVER_PORT': '80', 'SERVER_PROTOCOL': 'HTTP/1.1',
           'wsgi.version': (1, 0), 'wsgi.url_scheme': 'http', 'wsgi.input': io.BytesIO(b''),
           'wsgi.errors': io.StringIO(), 'wsgi.multithread': False, 'wsgi.multiprocess': False,
           'wsgi.run_once': False, 'HTTP_HOST': 'localhost'}
    if wrapper:
        env['wsgi.file_wrapper'] = FileWrapper
    return env


def serve_wsgi(app, env):
    """The server side of PEP 3333: exactly one start_response, str status, list of (str, str)
    header tuples, an iterable of bytes; close() is called once after iteration."""
    starts = []

    def start_response(status, headers, exc_info=None):
        if type(status) is not str:
            raise ProtocolError('status is %r' % type(status))
        if type(headers) is not list:
            raise ProtocolError('headers is %r' % type(headers))
        for item in headers:
            if type(item) is not tuple or len(item) != 2 or type(item[0]) is not str or type(item[1]) is not str:
                raise ProtocolError('header item %r' % (item,))
            try:
                item[0].encode('latin-1')
                item[1].encode('latin-1')
            except UnicodeEncodeError:
                raise ProtocolError('header not latin-1: %r' % (item,))
        starts.append((status, headers))
        return lambda data: None
    result = app(env, start_response)
    chunks, raised = [], False
    try:
        for chunk in result:
            if len(starts) != 1:
                raise ProtocolError('%d start_response calls before the first chunk' % len(starts))
            if type(chunk) is not bytes:
                raise ProtocolError('chunk of type %r' % type(chunk))
            chunks.append(chunk)
    except SCRIPTED:
        # whatever ended the iteration, a conforming server still calls close()
        raised = True
    finally:
        if hasattr(result, 'close'):
            result.close()
    if len(starts) != 1:
        raise ProtocolError('%d start_response calls' % len(starts))
    return starts[0][0], starts[0][1], chunks, raised


# ------------------------------------------------------------------ ASGI monitor

async def serve_asgi(app, method, fail_at, disconnect=None):
    """The server side of the ASGI HTTP protocol: checks event shapes and ordering itself."""
    scope = {'type': 'http', 'asgi': {'version': '3.0', 'spec_version': '2.1'}, 'http_version': '1.1',
             'method': method, 'scheme': 'http', 'path': '/', 'raw_path': b'/', 'query_string': b'',
             'root_path': '', 'headers': [(b'host', b'localhost')], 'client': ('127.0.0.1', 5000),
             'server': ('localhost', 80)}
    events = []
    state = {'n': 0, 'received': False}
    never = asyncio.Event()
    parked = asyncio.Event()
    gone = asyncio.Event()          # the client disconnected
    more_sent = {'n': 0, 'after_gone': 0}
    if disconnect == 0:
        gone.set()

    async def receive():
        if not state['received']:
            state['received'] = True
            return {'type': 'http.request', 'body': b'', 'more_body': False}
        if disconnect is not None:
            await gone.wait()
            return {'type': 'http.disconnect'}
        await never.wait()

    async def send(ev):
        n = state['n']
        state['n'] += 1
        if fail_at is not None and n == fail_at[0]:
            if fail_at[1] == 4:
                # the server is stuck (client gone / timeout) and will cancel the app task
                parked.set()
                await never.wait()
            raise_fault(fail_at[1], SendFail)
        t = ev.get('type')
        if t == 'http.response.start':
            if type(ev.get('status')) is not int:
                raise ProtocolError('status %r' % (ev.get('status'),))
            hs = ev.get('headers', [])
            for item in hs:
                k, v = item
                if type(k) is not bytes or type(v) is not bytes or k != k.lower():
                    raise ProtocolError('header %r' % (item,))
            events.append(['start', ev['status'], [(k, v) for k, v in hs]])
        elif t == 'http.response.body':
            b = ev.get('body', b'')
            if type(b) is not bytes:
                raise ProtocolError('body %r' % type(b))
            events.append(['body', b, bool(ev.get('more_body', False))])
            if disconnect is not None:
                if gone.is_set() and ev.get('more_body', False):
                    # the disconnect has been delivered: a correct app stops within an event
                    # or two; the verdict is a COUNT, not a clock
                    more_sent['after_gone'] += 1
                    if more_sent['after_gone'] > RUNAWAY_EVENTS:
                        raise Runaway()
                if ev.get('more_body', False):
                    more_sent['n'] += 1
                if more_sent['n'] >= disconnect:
                    gone.set()
                # a real server suspends here: the disconnect watcher gets to run
                await asyncio.sleep(0)
                await asyncio.sleep(0)
        else:
            raise ProtocolError('event type %r' % t)
    raised = False
    if fail_at is not None and fail_at[1] == 4:
        task = asyncio.ensure_future(app(scope, receive, send))
        waiter = asyncio.ensure_future(parked.wait())
        await asyncio.wait([task, waiter], return_when=asyncio.FIRST_COMPLETED)
        if not task.done():
            task.cancel()
        waiter.cancel()
        try:
            await task
        except SCRIPTED:
            raised = True
    else:
        try:
            if disconnect is not None:
                try:
                    await asyncio.wait_for(app(scope, receive, send), WALL_CLOCK_GUARD_S)
                except Runaway:
                    raise ProtocolError('the app goes on emitting after http.disconnect: more than %d further '
                                        'events' % RUNAWAY_EVENTS)
                except asyncio.TimeoutError:
                    raise WallClockGuard()
            else:
                await app(scope, receive, send)
        except SCRIPTED:
            raised = True
    # tasks the app left behind (the SSE disconnect watcher when the app was interrupted)
    stray = [t for t in asyncio.all_tasks() if t is not asyncio.current_task() and not t.done()]
    for t in stray:
        t.cancel()
    if stray:
        await asyncio.gather(*stray, return_exceptions=True)
    return events, raised


# ------------------------------------------------------------------ cells

CODES = [200, 201, 204, 304, 100, 101, 404, 500, 799, 299, 205, 302]
REASONS = {204: ['204 No Content', '204 Nothing Here', '204 no content'], 304: ['304 Not Modified', '304 unchanged'],
           100: ['100 Continue', '100 Go On'], 101: ['101 Switching Protocols', '101 Upgrade'],
           200: ['200 OK', '200 Fine'], 404: ['404 Not Found', '404 Nope'], 799: ['799 Whatever']}
TEXTS = [None, None, '', 'hello', 'café ☃']
DATAS = [None, None, b'', b'raw-bytes', b'\x00\x01\xff']
MEDIAS = [None, None, {'k': 'v'}, [], 'str']
CLENS = [None, None, '5', '0', '999']
CTYPES = [None, None, 'application/json', 'text/plain; charset=utf-8']
CHUNKSETS = [[], [b'a'], [b'ab', b'cd'], [b'x', b'', b'y'], [b'1', b'2', b'3'], [b'q' * 50]]


def status_forms(rng, code):
    forms = [[0, code], [2, str(code)]]
    for line in REASONS.get(code, ['%d Custom Reason' % code]):
        forms.append([1, line])
    try:
        e = http.HTTPStatus(code)
        forms.append([3, code, e.phrase])
    except ValueError:
        pass
    return forms


def status_value(form):
    if form[0] == 0:
        return form[1]
    if form[0] in (1, 2):
        return form[1]
    return http.HTTPStatus(form[1])


def gen_cell(rng, asgi):
    code = rng.choice(CODES)
    form = rng.choice(status_forms(rng, code))
    text, data, media = rng.choice(TEXTS), rng.choice(DATAS), rng.choice(MEDIAS)
    ctype = rng.choice(CTYPES)
    if media is not None and ctype is not None and not ctype.startswith('application/json'):
        ctype = None     # an unresolvable media type is C04's subject
    stream = None
    if rng.random() < 0.45:
        chunks = [c for c in rng.choice(CHUNKSETS)]
        kind = rng.choice([0, 1, 2, 3, 3, 5]) if asgi else rng.choice([0, 1, 3, 3, 5])
        if asgi and rng.random() < 0.2:
            chunks = list(chunks)
            chunks.insert(rng.randint(0, len(chunks)), None)
        if not asgi and kind == 1:
            pass
        stream = [kind, chunks, rng.choice([0, 0, 0, 0, 1, 2, 3]), rng.random() < 0.7 and kind != 2]
    sse = None
    if asgi and rng.random() < 0.12:
        sse = [rng.choice([None, {'data': b'x'}, {'text': 'héllo', 'event': 'e1'}, {'json': {'a': 1}, 'event_id': '7'}])
               for _ in range(rng.randint(0, 3))]
    fail_at = None
    if asgi and rng.random() < 0.3:
        fail_at = [rng.randint(0, 5), rng.choice([1, 2, 3, 4])]
    return {'asgi': int(asgi), 'method': rng.choice(['GET', 'GET', 'HEAD', 'POST']), 'status': form,
            'text': text, 'data': data, 'media': media, 'stream': stream, 'sse': sse,
            'clen': rng.choice(CLENS), 'ctype': ctype, 'wrapper': int(rng.random() < 0.5),
            'custom_resp': int(rng.random() < 0.3), 'fail_at': fail_at}


def cell_json(c):
    def conv(x):
        if isinstance(x, bytes):
            return {'bytes': list(x)}
        if isinstance(x, dict):
            return {k: conv(v) for k, v in x.items()}
        if isinstance(x, (list, tuple)):
            return [conv(v) for v in x]
        return x
    return conv(c)


def cell_from_json(o):
    def conv(x):
        if isinstance(x, dict):
            if set(x) == {'bytes'}:
                return bytes(x['bytes'])
            return {k: conv(v) for k, v in x.items()}
        if isinstance(x, list):
            return [conv(v) for v in x]
        return x
    return conv(o)


class Env:
    """apps (one per interface x response class) whose responder fills resp from the current cell"""
    def __init__(self, falcon):
        import falcon.asgi
        import falcon.media
        self.falcon = falcon
        self.cell = None
        self.script = None
        self.json = falcon.media.JSONHandler()
        env = self

        def do_steps(resp, steps, asgi):
            """sync part of a construction script; 'render' is handled by the callers"""
            for st in steps:
                if st[0] == 'text':
                    resp.text = st[1]
                elif st[0] == 'data':
                    resp.data = st[1]
                elif st[0] == 'media':
                    resp.media = st[1]
                elif st[0] == 'ctype':
                    resp.content_type = st[1]
                else:
                    yield resp

        def fill(resp, asgi):
            c = env.cell
            resp.status = status_value(c['status'])
            if c['text'] is not None:
                resp.text = c['text']
            if c['data'] is not None:
                resp.data = c['data']
            if c['media'] is not None:
                resp.media = c['media']
            if c['stream'] is not None:
                kind, chunks, raises, has_close = c['stream']
                mk = make_asgi_stream if asgi else make_wsgi_stream
                resp.stream, env.script = mk(kind, chunks, raises, has_close)
            if c['sse'] is not None:
                async def emitter():
                    while True:
                        for e in c['sse']:
                            yield None if e is None else falcon.asgi.SSEvent(**e)
                        if not (c.get('sse_infinite') and c['sse']):
                            break
                resp.sse = emitter()
            if c['clen'] is not None:
                resp.set_header('Content-Length', c['clen'])
            if c['ctype'] is not None:
                resp.content_type = c['ctype']
            mf = c.get('media_fail')
            if mf == 'object':
                resp.media = object()
            elif mf == 'ctype':
                resp.media = {'k': 1}
                resp.content_type = 'application/x-unknown'
            elif mf == 'handler':
                resp.media = {'k': 1}
                resp.content_type = 'application/x-fail'

        def recover(resp):
            rc = env.cell['recovery']
            resp.status = status_value(rc['status'])
            if rc['text'] is not None:
                resp.text = rc['text']
            if rc['data'] is not None:
                resp.data = rc['data']
            if rc['media'] is not None:
                resp.media = object() if rc['media_fails'] else rc['media']
            if rc['ctype'] is not None:
                resp.content_type = rc['ctype']

        class FailHandler(falcon.media.BaseHandler):
            def serialize(self, media, content_type):
                raise RuntimeError('scripted serializer failure')

            async def serialize_async(self, media, content_type):
                raise RuntimeError('scripted serializer failure')

            def deserialize(self, stream, content_type, content_length):
                raise NotImplementedError

        def h_sync(req, resp, ex, params):
            recover(resp)

        async def h_async(req, resp, ex, params):
            recover(resp)

        class Res:
            def on_get(self, req, resp):
                fill(resp, False)
                c = env.cell
                if c.get('steps') is not None:
                    for r in do_steps(resp, c['steps'][:c['mw_from']], False):
                        r.render_body()
            on_head = on_post = on_get

        class ARes:
            async def on_get(self, req, resp):
                fill(resp, True)
                c = env.cell
                if c.get('steps') is not None:
                    for r in do_steps(resp, c['steps'][:c['mw_from']], True):
                        await r.render_body()
            on_head = on_post = on_get

        class LateMW:
            """a middleware that goes on building (and peeking at) the response"""
            def process_response(self, req, resp, resource, req_succeeded):
                c = env.cell
                if c.get('steps') is not None:
                    for r in do_steps(resp, c['steps'][c['mw_from']:], False):
                        r.render_body()

        class ALateMW:
            async def process_response(self, req, resp, resource, req_succeeded):
                c = env.cell
                if c.get('steps') is not None:
                    for r in do_steps(resp, c['steps'][c['mw_from']:], True):
                        await r.render_body()

        class MyResp(falcon.Response):
            pass

        class MyAResp(falcon.asgi.Response):
            pass
        self.apps = {}
        for asgi in (0, 1):
            for custom in (0, 1):
                for handlers in (0, 1):
                    if asgi:
                        app = falcon.asgi.App(response_type=MyAResp, middleware=[ALateMW()]) if custom \
                            else falcon.asgi.App(middleware=[ALateMW()])
                        app.add_route('/', ARes())
                    else:
                        app = falcon.App(response_type=MyResp, middleware=[LateMW()]) if custom \
                            else falcon.App(middleware=[LateMW()])
                        app.add_route('/', Res())
                    app.resp_options.media_handlers['application/x-fail'] = FailHandler()
                    if handlers:
                        # application error handlers answering a rendering failure
                        app.add_error_handler(Exception, h_async if asgi else h_sync)
                        app.add_error_handler(falcon.HTTPError, h_async if asgi else h_sync)
                    self.apps[(asgi, custom, handlers)] = app

    def wire(self, c):
        falcon = self.falcon
        o = lambda x: [] if x is None else [x]
        text = None if c['text'] is None else c['text'].encode('utf-8')
        media = None if c['media'] is None else self.json.serialize(c['media'], 'application/json')
        stream = []
        if c['stream'] is not None:
            kind, chunks, raises, has_close = c['stream']
            stream = [[model_kind(kind), [[] if ch is None else [ch] for ch in chunks], int(raises), has_close]]
        sse = []
        if c['sse'] is not None and c['asgi']:
            sse = [[(falcon.asgi.SSEvent() if e is None else falcon.asgi.SSEvent(**e)).serialize() for e in c['sse']]]
        if c.get('steps') is not None:
            steps = []
            for st in c['steps']:
                if st[0] == 'text':
                    steps.append([0, o(None if st[1] is None else st[1].encode('utf-8'))])
                elif st[0] == 'data':
                    steps.append([1, o(st[1])])
                elif st[0] == 'media':
                    steps.append([2, o(None if st[1] is None else self.json.serialize(st[1], 'application/json'))])
                elif st[0] == 'ctype':
                    steps.append([3, o(st[1])])
                else:
                    steps.append([4])
            return [steps, c['method'] == 'HEAD', c['status'], stream, o(c['clen']), c['wrapper']]
        disc = []
        if c.get('disconnect') is not None:
            disc = [c['disconnect']]
            if c.get('sse_infinite') and c['sse']:
                # the model gets the prefix the endless emitter produces up to the disconnect
                evs = sse[0]
                sse = [[evs[k % len(evs)] for k in range(c['disconnect'] + 2)]]
        mf = c.get('media_fail')
        ctype = c['ctype']
        rec = [[0, 500], [], [], [], 0, []]
        if mf:
            media = b'?'                   # never serialized
            if mf == 'ctype':
                ctype = 'application/x-unknown'
            elif mf == 'handler':
                ctype = 'application/x-fail'
            rc = c['recovery']
            if rc == 'default':
                # the framework's own handlers: 500 / 415 with the JSON error document
                if mf == 'ctype':
                    try:
                        falcon.media.Handlers()._resolve('application/x-unknown', falcon.MEDIA_JSON)
                    except falcon.HTTPError as e:
                        err = e
                else:
                    err = falcon.HTTPInternalServerError()
                rec = [[0, err.status_code], [], [err.to_json()], [], 0, ['application/json']]
            else:
                rtext = None if rc['text'] is None else rc['text'].encode('utf-8')
                rmedia = None if rc['media'] is None else self.json.serialize(rc['media'], 'application/json')
                # without a new content type the recovered media meets the same unresolvable /
                # failing handler again
                again = bool(rc['media_fails']) or (rc['media'] is not None and rc['ctype'] is None
                                                   and mf in ('ctype', 'handler'))
                rec = [rc['status'], o(rtext), o(rc['data']), o(rmedia), int(again), o(rc['ctype'])]
        return [c['method'] == 'HEAD', c['status'], o(text), o(c['data']), o(media), stream, sse,
                o(c['clen']), o(ctype), c['wrapper'], disc, int(bool(mf)), rec]


def header_pick(headers, name):
    vals = [v for k, v in headers if k.lower() == name]
    if len(vals) > 1:
        raise ProtocolError('duplicate %s: %r' % (name, vals))
    return vals[0] if vals else None


def run_cells(ctx, model, env, cells, label):
    # ---- the real framework
    obs = []
    asgi_jobs = []
    for n, c in enumerate(cells):
        env.cell, env.script = c, None
        app = env.apps[(c['asgi'], c['custom_resp'], int(isinstance(c.get('recovery'), dict)))]
        if c['asgi']:
            obs.append(None)
            asgi_jobs.append(n)
            continue
        try:
            status, headers, chunks, raised = serve_wsgi(app, wsgi_environ(c['method'], c['wrapper']))
            sc = env.script
            obs.append(['ok', status, header_pick(headers, 'content-length'), header_pick(headers, 'content-type'),
                        chunks, raised, sc.reads if sc else 0, sc.closes if sc else 0])
        except ProtocolError as e:
            obs.append(['protocol', str(e)])
        except ValueError as e:
            obs.append(['valueerror', str(e)])

    async def go():
        for n in asgi_jobs:
            c = cells[n]
            env.cell, env.script = c, None
            app = env.apps[(1, c['custom_resp'], int(isinstance(c.get('recovery'), dict)))]
            try:
                try:
                    events, raised = await serve_asgi(app, c['method'], c['fail_at'], c.get('disconnect'))
                except WallClockGuard:
                    # not a verdict: run the cell once more, alone; only a second firing counts
                    ctx.count('wall-clock-guard-fired')
                    env.cell, env.script = c, None
                    try:
                        events, raised = await serve_asgi(app, c['method'], c['fail_at'], c.get('disconnect'))
                    except WallClockGuard:
                        raise ProtocolError('the app did not finish within %d s after http.disconnect, twice'
                                            % WALL_CLOCK_GUARD_S)
                sc = env.script
                obs[n] = ['ok', events, raised, sc.reads if sc else 0, sc.closes if sc else 0]
            except ProtocolError as e:
                obs[n] = ['protocol', str(e)]
            except ValueError as e:
                obs[n] = ['valueerror', str(e)]
    if asgi_jobs:
        asyncio.run(go())
    # ---- the model
    wires = [env.wire(c) for c in cells]
    off = lambda c: 10 if c.get('steps') is not None else 0
    mcases = [[1 + off(c), w, [] if c['fail_at'] is None else [c['fail_at']]] if c['asgi'] else [0 + off(c), 1, w]
              for c, w in zip(cells, wires)]
    outs = model.run_many(mcases)
    ocases, oidx = [], []
    for n, (c, w, o, m) in enumerate(zip(cells, wires, obs, outs)):
        ctx.count(label)
        ctx.count('asgi' if c['asgi'] else 'wsgi')
        key = json.dumps(cell_json(c), sort_keys=True)
        ctx.note_case(key, c['text'] is not None or c['data'] is not None or c['media'] is not None
                      or c['stream'] is not None or c['sse'] is not None or c['method'] == 'HEAD'
                      or bool(c.get('steps')))
        if c.get('steps') is not None:
            ctx.count('built-in-steps')
        if o[0] == 'protocol':
            ctx.violation('protocol-violation', {'cell': cell_json(c), 'what': o[1]}, key='proto-%d' % c['asgi'])
            continue
        media_only = (c['media'] is not None and c['text'] is None and c['data'] is None and not c['ctype']) \
            or (c.get('steps') is not None and any(st[0] == 'media' for st in c['steps']))
        if m[0] == 1 and m[-1] and not (m[-1] == [5] and media_only):   # [5] there = known finding (refuted theorem)
            ctx.violation('model-fails-own-oracle', {'cell': cell_json(c), 'model': repr(m)}, found_input=False,
                          key='model-oracle')
        if o[0] == 'valueerror' or m[0] == 0:
            if not (o[0] == 'valueerror' and m[0] == 0):
                ctx.violation('correspondence-broken', {'cell': cell_json(c), 'impl': repr(o), 'model': repr(m),
                                                        'broken': 'C05.status_normalisation'}, found_input=False,
                              key='status-norm')
            continue
        if c['asgi']:
            evs = []
            try:
                for e in o[1]:
                    if e[0] == 'start':
                        hs = [(k.decode('latin-1'), v.decode('latin-1')) for k, v in e[2]]
                        evs.append([0, e[1], [x for x in [header_pick(hs, 'content-length')] if x is not None],
                                    [x for x in [header_pick(hs, 'content-type')] if x is not None]])
                    else:
                        evs.append([1, e[1], e[2]])
            except ProtocolError as e:
                ctx.violation('protocol-violation', {'cell': cell_json(c), 'what': str(e)}, key='proto-dup')
                continue
            ocases.append([3 + off(c), w, evs, o[2], o[3], o[4]])
        else:
            ocases.append([2 + off(c), w, o[1], [] if o[2] is None else [o[2]], [] if o[3] is None else [o[3]],
                           o[4], o[5], o[6], o[7]])
        oidx.append(n)
    fails = model.run_many(ocases)
    names = {1: 'status line / event sequence', 2: 'body precedence', 3: 'Content-Length != bytes sent',
             4: 'bodiless response carries bytes', 5: '204/304 with framework Content-Type',
             6: 'Content-Type missing', 7: 'stream close() not exactly once'}
    for n, oc, f in zip(oidx, ocases, fails):
        c, o, m = cells[n], obs[n], outs[n]
        if f[1]:
            detail = {'cell': cell_json(c), 'impl': repr(o), 'clauses_failed': f[1],
                      'clause_names': {str(k): names[k] for k in f[1]}}
            if f[1] == [5] and media_only_cell(c):
                # the only body source is resp.media: rendering it sets resp.content_type
                ctx.violation('typeless-media-content-type', detail, key='typeless-media-%d' % c['asgi'])
            else:
                ctx.violation('framing-violated', detail, key='framing-%d-%s' % (c['asgi'], f[1]))
            continue
        # model vs implementation (public observables): a disagreement without a failing clause
        if c['asgi']:
            mo = [m[1], m[2], m[3], m[4]]
            io = [[[x if not isinstance(x, bytes) else list(x) for x in e] for e in oc[2]], int(oc[3]), oc[4], oc[5]]
            io[0] = [[e[0], e[1], [list(map(ord, s)) for s in e[2]], [list(map(ord, s)) for s in e[3]]] if e[0] == 0
                     else [1, list(e[1]), int(e[2])] for e in oc[2]]
        else:
            mo = m[1:8]
            io = [list(map(ord, o[1])), [] if o[2] is None else [list(map(ord, o[2]))],
                  [] if o[3] is None else [list(map(ord, o[3]))], [list(x) for x in o[4]], int(o[5]), o[6], o[7]]
        if mo != io:
            ctx.violation('correspondence-broken', {'cell': cell_json(c), 'impl': repr(io), 'model': repr(mo),
                                                    'broken': 'C05.%s_emit_corr' % ('asgi' if c['asgi'] else 'wsgi')},
                          found_input=False, key='corr-%d' % c['asgi'])
    return obs


def media_only_cell(c):
    """the content type was (or may have been) set by render_body() while rendering resp.media"""
    if c.get('steps') is not None:
        return any(st[0] == 'media' for st in c['steps'])
    return c['media'] is not None and c['text'] is None and c['data'] is None and not c['ctype']


STEP_TEXTS = [None, '', 'late text', 'naïve ☃']
STEP_DATAS = [None, b'', b'late-data', b'\x00\xfe']
STEP_MEDIAS = [None, {'first': 1}, {'second': [1, 2]}, [], 'm']


def gen_steps(rng):
    """a response-construction script: assignments to text/data/media/content_type interleaved
    with early render_body() calls, split between the responder and a middleware"""
    n = rng.randint(1, 7)
    steps = []
    for _ in range(n):
        k = rng.random()
        if k < 0.3:
            steps.append(['render'])
        elif k < 0.55:
            steps.append(['media', rng.choice(STEP_MEDIAS)])
        elif k < 0.75:
            steps.append(['data', rng.choice(STEP_DATAS)])
        elif k < 0.9:
            steps.append(['text', rng.choice(STEP_TEXTS)])
        else:
            steps.append(['ctype', rng.choice([None, 'application/json'])])
    return steps


def gen_step_cell(rng, asgi):
    c = gen_cell(rng, asgi)
    steps = gen_steps(rng)
    c.update(text=None, data=None, media=None, ctype=None, sse=None, steps=steps,
             mw_from=rng.randint(0, len(steps)))
    if c['fail_at'] is not None and c['stream'] is None:
        c['fail_at'] = rng.choice([None, [0, 1], [1, 3], [2, 4], [1, 2]])
    return c


def step_matrix():
    """every script of <= 3 steps over {media A, media B, data, text, data=None, render} on both
    interfaces, GET and HEAD, rendered in the responder or in the middleware"""
    alphabet = [['media', {'first': 1}], ['media', {'second': [1, 2]}], ['data', b'late-data'], ['text', 'late text'],
                ['data', None], ['render']]
    base = {'status': [0, 200], 'text': None, 'data': None, 'media': None, 'stream': None, 'sse': None,
            'clen': None, 'ctype': None, 'wrapper': 0, 'custom_resp': 0, 'fail_at': None}
    for n in (1, 2, 3):
        for steps in itertools.product(alphabet, repeat=n):
            if ['render'] not in steps:
                continue
            for asgi in (0, 1):
                for custom in (0, 1):
                    yield dict(base, asgi=asgi, method='GET', custom_resp=custom, steps=[list(x) for x in steps],
                               mw_from=n if custom else max(0, n - 1))
            yield dict(base, asgi=1, method='HEAD', steps=[list(x) for x in steps], mw_from=0)
            yield dict(base, asgi=0, method='HEAD', steps=[list(x) for x in steps], mw_from=n)


def fault_matrix():
    """every stream end (end / raise) x every send fault point, for streams of <= 3 chunks,
    both stream kinds, with and without close(), on ASGI; the same streams on WSGI"""
    base = {'method': 'GET', 'status': [0, 200], 'text': None, 'data': None, 'media': None, 'sse': None,
            'clen': None, 'ctype': None, 'wrapper': 0, 'custom_resp': 0}
    for chunks in ([], [b'a'], [b'a', b'bc'], [b'a', b'bc', b'd'], [b'a', None, b'd'], [b'a', b'', b'd']):
        for kind in (0, 1, 2, 3, 5):
            for raises in (0, 1, 2, 3):
                for has_close in (True, False):
                    if kind == 2 and has_close:
                        continue
                    yield dict(base, asgi=1, stream=[kind, list(chunks), raises, has_close], fail_at=None)
                    for idx in range(0, len(chunks) + 3):
                        for fk in (1, 2, 3, 4):
                            yield dict(base, asgi=1, stream=[kind, list(chunks), raises, has_close], fail_at=[idx, fk])
                    if None not in chunks and kind != 2:
                        for wrapper in (0, 1):
                            for method in ('GET', 'HEAD'):
                                yield dict(base, asgi=0, method=method, wrapper=wrapper,
                                           stream=[kind, list(chunks), raises, has_close], fail_at=None)


def sse_fault_matrix():
    """SSE emitters under every send fault point and kind (event sequence must stay valid)"""
    base = {'asgi': 1, 'method': 'GET', 'status': [0, 200], 'text': None, 'data': None, 'media': None, 'stream': None,
            'clen': None, 'ctype': None, 'wrapper': 0, 'custom_resp': 0}
    for evs in ([], [{'data': b'x'}], [{'data': b'x'}, None, {'text': 'y'}]):
        yield dict(base, sse=list(evs), fail_at=None)
        for idx in range(0, len(evs) + 3):
            for fk in (1, 2, 3, 4):
                yield dict(base, sse=list(evs), fail_at=[idx, fk])


def sse_disconnect_matrix():
    """finite and endless SSE emitters, http.disconnect delivered after k events"""
    base = {'asgi': 1, 'method': 'GET', 'status': [0, 200], 'text': None, 'data': None, 'media': None, 'stream': None,
            'clen': None, 'ctype': None, 'wrapper': 0, 'fail_at': None}
    for evs in ([{'data': b'x'}], [{'data': b'x'}, None, {'text': 'y'}], [{'json': {'n': 1}}, {'data': b'2'}]):
        for infinite in (0, 1):
            for k in range(0, 6):
                for custom in (0, 1):
                    yield dict(base, sse=list(evs), sse_infinite=infinite, disconnect=k, custom_resp=custom)
    yield dict(base, sse=[], sse_infinite=0, disconnect=0, custom_resp=0)


RECOVERIES = ['default',
              {'status': [0, 500], 'text': 'rendering failed', 'data': None, 'media': None, 'media_fails': 0, 'ctype': 'text/plain'},
              {'status': [0, 503], 'text': None, 'data': b'raw error document', 'media': None, 'media_fails': 0, 'ctype': None},
              {'status': [1, '500 Oops'], 'text': None, 'data': None, 'media': {'error': 'x' * 30}, 'media_fails': 0,
               'ctype': 'application/json'},
              {'status': [0, 500], 'text': None, 'data': None, 'media': {'again': 1}, 'media_fails': 1, 'ctype': 'application/json'},
              {'status': [0, 500], 'text': None, 'data': None, 'media': {'again': 1}, 'media_fails': 0, 'ctype': None},
              {'status': [0, 204], 'text': 'ignored', 'data': None, 'media': None, 'media_fails': 0, 'ctype': None},
              {'status': [0, 500], 'text': None, 'data': None, 'media': None, 'media_fails': 0, 'ctype': None},
              {'status': [0, 500], 'text': 'naïve ☃ text', 'data': b'data too', 'media': None, 'media_fails': 0, 'ctype': None}]


def render_failure_matrix():
    """render_body() raises (unserializable resp.media / no handler for the content type / the
    handler raises) x how the error is answered (default handlers; application handlers via
    text / data / media / nothing / media that fails again) x method x stream x interface"""
    base = {'text': None, 'data': None, 'media': None, 'sse': None, 'clen': None, 'ctype': None, 'wrapper': 0,
            'fail_at': None}
    for mf in ('object', 'ctype', 'handler'):
        for rc in RECOVERIES:
            for method in ('GET', 'HEAD'):
                for stream in (None, [1, [b'st', b'ream'], 0, True]):
                    for asgi in (0, 1):
                        for custom in (0, 1):
                            for clen in (None, '999'):
                                yield dict(base, asgi=asgi, method=method, status=[0, 200], stream=stream,
                                           custom_resp=custom, media_fail=mf, recovery=rc, clen=clen)


def status_matrix():
    """every status form of every generated code x method x one body source, both interfaces"""
    import random
    rng = random.Random(1)
    for code in CODES:
        for form in status_forms(rng, code):
            for method in ('GET', 'HEAD'):
                for src in ('none', 'text', 'data', 'media', 'stream'):
                    for asgi in (0, 1):
                        yield {'asgi': asgi, 'method': method, 'status': form,
                               'text': 'abc' if src == 'text' else None, 'data': b'xyz' if src == 'data' else None,
                               'media': {'m': 1} if src == 'media' else None,
                               'stream': [1, [b'st', b'ream'], False, True] if src == 'stream' else None,
                               'sse': None, 'clen': None, 'ctype': None, 'wrapper': 0, 'custom_resp': 0, 'fail_at': None}


def main(ctx):
    import falcon
    logging.getLogger('falcon').setLevel(logging.CRITICAL + 1)
    model = common.Model(ctx)
    env = Env(falcon)
    for o in common.corpus('C05'):
        o.pop('_file', None)
        replay(ctx, o, model, env)
    ctx.cov['rule'] = ('one cell = interface x method x status form x text/data/media/stream/sse (any subset) x preset '
                       'Content-Length/Content-Type x stream script (chunks, end|raise, close()) x send fault point x '
                       'response class x wsgi.file_wrapper; served through the harness\'s own PEP 3333 / ASGI monitors; '
                       'non-trivial = some body source set or HEAD')
    quick = ctx.tier == 'quick'
    run_cells(ctx, model, env, list(status_matrix()), 'status-matrix')
    run_cells(ctx, model, env, list(fault_matrix()), 'fault-matrix')
    run_cells(ctx, model, env, list(sse_fault_matrix()), 'sse-fault-matrix')
    run_cells(ctx, model, env, list(sse_disconnect_matrix()), 'sse-disconnect-matrix')
    run_cells(ctx, model, env, list(render_failure_matrix()), 'render-failure-matrix')
    run_cells(ctx, model, env, list(step_matrix()), 'step-matrix')
    ns = 5000 if quick else 60000
    run_cells(ctx, model, env, [gen_step_cell(ctx.rng, ctx.rng.random() < 0.5) for _ in range(ns)], 'random-steps')
    n = 20000 if quick else 200000
    cells = [gen_cell(ctx.rng, ctx.rng.random() < 0.5) for _ in range(n)]
    for i in range(0, n, 20000):
        obs = run_cells(ctx, model, env, cells[i:i + 20000], 'random')
    ctx.sample({'cell': cell_json(cells[0])})
    ctx.assumptions += ['media handler serialisation (JSONHandler.serialize) and SSEvent.serialize are oracle inputs',
                        'header values are ASCII; status values are well-formed (code 100..999 / "NNN reason")',
                        'stream objects are truthy and are closed through a close() method only']


def replay(ctx, obj, model=None, env=None):
    import falcon
    model = model or common.Model(ctx)
    env = env or Env(falcon)
    if 'cell' not in obj:
        return main(ctx)
    run_cells(ctx, model, env, [cell_from_json(obj['cell'])], 'replay')
    ctx.note_case('replay', True)
