"""Regenerates coq/gen/ConstsC17.v from the staged falcon: the close codes that have a default
reason (WebSocketOptions.default_close_reasons), the fallback error close code, the default
error close code, the offset of http_status_to_ws_code."""


def emit(A, nlist, strlit, strlist):
    import falcon.asgi
    import falcon.asgi.app as app_mod
    from falcon.asgi.ws import WebSocketOptions, http_status_to_ws_code
    o = WebSocketOptions()
    codes = sorted(int(k) for k in o.default_close_reasons)
    A('From Coq Require Import ZArith List.')
    A('Import ListNotations.')
    A('Open Scope Z_scope.')
    A('Definition close_reason_codes : list Z := [%s].' % '; '.join(str(c) for c in codes))
    A('Definition fallback_ws_error_code : Z := %d.' % int(app_mod._FALLBACK_WS_ERROR_CODE))
    A('Definition default_error_close_code : Z := %d.' % int(o.error_close_code))
    A('Definition ws_code_offset : Z := %d.' % (http_status_to_ws_code(0)))
    from falcon.asgi_spec import WSCloseCode
    A('Definition ws_server_error_code : Z := %d.' % int(WSCloseCode.SERVER_ERROR))
    A('Definition ws_normal_code : Z := %d.' % int(WSCloseCode.NORMAL))
    A('Definition default_max_receive_queue : nat := %d.' % int(o.max_receive_queue))
