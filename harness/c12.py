"""C12 — media round trips and parse-at-most-once: correspondence of request.get_media (WSGI
and ASGI), the response render cache and the JSON / URL-encoded handler glue with
coq/C12/Model.v, and evaluation of the proved oracles on the implementation's behaviour."""
import asyncio
import io
import json
import math

import common

ERR = {'nf': 1, 'mal': 2, 'other': 3}


class Obj:
    """A media object; every other one is falsy (like {} / [] / 0 / ''), which must make no
    difference anywhere: the code is to test `is None` / `is _UNSET`, never truthiness."""

    def __init__(self, k):
        self.k = k

    def __bool__(self):
        return self.k % 2 == 1


def run_coro(coro):
    """Drive a coroutine that only awaits our own plain awaitables to completion."""
    try:
        while True:
            coro.send(None)
    except StopIteration as e:
        return e.value


class CountingInput(io.RawIOBase):
    def __init__(self, data, rng=None):
        self.data = data
        self.pos = 0
        self.nreads = 0
        self.rng = rng

    def readable(self):
        return True

    def read(self, n=-1):
        self.nreads += 1
        if n is None or n < 0:
            n = len(self.data) - self.pos
        if self.rng is not None and n > 1:   # short reads
            n = self.rng.randint(1, n)
        b = self.data[self.pos:self.pos + n]
        self.pos += len(b)
        return b

    def readline(self, n=-1):
        self.nreads += 1
        i = self.data.find(b'\n', self.pos)
        end = len(self.data) if i < 0 else i + 1
        if n is not None and n >= 0:
            end = min(end, self.pos + n)
        b = self.data[self.pos:end]
        self.pos = end
        return b


def make_scripted(falcon, script, exhaust, partial):
    from falcon.media.base import BaseHandler

    class Scripted(BaseHandler):
        exhaust_stream = exhaust

        def __init__(self):
            self.invocations = 0
            self.objs = {}
            self.errs = {}

        def _do(self, k):
            act = script[k] if k < len(script) else 'other'
            if act == 'ok':
                o = Obj(k)
                self.objs[id(o)] = (k, o)
                return o
            if act == 'nf':
                e = falcon.MediaNotFoundError('scripted')
            elif act == 'mal':
                e = falcon.MediaMalformedError('scripted')
            else:
                e = RuntimeError('scripted')
            self.errs[id(e)] = (k, e)
            raise e

        def deserialize(self, stream, content_type, content_length):
            k = self.invocations
            self.invocations += 1
            stream.read(partial) if partial else stream.read()
            return self._do(k)

        async def deserialize_async(self, stream, content_type, content_length):
            k = self.invocations
            self.invocations += 1
            await (stream.read(partial) if partial else stream.read())
            return self._do(k)

        def serialize(self, media, content_type=None):
            return b''

    return Scripted()


def classify(falcon, h, call):
    """Run one get_media call; map the outcome to the model's rout with object identities."""
    try:
        v = call()
    except BaseException as e:  # noqa
        if id(e) in h.errs and h.errs[id(e)][1] is e:
            k = h.errs[id(e)][0]
        else:
            k = 999
        if isinstance(e, falcon.MediaNotFoundError):
            return [2, k, 1]
        if isinstance(e, falcon.MediaMalformedError):
            return [2, k, 2]
        return [2, k, 3]
    if v is DEFAULT:
        return [1]
    if id(v) in h.objs and h.objs[id(v)][1] is v:
        return [0, h.objs[id(v)][0]]
    return [0, 999]


DEFAULT = object()


def session_wsgi(falcon, testing, script, exhaust, ds, body, rng):
    partial = max(1, len(body) // 2)
    h = make_scripted(falcon, script, exhaust, partial)
    inp = CountingInput(body)
    env = testing.create_environ(method='POST', headers={'Content-Type': 'application/x-test',
                                                         'Content-Length': str(len(body))})
    env['wsgi.input'] = inp
    opts = falcon.RequestOptions()
    opts.media_handlers['application/x-test'] = h
    req = falcon.Request(env, options=opts)
    obs = []
    later_reads = 0
    consumed_after_first = None
    for i, d in enumerate(ds):
        before = inp.nreads
        if d == 2:      # the .media property
            obs.append(classify(falcon, h, lambda: req.media))
        elif d == 1:
            obs.append(classify(falcon, h, lambda: req.get_media(default_when_empty=DEFAULT)))
        else:
            obs.append(classify(falcon, h, lambda: req.get_media()))
        if i == 0:
            consumed_after_first = inp.pos
        else:
            later_reads += inp.nreads - before
    nreads = (1 if ds else 0) + later_reads
    nex = 0
    if ds:
        nex = 1 if (consumed_after_first == len(body) and inp.pos == len(body)) else 0
        if inp.pos != consumed_after_first:
            nex = 2  # the stream moved after the first call
    return obs, h.invocations, nreads, nex


def session_asgi(falcon, testing, script, exhaust, ds, body, rng):
    import falcon.asgi
    partial = max(1, len(body) // 2)
    h = make_scripted(falcon, script, exhaust, partial)
    # body delivered in random chunks by our own receive()
    cuts = sorted(rng.sample(range(1, len(body)), min(len(body) - 1, rng.randint(0, 3)))) if len(body) > 1 else []
    chunks = [body[a:b] for a, b in zip([0] + cuts, cuts + [len(body)])]
    state = {'i': 0, 'calls': 0}

    async def receive():
        state['calls'] += 1
        i = state['i']
        if i < len(chunks):
            state['i'] += 1
            return {'type': 'http.request', 'body': chunks[i], 'more_body': i + 1 < len(chunks)}
        return {'type': 'http.disconnect'}

    scope = testing.create_scope(method='POST', headers={'Content-Type': 'application/x-test',
                                                         'Content-Length': str(len(body))})
    opts = falcon.RequestOptions()
    opts.media_handlers['application/x-test'] = h
    req = falcon.asgi.Request(scope, receive, options=opts)
    obs = []
    later = 0
    after_first = None

    def call(d):
        async def go():
            if d == 2:
                return await req.media
            if d == 1:
                return await req.get_media(default_when_empty=DEFAULT)
            return await req.get_media()
        return run_coro(go())

    for i, d in enumerate(ds):
        before = state['calls']
        obs.append(classify(falcon, h, lambda: call(d)))
        if i == 0:
            after_first = state['i']
        else:
            later += state['calls'] - before
    nreads = (1 if ds else 0) + later
    nex = 0
    if ds:
        # the handler read only part of the body: the rest is gone iff exhaust() ran
        async def rest():
            return await req.stream.read()
        nex = 1 if run_coro(rest()) == b'' else 0
    return obs, h.invocations, nreads, nex


def wire_script(script):
    return [0 if a == 'ok' else ERR[a] for a in script]


def check_sessions(ctx, falcon, testing, model):
    rng = ctx.rng
    n = 1500 if ctx.tier == 'quick' else 15000
    cases, metas = [], []
    # exhaustive small part: first action x exhaust x all call lists of length <= 3 over {plain, default, property}
    import itertools
    small = []
    for act in ('ok', 'nf', 'mal', 'other'):
        for ex in (False, True):
            for ln in range(0, 4):
                for ds in itertools.product((0, 1, 2), repeat=ln):
                    small.append(([act, 'ok', 'nf'], ex, list(ds)))
    rnd = []
    for _ in range(n):
        script = [rng.choice(['ok', 'nf', 'mal', 'other']) for _ in range(rng.randint(1, 3))]
        rnd.append((script, rng.random() < 0.5, [rng.choice([0, 1, 2]) for _ in range(rng.randint(0, 8))]))
    for script, ex, ds in small + rnd:
        for kind in ('wsgi', 'asgi'):
            body = bytes(rng.randrange(256) for _ in range(rng.randint(2, 40)))
            f = session_wsgi if kind == 'wsgi' else session_asgi
            obs, nc, nr, nx = f(falcon, testing, script, ex, ds, body, rng)
            # the model's exhaust counter: 1 iff the handler asks for it
            dsb = [1 if d == 1 else 0 for d in ds]
            cases.append([0, wire_script(script), ex, dsb])
            metas.append((kind, script, ex, ds, obs, nc, nr, nx))
    outs = model.run_many(cases)
    ocases = []
    for c, m in zip(cases, metas):
        kind, script, ex, ds, obs, nc, nr, nx = m
        ocases.append([1, wire_script(script)[0], ex, c[3], obs, nc, nr, nx])
    fails = model.run_many(ocases)
    for c, m, o, f in zip(cases, metas, outs, fails):
        kind, script, ex, ds, obs, nc, nr, nx = m
        ctx.note_case(('sess', kind, tuple(script), ex, tuple(ds)), len(ds) >= 2)
        ctx.count('session-' + kind)
        detail = {'interface': kind, 'handler_script': script, 'exhaust_stream': ex,
                  'calls(0=get_media,1=with default,2=.media)': ds, 'observed': obs,
                  'handler_invocations': nc, 'stream_reads': nr, 'exhaust_indicator': nx,
                  'model': o}
        if f:
            ctx.violation('media-cache-clause', dict(detail, clauses_failed=f,
                          clause_names={1: 'same object / same error / default only for not-found',
                                        2: 'handler invoked more than once', 3: 'stream touched by a later call',
                                        4: 'stream not exhausted exactly as the handler asks'}),
                          key='sess-%s' % f)
        elif [o[0], o[1], o[2], o[3]] != [obs, nc, nr, nx]:
            ctx.violation('correspondence-broken', dict(detail, broken='C12.get_media_corr'),
                          found_input=False, key='sess-corr')
    ctx.sample({'session': metas[40][:5]})


# ------------------------------------------------------------------ real handlers

def gen_doc(rng, depth=0):
    r = rng.random()
    if depth > 3 or r < 0.35:
        k = rng.randrange(7)
        if k == 0:
            return None
        if k == 1:
            return rng.random() < 0.5
        if k == 2:
            return rng.choice([0, 1, -1, 2 ** 63, -2 ** 64 - 1, 10 ** 30, rng.randrange(-1000, 1000)])
        if k == 3:
            return rng.choice([0.5, -1.25, 1e300, 1e-300, 3.141592653589793, 0.1, -0.0, 1.0])
        chars = ['a', 'Z', ' ', '"', '\\', '/', '\n', '\r', '\t', '\b', '\f', '\x00', '\x1f', '\x7f',
                 'é', '€', ' ', '\U0001f600', '�', '<', '&', "'"]
        return ''.join(rng.choice(chars) for _ in range(rng.randint(0, 6)))
    if r < 0.65:
        return [gen_doc(rng, depth + 1) for _ in range(rng.randint(0, 4))]
    return {gen_doc_key(rng): gen_doc(rng, depth + 1) for _ in range(rng.randint(0, 4))}


def gen_doc_key(rng):
    return ''.join(rng.choice(['k', 'é', '"', ' ', '\n', '😀', '0']) for _ in range(rng.randint(0, 3)))


def canon(d):
    """Equality that distinguishes bool/int/float and is order-sensitive for dict keys' values."""
    if isinstance(d, bool) or d is None:
        return ('c', d)
    if isinstance(d, int):
        return ('i', d)
    if isinstance(d, float):
        return ('f', d.hex())
    if isinstance(d, str):
        return ('s', d)
    if isinstance(d, list):
        return ('l', tuple(canon(x) for x in d))
    if isinstance(d, dict):
        return ('d', tuple(sorted((k, canon(v)) for k, v in d.items())))
    return ('?', repr(d))


def chunked(rng, body):
    if len(body) < 2:
        return [body]
    cuts = sorted(set(rng.randrange(1, len(body)) for _ in range(rng.randint(0, 4))))
    return [body[a:b] for a, b in zip([0] + cuts, cuts + [len(body)])]


def plus_json_options(falcon):
    """An application that serves a +json type registers the JSON handler for it."""
    opts = falcon.RequestOptions()
    opts.media_handlers['application/vnd.api+json'] = falcon.media.JSONHandler()
    return opts


def deserialize_real(falcon, testing, kind, ctype, body, rng, calls=(0,)):
    """Feed [body] to a real request with the default handlers; return outcome classes."""
    import falcon.asgi
    if kind == 'wsgi':
        env = testing.create_environ(method='POST', headers={'Content-Type': ctype,
                                                             'Content-Length': str(len(body))})
        env['wsgi.input'] = CountingInput(body)
        req = falcon.Request(env, options=plus_json_options(falcon))
        get = lambda d: req.get_media(default_when_empty=DEFAULT) if d else req.get_media()
    else:
        chunks = chunked(rng, body)
        st = {'i': 0}

        async def receive():
            i = st['i']
            if i < len(chunks):
                st['i'] += 1
                return {'type': 'http.request', 'body': chunks[i], 'more_body': i + 1 < len(chunks)}
            return {'type': 'http.disconnect'}
        scope = testing.create_scope(method='POST', headers={'Content-Type': ctype,
                                                             'Content-Length': str(len(body))})
        req = falcon.asgi.Request(scope, receive, options=plus_json_options(falcon))

        def get(d):
            async def go():
                return await (req.get_media(default_when_empty=DEFAULT) if d else req.get_media())
            return run_coro(go())
    res = []
    for d in calls:
        try:
            v = get(d)
            res.append(('default',) if v is DEFAULT else ('ok', v))
        except falcon.MediaNotFoundError as e:
            res.append(('nf', e))
        except falcon.MediaMalformedError as e:
            res.append(('mal', e))
        except BaseException as e:  # noqa
            res.append(('other', e))
    return res


def check_handlers(ctx, falcon, testing, model):
    rng = ctx.rng
    n = 400 if ctx.tier == 'quick' else 4000
    # media types are sent in the case the response API emits them (lower case); upper-case
    # spellings resolve to 415 with the default handler mapping and are outside this property
    ctypes = ['application/json', 'application/json; charset=utf-8', 'application/vnd.api+json',
              'application/json;q=1', 'application/json ; charset="utf-8"']
    bodies = []
    for _ in range(n):
        d = gen_doc(rng)
        good = json.dumps(d, ensure_ascii=False).encode()
        bodies.append(('valid', d, good))
        r = rng.random()
        if r < 0.3 and len(good) > 1:
            bodies.append(('truncated', None, good[:rng.randrange(1, len(good))]))
        elif r < 0.5:
            bodies.append(('badutf8', None, good + rng.choice([b'\xff', b'\xc3', b'\xed\xa0\x80', b'\xf5\x80\x80\x80'])))
        elif r < 0.6:
            bodies.append(('latin1', None, json.dumps('é').encode('latin-1')))
    bodies += [('empty', None, b''), ('ws', None, b'  '), ('nan', None, b'NaN'), ('bom', None, b'\xef\xbb\xbf{}'),
               ('deep', None, b'[' * 100000), ('deepvalid', None, b'[' * 100000 + b']' * 100000),
               ('garbage', None, b'\x00\x01'), ('dup', None, b'{"a":1,"a":2}')]
    cases, metas = [], []
    for label, doc, body in bodies:
        for kind in ('wsgi', 'asgi'):
            ctype = rng.choice(ctypes)
            calls = [rng.choice([0, 1]) for _ in range(rng.randint(1, 3))]
            res = deserialize_real(falcon, testing, kind, ctype, body, rng, calls)
            # stdlib oracle answers for the model
            empty = len(body) == 0
            try:
                text = body.decode()
                u = True
            except UnicodeDecodeError:
                u = False
                text = None
            lres, lval = 2, None
            if u and not empty:
                try:
                    lval = json.loads(text)
                    lres = 0
                except ValueError:
                    lres = 1
                except BaseException:  # RecursionError etc.
                    lres = 2
            first = res[0]
            obs = {'ok': 0, 'default': 1, 'nf': 1, 'mal': 2, 'other': 3}[first[0]]
            cases.append([2, empty, u, lres])
            metas.append((label, kind, ctype, calls, res, body, doc, obs, lval, (empty, u, lres)))
    outs = model.run_many(cases)
    for c, m, o in zip(cases, metas, outs):
        label, kind, ctype, calls, res, body, doc, obs, lval, orc = m
        ctx.note_case(('json', kind, body[:64], len(body)), label != 'valid')
        ctx.count('json-' + label)
        detail = {'interface': kind, 'content_type': ctype, 'body_len': len(body), 'body_head': repr(body[:60]),
                  'label': label, 'calls': calls, 'outcomes': [r[0] + (':' + type(r[1]).__name__ if len(r) > 1 and isinstance(r[1], BaseException) else '') for r in res],
                  'stdlib(empty,utf8_ok,loads)': list(orc), 'model_first': o}
        # spec: undecodable body (bad utf-8 or loads failing in any way) must be 400-class
        undecodable = (not orc[0]) and (not orc[1] or orc[2] != 0)
        if undecodable and obs == 3:
            ctx.violation('json-undecodable-not-400', dict(detail, error=repr(res[0][1])[:200]),
                          key='json-500-' + type(res[0][1]).__name__)
        elif o != obs and not (undecodable and obs == 3):
            ctx.violation('json-glue-differs', dict(detail, broken='C12.json_deserialize_corr'),
                          found_input=(obs == 3 or (orc[0] and obs != 1)), key='json-glue')
        if label == 'valid' and res[0][0] == 'ok':
            if canon(res[0][1]) != canon(doc):
                ctx.violation('json-roundtrip', dict(detail, expected=repr(doc)[:300], got=repr(res[0][1])[:300]),
                              key='json-rt')
        # later calls: same object / same error object; default only for not-found
        for i, r in enumerate(res[1:], 1):
            f0 = res[0]
            ok = True
            if f0[0] == 'ok':
                ok = r[0] == 'ok' and r[1] is f0[1]
            elif f0[0] in ('nf', 'default'):
                ok = (r[0] == 'default') if calls[i] else (r[0] == 'nf' and (f0[0] == 'default' or r[1] is f0[1]))
            else:
                ok = r[0] == f0[0] and r[1] is f0[1]
            if not ok:
                ctx.violation('media-cache-clause', dict(detail, what='later call differs from the first outcome'),
                              key='json-later')
    ctx.sample({'json_body': metas[1][5][:80].decode('utf-8', 'replace'), 'outcome': metas[1][4][0][0]})
    # URL-encoded forms
    fcases, fmetas = [], []
    for _ in range(n):
        keys = ['a', 'b', 'é', 'k k', 'x&y', 'q=', '%', '+', '']
        vals = ['', '1', 'é€😀', 'a b', 'a+b', 'a&b=c', '%41', ',', 'x,y', '\x00']
        m = {}
        for _k in range(rng.randint(0, 4)):
            k = rng.choice(keys)
            m[k] = rng.choice(vals) if rng.random() < 0.7 else [rng.choice(vals) for _ in range(rng.randint(2, 3))]
        from falcon.media import URLEncodedFormHandler
        body = URLEncodedFormHandler().serialize(m)
        r = rng.random()
        label = 'valid'
        if r < 0.15:
            body = body + b'\xe9=1'
            label = 'nonascii'
        for kind in ('wsgi', 'asgi'):
            res = deserialize_real(falcon, testing, kind, 'application/x-www-form-urlencoded', body, rng, (0, 0))
            try:
                body.decode('ascii')
                a = True
            except UnicodeDecodeError:
                a = False
            fcases.append([4, a, True])
            fmetas.append((label, kind, m, body, res))
    fouts = model.run_many(fcases)
    for c, mt, o in zip(fcases, fmetas, fouts):
        label, kind, m, body, res = mt
        ctx.note_case(('form', kind, body), label != 'valid' or len(m) > 1)
        ctx.count('form-' + label)
        obs = {'ok': 0, 'nf': 1, 'mal': 2, 'other': 3}[res[0][0]]
        detail = {'interface': kind, 'mapping': m, 'body': repr(body), 'outcomes': [r[0] for r in res]}
        if obs == 3 or (obs != 0 and label == 'valid'):
            ctx.violation('form-undecodable-not-400' if obs == 3 else 'form-valid-rejected', detail, key='form-500')
        elif o != obs:
            ctx.violation('correspondence-broken', dict(detail, broken='C12.form_deserialize_corr'), found_input=False,
                          key='form-glue')
        if res[0][0] == 'ok':
            # round trip on the domain where a form can represent the mapping: values str or
            # lists of >= 2 (a blank-valued key is kept because keep_blank=True); '' key with '' value vanishes
            exp = {}
            for k, v in m.items():
                if k == '':   # a field with an empty name AND an empty value does not exist in the format
                    v = [x for x in v if x != ''] if isinstance(v, list) else v
                    if v == '' or v == []:
                        continue
                    if isinstance(v, list) and len(v) == 1:
                        v = v[0]
                exp[k] = v
            if label == 'valid' and res[0][1] != exp:
                ctx.violation('form-roundtrip', dict(detail, expected=exp, got=res[0][1]), key='form-rt')
            if res[1][0] != 'ok' or res[1][1] is not res[0][1]:
                ctx.violation('media-cache-clause', dict(detail, what='second get_media did not return the same object'),
                              key='form-later')


# ------------------------------------------------------------------ response render cache

def check_response(ctx, falcon, model):
    import falcon.asgi
    from falcon.media.base import BaseHandler
    rng = ctx.rng
    n = 1500 if ctx.tier == 'quick' else 15000

    class Ser(BaseHandler):
        def __init__(self):
            self.calls = []

        def serialize(self, media, content_type=None):
            self.calls.append(media.k)
            return b'M%d' % media.k

        async def serialize_async(self, media, content_type=None):
            self.calls.append(media.k)
            return b'M%d' % media.k

        def deserialize(self, *a):
            raise NotImplementedError

    cases, metas = [], []
    for _ in range(n):
        asgi = rng.random() < 0.5
        h = Ser()
        opts = falcon.ResponseOptions()
        opts.media_handlers['application/x-test'] = h
        opts.default_media_type = 'application/x-test'
        resp = (falcon.asgi.Response if asgi else falcon.Response)(options=opts)
        ops, obs = [], []
        for i in range(rng.randint(1, 10)):
            r = rng.random()
            if r < 0.3:
                v = None if rng.random() < 0.15 else i
                resp.media = None if v is None else Obj(v)
                ops.append([0, [] if v is None else [v]])
                obs.append([])
            elif r < 0.42:
                v = None if rng.random() < 0.4 else i
                resp.text = None if v is None else 'T%d' % v
                ops.append([1, [] if v is None else [v]])
                obs.append([])
            elif r < 0.54:
                v = None if rng.random() < 0.4 else i
                resp.data = None if v is None else b'D%d' % v
                ops.append([2, [] if v is None else [v]])
                obs.append([])
            else:
                b = run_coro(resp.render_body()) if asgi else resp.render_body()
                ops.append([3])
                if b is None:
                    obs.append([0])
                else:
                    tag = {'T': 1, 'D': 2, 'M': 3}.get(b[:1].decode(), 9)
                    obs.append([tag, int(b[1:])])
        cases.append([5, ops])
        metas.append((asgi, ops, obs, len(h.calls)))
    outs = model.run_many(cases)
    fails = model.run_many([[6, m[1], m[2], m[3]] for m in metas])
    for m, o, f in zip(metas, outs, fails):
        asgi, ops, obs, ns = m
        ctx.note_case(('resp', asgi, json.dumps(ops)), any(op[0] == 3 for op in ops) and any(op[0] == 0 for op in ops))
        ctx.count('resp-asgi' if asgi else 'resp-wsgi')
        detail = {'asgi': asgi, 'ops(0=media,1=text,2=data,3=render_body)': ops, 'observed_bodies': obs,
                  'serialize_calls': ns, 'model': o}
        if f:
            ctx.violation('render-cache-clause', dict(detail, clauses_failed=f,
                          clause_names={1: 'body differs from text>data>current media', 2: 'media serialized more than once per assignment'}),
                          key='resp-%s' % f)
        elif o != [obs, ns]:
            ctx.violation('correspondence-broken', dict(detail, broken='C12.render_body_corr'), found_input=False,
                          key='resp-corr')


# ------------------------------------------------------------------ end-to-end round trip

def check_e2e(ctx, falcon, testing):
    """resp.media = doc on a real app, the produced body posted back with the same content
    type, request media compared with doc (WSGI and ASGI, chunked bodies)."""
    import falcon.asgi
    rng = ctx.rng
    n = 150 if ctx.tier == 'quick' else 1500
    holder = {}

    class R:
        def on_get(self, req, resp):
            resp.media = holder['doc']
            if holder.get('ctype'):
                resp.content_type = holder['ctype']

        def on_post(self, req, resp):
            holder['got'] = req.get_media()
            holder['again'] = req.get_media() is holder['got']

    class AR:
        async def on_get(self, req, resp):
            resp.media = holder['doc']
            if holder.get('ctype'):
                resp.content_type = holder['ctype']

        async def on_post(self, req, resp):
            holder['got'] = await req.get_media()
            holder['again'] = (await req.get_media()) is holder['got']

    wapp = falcon.App()
    wapp.add_route('/', R())
    aapp = falcon.asgi.App()
    aapp.add_route('/', AR())
    for app in (wapp, aapp):
        app.req_options.media_handlers['application/vnd.api+json'] = falcon.media.JSONHandler()
        app.resp_options.media_handlers['application/vnd.api+json'] = falcon.media.JSONHandler()
    clients = {'wsgi': testing.TestClient(wapp), 'asgi': testing.TestClient(aapp)}
    for i in range(n):
        form = rng.random() < 0.25
        if form:
            doc = {rng.choice(['a', 'é', 'k k', '&']): rng.choice(['1', 'é€', 'a b', '+%', ['x', 'y', ',']])
                   for _ in range(rng.randint(0, 3))}
            ctype = 'application/x-www-form-urlencoded'
        else:
            doc = gen_doc(rng)
            while doc is None:     # resp.media = None means "no media", not the JSON document null
                doc = gen_doc(rng)
            ctype = rng.choice([None, 'application/json; charset=UTF-8', 'application/vnd.api+json'])
        holder.clear()
        holder['doc'] = doc
        holder['ctype'] = ctype
        for kind, cl in clients.items():
            r = cl.simulate_get('/')
            body = r.content
            rt = r.headers.get('content-type')
            holder.pop('got', None)
            r2 = cl.simulate_post('/', body=body, headers={'Content-Type': rt})
            ctx.note_case(('e2e', kind, body), isinstance(doc, (list, dict)) and len(doc) > 0)
            ctx.count('e2e-form' if form else 'e2e-json')
            detail = {'interface': kind, 'doc': repr(doc)[:300], 'content_type': rt, 'body': repr(body[:200]),
                      'status': [r.status_code, r2.status_code], 'got': repr(holder.get('got'))[:300]}
            if r.status_code != 200 or r2.status_code != 200 or 'got' not in holder:
                ctx.violation('e2e-roundtrip', dict(detail, what='exchange failed'), key='e2e-status')
            elif canon(holder['got']) != canon(doc) or not holder['again']:
                ctx.violation('e2e-roundtrip', dict(detail, what='request media differs from response media'), key='e2e-rt')


def main(ctx):
    import falcon
    from falcon import testing
    model = common.Model(ctx)
    ctx.cov['rule'] = ('(a) get_media sessions: all call lists of length <=3 over {get_media(), get_media(default), .media} x '
                       'first handler outcome x exhaust_stream, plus random longer sessions, on real WSGI and ASGI requests with a '
                       'scripted handler and a counting input (object/error identity, handler invocations, stream activity); '
                       '(b) real JSON and URL-encoded handlers on generated documents and on truncated / mis-encoded / empty / deep '
                       'bodies; (c) response media/text/data/render_body sessions with a counting serializer; (d) end-to-end '
                       'resp.media -> body -> req.get_media round trips. non-trivial = >=2 calls (a), non-valid body (b), '
                       'render after media assignment (c), non-empty container (d)')
    ctx.assumptions += ['json.dumps/json.loads and bytes.decode are CPython\'s: their answers are inputs of the glue model '
                        '(Coq proves what falcon does with them); JSON/form byte-level losslessness is checked differentially',
                        'finite floats: round trip checked differentially only']
    check_sessions(ctx, falcon, testing, model)
    check_handlers(ctx, falcon, testing, model)
    check_response(ctx, falcon, model)
    check_e2e(ctx, falcon, testing)
