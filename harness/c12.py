"""C12 — media round trips and parse-at-most-once: correspondence of request.get_media (WSGI
and ASGI), the response render cache and the JSON / URL-encoded handler glue with
coq/C12/Model.v, and evaluation of the proved oracles on the implementation's behaviour."""
import asyncio
import io
import json
import math

import common

ERR = {'nf': 1, 'mal': 2, 'other': 3}


class Obj:
    """A media object; every other one is falsy (like {} / [] / 0 / ''), which must make no
    difference anywhere: the code is to test `is None` / `is _UNSET`, never truthiness."""

    def __init__(self, k):
        self.k = k

    def __bool__(self):
        return self.k % 2 == 1


def run_coro(coro):
    """Drive a coroutine that only awaits our own plain awaitables to completion."""
    try:
        while True:
            coro.send(None)
    except StopIteration as e:
        return e.value


class CountingInput(io.RawIOBase):
    def __init__(self, data, rng=None):
        self.data = data
        self.pos = 0
        self.nreads = 0
        self.rng = rng

    def readable(self):
        return True

    def read(self, n=-1):
        self.nreads += 1
        if n is None or n < 0:
            n = len(self.data) - self.pos
        if self.rng is not None and n > 1:   # short reads
            n = self.rng.randint(1, n)
        b = self.data[self.pos:self.pos + n]
        self.pos += len(b)
        return b

    def readline(self, n=-1):
        self.nreads += 1
        i = self.data.find(b'\n', self.pos)
        end = len(self.data) if i < 0 else i + 1
        if n is not None and n >= 0:
            end = min(end, self.pos + n)
        b = self.data[self.pos:end]
        self.pos = end
        return b


def make_scripted(falcon, script, exhaust, partial):
    from falcon.media.base import BaseHandler

    class Scripted(BaseHandler):
        exhaust_stream = exhaust

        def __init__(self):
            self.invocations = 0
            self.objs = {}
            self.errs = {}

        def _do(self, k):
            act = script[k] if k < len(script) else 'other'
            if act == 'ok':
                o = Obj(k)
                self.objs[id(o)] = (k, o)
                return o
            if act == 'nf':
                e = falcon.MediaNotFoundError('scripted')
            elif act == 'mal':
                e = falcon.MediaMalformedError('scripted')
            else:
                e = RuntimeError('scripted')
            e.__cause__ = ValueError('cause of invocation %d' % k)     # as a real handler's `raise ... from err`
            self.errs[id(e)] = (k, e)
            raise e

        def deserialize(self, stream, content_type, content_length):
            k = self.invocations
            self.invocations += 1
            stream.read(partial) if partial else stream.read()
            return self._do(k)

        async def deserialize_async(self, stream, content_type, content_length):
            k = self.invocations
            self.invocations += 1
            await (stream.read(partial) if partial else stream.read())
            return self._do(k)

        def serialize(self, media, content_type=None):
            return b''

    return Scripted()


def err_snapshot(e):
    """What an application (or the error serializer) can see of a raised error."""
    snap = {'type': type(e).__name__, 'status': getattr(e, 'status', None), 'title': getattr(e, 'title', None),
            'description': getattr(e, 'description', None), 'cause_id': id(e.__cause__) if e.__cause__ is not None else None,
            'cause': repr(e.__cause__), 'str': str(e)}
    try:
        snap['to_dict'] = json.dumps(e.to_dict(), sort_keys=True, default=repr) if hasattr(e, 'to_dict') else None
    except Exception as x:  # noqa
        snap['to_dict'] = 'to_dict raised ' + repr(x)
    return snap


SNAPS = []      # (error object id, snapshot) of every raised error of the current session, in access order


def classify(falcon, h, call):
    """Run one get_media call; map the outcome to the model's rout with object identities."""
    try:
        v = call()
    except BaseException as e:  # noqa
        SNAPS.append((id(e), err_snapshot(e)))
        if id(e) in h.errs and h.errs[id(e)][1] is e:
            k = h.errs[id(e)][0]
        else:
            k = 999
        if isinstance(e, falcon.MediaNotFoundError):
            return [2, k, 1]
        if isinstance(e, falcon.MediaMalformedError):
            return [2, k, 2]
        return [2, k, 3]
    if v is CUR['dflt'] and (CUR['passed'] or CUR.get('last_passed')):
        return [1]
    if id(v) in h.objs and h.objs[id(v)][1] is v:
        return [0, h.objs[id(v)][0]]
    return [0, 999]


DEFAULT = object()
# the value passed as default_when_empty is drawn per call from falsy values too (an explicit None must
# still count as "a default was passed"); identity is what is checked
CUR = {'dflt': DEFAULT, 'passed': False}


def pick_default(rng, avoid=()):
    cands = [None, False, 0, '', {}, [], object()]
    rng.shuffle(cands)
    for c in cands:
        if not any(type(c) is type(a) and c == a for a in avoid):
            CUR['dflt'] = c
            CUR.setdefault('log', []).append(repr(c))
            return c
    CUR['dflt'] = object()
    return CUR['dflt']


def session_wsgi(falcon, testing, script, exhaust, ds, body, rng):
    partial = max(1, len(body) // 2)
    h = make_scripted(falcon, script, exhaust, partial)
    inp = CountingInput(body)
    env = testing.create_environ(method='POST', headers={'Content-Type': 'application/x-test',
                                                         'Content-Length': str(len(body))})
    env['wsgi.input'] = inp
    opts = falcon.RequestOptions()
    opts.media_handlers['application/x-test'] = h
    req = falcon.Request(env, options=opts)
    obs = []
    later_reads = 0
    consumed_after_first = None
    for i, d in enumerate(ds):
        before = inp.nreads
        if d == 2:      # the .media property
            obs.append(classify(falcon, h, lambda: req.media))
        elif d == 1:
            dv = pick_default(rng)
            CUR['passed'] = True
            obs.append(classify(falcon, h, lambda: req.get_media(default_when_empty=dv)))
            CUR['passed'] = False
        else:
            obs.append(classify(falcon, h, lambda: req.get_media()))
        if i == 0:
            consumed_after_first = inp.pos
        else:
            later_reads += inp.nreads - before
    nreads = (1 if ds else 0) + later_reads
    nex = 0
    if ds:
        nex = 1 if (consumed_after_first == len(body) and inp.pos == len(body)) else 0
        if inp.pos != consumed_after_first:
            nex = 2  # the stream moved after the first call
    return obs, h.invocations, nreads, nex


def session_asgi(falcon, testing, script, exhaust, ds, body, rng):
    import falcon.asgi
    partial = max(1, len(body) // 2)
    h = make_scripted(falcon, script, exhaust, partial)
    # body delivered in random chunks by our own receive()
    cuts = sorted(rng.sample(range(1, len(body)), min(len(body) - 1, rng.randint(0, 3)))) if len(body) > 1 else []
    chunks = [body[a:b] for a, b in zip([0] + cuts, cuts + [len(body)])]
    state = {'i': 0, 'calls': 0}

    async def receive():
        state['calls'] += 1
        i = state['i']
        if i < len(chunks):
            state['i'] += 1
            return {'type': 'http.request', 'body': chunks[i], 'more_body': i + 1 < len(chunks)}
        return {'type': 'http.disconnect'}

    hdrs = {'Content-Type': 'application/x-test', 'Content-Length': str(len(body))}
    if rng.random() < 0.4:      # chunked / HTTP/2 style upload: no Content-Length
        del hdrs['Content-Length']
    scope = testing.create_scope(method='POST', headers=hdrs)
    opts = falcon.RequestOptions()
    opts.media_handlers['application/x-test'] = h
    req = falcon.asgi.Request(scope, receive, options=opts)
    obs = []
    later = 0
    after_first = None

    def call(d):
        async def go():
            if d == 2:
                return await req.media
            if d == 1:
                return await req.get_media(default_when_empty=CUR['dflt'])
            return await req.get_media()
        if d == 1:
            pick_default(rng)
        CUR['passed'] = d == 1
        CUR['last_passed'] = d == 1
        try:
            return run_coro(go())
        finally:
            CUR['passed'] = False

    for i, d in enumerate(ds):
        before = state['calls']
        obs.append(classify(falcon, h, lambda: call(d)))
        if i == 0:
            after_first = state['i']
        else:
            later += state['calls'] - before
    nreads = (1 if ds else 0) + later
    nex = 0
    if ds:
        # the handler read only part of the body: the rest is gone iff exhaust() ran
        async def rest():
            return await req.stream.read()
        nex = 1 if run_coro(rest()) == b'' else 0
    return obs, h.invocations, nreads, nex


def wire_script(script):
    return [0 if a == 'ok' else ERR[a] for a in script]


def check_sessions(ctx, falcon, testing, model):
    rng = ctx.rng
    n = 1500 if ctx.tier == 'quick' else 15000
    cases, metas = [], []
    # exhaustive small part: first action x exhaust x all call lists of length <= 3 over {plain, default, property}
    import itertools
    small = []
    for act in ('ok', 'nf', 'mal', 'other'):
        for ex in (False, True):
            for ln in range(0, 4):
                for ds in itertools.product((0, 1, 2), repeat=ln):
                    small.append(([act, 'ok', 'nf'], ex, list(ds)))
    rnd = []
    for _ in range(n):
        script = [rng.choice(['ok', 'nf', 'mal', 'other']) for _ in range(rng.randint(1, 3))]
        rnd.append((script, rng.random() < 0.5, [rng.choice([0, 1, 2]) for _ in range(rng.randint(0, 8))]))
    dlog = []
    for script, ex, ds in small + rnd:
        for kind in ('wsgi', 'asgi'):
            body = bytes(rng.randrange(256) for _ in range(rng.randint(2, 40)))
            f = session_wsgi if kind == 'wsgi' else session_asgi
            CUR['log'] = []
            del SNAPS[:]
            obs, nc, nr, nx = f(falcon, testing, script, ex, ds, body, rng)
            dlog.append(list(CUR['log']))
            first = {}
            for acc, (eid, snap) in enumerate(SNAPS):
                if eid in first and first[eid][1] != snap:
                    changed = sorted(k_ for k_ in snap if snap[k_] != first[eid][1][k_])
                    ctx.violation('media-cache-clause',
                                  {'what': 'later accesses re-raise the same error OBJECT but its content changed: the cached '
                                           'error was mutated by a later access', 'interface': kind, 'handler_script': script,
                                   'calls(0=get_media,1=with default,2=.media)': ds, 'changed_fields': changed,
                                   'first_raise(access %d)' % first[eid][0]: first[eid][1], 'later_raise(access %d)' % acc: snap,
                                   'clauses_failed': [5], 'clause_names': {5: 'the error object is not mutated by later accesses'}},
                                  key='sess-error-mutated')
                first.setdefault(eid, (acc, snap))
            # the model's exhaust counter: 1 iff the handler asks for it
            dsb = [1 if d == 1 else 0 for d in ds]
            cases.append([0, wire_script(script), ex, dsb])
            metas.append((kind, script, ex, ds, obs, nc, nr, nx))
    outs = model.run_many(cases)
    ocases = []
    for c, m in zip(cases, metas):
        kind, script, ex, ds, obs, nc, nr, nx = m
        ocases.append([1, wire_script(script)[0], ex, c[3], obs, nc, nr, nx])
    fails = model.run_many(ocases)
    for c, m, o, f, dl in zip(cases, metas, outs, fails, dlog):
        kind, script, ex, ds, obs, nc, nr, nx = m
        ctx.note_case(('sess', kind, tuple(script), ex, tuple(ds)), len(ds) >= 2)
        ctx.count('session-' + kind)
        detail = {'interface': kind, 'handler_script': script, 'exhaust_stream': ex,
                  'calls(0=get_media,1=with default,2=.media)': ds, 'observed': obs,
                  'handler_invocations': nc, 'stream_reads': nr, 'exhaust_indicator': nx,
                  'default_when_empty values passed (in call order)': dl, 'model': o}
        if f:
            ctx.violation('media-cache-clause', dict(detail, clauses_failed=f,
                          clause_names={1: 'same object / same error / default only for not-found',
                                        2: 'handler invoked more than once', 3: 'stream touched by a later call',
                                        4: 'stream not exhausted exactly as the handler asks'}),
                          key='sess-%s' % f)
        elif [o[0], o[1], o[2], o[3]] != [obs, nc, nr, nx]:
            ctx.violation('correspondence-broken', dict(detail, broken='C12.get_media_corr'),
                          found_input=False, key='sess-corr')
    ctx.sample({'session': metas[40][:5]})


# ------------------------------------------------------------------ real handlers

def gen_doc(rng, depth=0):
    r = rng.random()
    if depth > 3 or r < 0.35:
        k = rng.randrange(7)
        if k == 0:
            return None
        if k == 1:
            return rng.random() < 0.5
        if k == 2:
            return rng.choice([0, 1, -1, 2 ** 63, -2 ** 64 - 1, 10 ** 30, rng.randrange(-1000, 1000)])
        if k == 3:
            return rng.choice([0.5, -1.25, 1e300, 1e-300, 3.141592653589793, 0.1, -0.0, 1.0])
        chars = ['a', 'Z', ' ', '"', '\\', '/', '\n', '\r', '\t', '\b', '\f', '\x00', '\x1f', '\x7f',
                 'é', '€', ' ', '\U0001f600', '�', '<', '&', "'"]
        return ''.join(rng.choice(chars) for _ in range(rng.randint(0, 6)))
    if r < 0.65:
        return [gen_doc(rng, depth + 1) for _ in range(rng.randint(0, 4))]
    return {gen_doc_key(rng): gen_doc(rng, depth + 1) for _ in range(rng.randint(0, 4))}


def gen_doc_key(rng):
    return ''.join(rng.choice(['k', 'é', '"', ' ', '\n', '😀', '0']) for _ in range(rng.randint(0, 3)))


def canon(d):
    """Equality that distinguishes bool/int/float and is order-sensitive for dict keys' values."""
    if isinstance(d, bool) or d is None:
        return ('c', d)
    if isinstance(d, int):
        return ('i', d)
    if isinstance(d, float):
        return ('f', d.hex())
    if isinstance(d, str):
        return ('s', d)
    if isinstance(d, list):
        return ('l', tuple(canon(x) for x in d))
    if isinstance(d, dict):
        return ('d', tuple(sorted((k, canon(v)) for k, v in d.items())))
    return ('?', repr(d))


def chunked(rng, body):
    if len(body) < 2:
        return [body]
    cuts = sorted(set(rng.randrange(1, len(body)) for _ in range(rng.randint(0, 4))))
    return [body[a:b] for a, b in zip([0] + cuts, cuts + [len(body)])]


def plus_json_options(falcon):
    """An application that serves a +json type registers the JSON handler for it."""
    opts = falcon.RequestOptions()
    opts.media_handlers['application/vnd.api+json'] = falcon.media.JSONHandler()
    return opts


def deserialize_real(falcon, testing, kind, ctype, body, rng, calls=(0,)):
    """Feed [body] to a real request with the default handlers; return outcome classes."""
    import falcon.asgi
    if kind == 'wsgi':
        env = testing.create_environ(method='POST', headers={'Content-Type': ctype,
                                                             'Content-Length': str(len(body))})
        env['wsgi.input'] = CountingInput(body)
        req = falcon.Request(env, options=plus_json_options(falcon))
        get = lambda d: req.get_media(default_when_empty=CUR['dflt']) if d else req.get_media()
    else:
        chunks = chunked(rng, body)
        st = {'i': 0}

        async def receive():
            i = st['i']
            if i < len(chunks):
                st['i'] += 1
                return {'type': 'http.request', 'body': chunks[i], 'more_body': i + 1 < len(chunks)}
            return {'type': 'http.disconnect'}
        scope = testing.create_scope(method='POST', headers={'Content-Type': ctype,
                                                             'Content-Length': str(len(body))})
        req = falcon.asgi.Request(scope, receive, options=plus_json_options(falcon))

        def get(d):
            async def go():
                return await (req.get_media(default_when_empty=CUR['dflt']) if d else req.get_media())
            return run_coro(go())
    res = []
    avoid = []
    try:
        avoid = [json.loads(body.decode())]       # a default that cannot be mistaken for the parsed document
    except Exception:  # noqa
        pass
    for d in calls:
        if d:
            pick_default(rng, avoid)
        try:
            v = get(d)
            res.append(('default', repr(CUR['dflt'])) if d and v is CUR['dflt'] else ('ok', v))
        except falcon.MediaNotFoundError as e:
            res.append(('nf', e, err_snapshot(e)))
        except falcon.MediaMalformedError as e:
            res.append(('mal', e, err_snapshot(e)))
        except BaseException as e:  # noqa
            res.append(('other', e, err_snapshot(e)))
    return res


def check_handlers(ctx, falcon, testing, model):
    rng = ctx.rng
    n = 400 if ctx.tier == 'quick' else 4000
    # media types are sent in the case the response API emits them (lower case); upper-case
    # spellings resolve to 415 with the default handler mapping and are outside this property
    ctypes = ['application/json', 'application/json; charset=utf-8', 'application/vnd.api+json',
              'application/json;q=1', 'application/json ; charset="utf-8"']
    bodies = []
    for _ in range(n):
        d = gen_doc(rng)
        good = json.dumps(d, ensure_ascii=False).encode()
        bodies.append(('valid', d, good))
        r = rng.random()
        if r < 0.3 and len(good) > 1:
            bodies.append(('truncated', None, good[:rng.randrange(1, len(good))]))
        elif r < 0.5:
            bodies.append(('badutf8', None, good + rng.choice([b'\xff', b'\xc3', b'\xed\xa0\x80', b'\xf5\x80\x80\x80'])))
        elif r < 0.6:
            bodies.append(('latin1', None, json.dumps('é').encode('latin-1')))
    bodies += [('empty', None, b''), ('ws', None, b'  '), ('nan', None, b'NaN'), ('bom', None, b'\xef\xbb\xbf{}'),
               ('deep', None, b'[' * 100000), ('deepvalid', None, b'[' * 100000 + b']' * 100000),
               ('garbage', None, b'\x00\x01'), ('dup', None, b'{"a":1,"a":2}'),
               # undecodable with a PLAIN ValueError (CPython's 4300-digit int-string limit), not a JSONDecodeError
               ('bigint', None, b'1' * 4301), ('bigint', None, b'-' + b'9' * 4301), ('bigint', None, b'7' * 6000),
               ('bigint-nested', None, b'[1, {"a": [' + b'3' * 4301 + b']}]'),
               ('bigint-nested', None, b'{"k": -' + b'8' * 5000 + b', "z": null}'),
               ('bigint-ok', None, b'[' + b'1' * 4300 + b']')]
    cases, metas = [], []
    for label, doc, body in bodies:
        for kind in ('wsgi', 'asgi'):
            ctype = rng.choice(ctypes)
            calls = [rng.choice([0, 1]) for _ in range(rng.randint(1, 3))]
            res = deserialize_real(falcon, testing, kind, ctype, body, rng, calls)
            # stdlib oracle answers for the model
            empty = len(body) == 0
            try:
                text = body.decode()
                u = True
            except UnicodeDecodeError:
                u = False
                text = None
            lres, lval = 2, None
            if u and not empty:
                try:
                    lval = json.loads(text)
                    lres = 0
                except ValueError:
                    lres = 1
                except BaseException:  # RecursionError etc.
                    lres = 2
            first = res[0]
            obs = {'ok': 0, 'default': 1, 'nf': 1, 'mal': 2, 'other': 3}[first[0]]
            cases.append([2, empty, u, lres])
            metas.append((label, kind, ctype, calls, res, body, doc, obs, lval, (empty, u, lres)))
    outs = model.run_many(cases)
    for c, m, o in zip(cases, metas, outs):
        label, kind, ctype, calls, res, body, doc, obs, lval, orc = m
        ctx.note_case(('json', kind, body[:64], len(body)), label != 'valid')
        ctx.count('json-' + label)
        detail = {'interface': kind, 'content_type': ctype, 'body_len': len(body), 'body_head': repr(body[:60]),
                  'label': label, 'calls': calls, 'outcomes': [r[0] + (':' + type(r[1]).__name__ if len(r) > 1 and isinstance(r[1], BaseException) else '') for r in res],
                  'stdlib(empty,utf8_ok,loads)': list(orc), 'model_first': o}
        # spec: undecodable body (bad utf-8 or loads failing in any way) must be 400-class
        undecodable = (not orc[0]) and (not orc[1] or orc[2] != 0)
        if undecodable and obs == 3:
            ctx.violation('json-undecodable-not-400', dict(detail, error=repr(res[0][1])[:200]),
                          key='json-500-' + type(res[0][1]).__name__)
        elif o != obs and not (undecodable and obs == 3):
            ctx.violation('json-glue-differs', dict(detail, broken='C12.json_deserialize_corr'),
                          found_input=(obs == 3 or (orc[0] and obs != 1)), key='json-glue')
        if label == 'valid' and res[0][0] == 'ok':
            if canon(res[0][1]) != canon(doc):
                ctx.violation('json-roundtrip', dict(detail, expected=repr(doc)[:300], got=repr(res[0][1])[:300]),
                              key='json-rt')
        # later calls: same object / same error object; default only for not-found
        for i, r in enumerate(res[1:], 1):
            f0 = res[0]
            ok = True
            if f0[0] == 'ok':
                ok = r[0] == 'ok' and r[1] is f0[1]
            elif f0[0] in ('nf', 'default'):
                ok = (r[0] == 'default') if calls[i] else (r[0] == 'nf' and (f0[0] == 'default' or r[1] is f0[1]))
            else:
                ok = r[0] == f0[0] and r[1] is f0[1]
            if not ok:
                ctx.violation('media-cache-clause', dict(detail, what='later call differs from the first outcome'),
                              key='json-later')
            elif len(r) > 2 and len(f0) > 2 and r[1] is f0[1] and r[2] != f0[2]:
                ctx.violation('media-cache-clause',
                              dict(detail, what='later accesses re-raise the same error OBJECT but its content changed: the '
                                                'cached error was mutated by a later access',
                                   changed_fields=sorted(k_ for k_ in r[2] if r[2][k_] != f0[2][k_]),
                                   first_raise=f0[2], later_raise=r[2]), key='json-error-mutated')
    ctx.sample({'json_body': metas[1][5][:80].decode('utf-8', 'replace'), 'outcome': metas[1][4][0][0]})
    # URL-encoded forms
    fcases, fmetas = [], []
    for _ in range(n):
        keys = ['a', 'b', 'é', 'k k', 'x&y', 'q=', '%', '+', '']
        vals = ['', '1', 'é€😀', 'a b', 'a+b', 'a&b=c', '%41', ',', 'x,y', '\x00']
        m = {}
        for _k in range(rng.randint(0, 4)):
            k = rng.choice(keys)
            m[k] = rng.choice(vals) if rng.random() < 0.7 else [rng.choice(vals) for _ in range(rng.randint(2, 3))]
        from falcon.media import URLEncodedFormHandler
        body = URLEncodedFormHandler().serialize(m)
        r = rng.random()
        label = 'valid'
        if r < 0.15:
            body = body + b'\xe9=1'
            label = 'nonascii'
        for kind in ('wsgi', 'asgi'):
            res = deserialize_real(falcon, testing, kind, 'application/x-www-form-urlencoded', body, rng, (0, 0, 0))
            try:
                body.decode('ascii')
                a = True
            except UnicodeDecodeError:
                a = False
            fcases.append([4, a, True])
            fmetas.append((label, kind, m, body, res))
    fouts = model.run_many(fcases)
    for c, mt, o in zip(fcases, fmetas, fouts):
        label, kind, m, body, res = mt
        ctx.note_case(('form', kind, body), label != 'valid' or len(m) > 1)
        ctx.count('form-' + label)
        obs = {'ok': 0, 'nf': 1, 'mal': 2, 'other': 3}[res[0][0]]
        detail = {'interface': kind, 'mapping': m, 'body': repr(body), 'outcomes': [r[0] for r in res]}
        if obs == 3 or (obs != 0 and label == 'valid'):
            ctx.violation('form-undecodable-not-400' if obs == 3 else 'form-valid-rejected', detail, key='form-500')
        elif o != obs:
            ctx.violation('correspondence-broken', dict(detail, broken='C12.form_deserialize_corr'), found_input=False,
                          key='form-glue')
        if res[0][0] == 'ok':
            # round trip on the domain where a form can represent the mapping: values str or
            # lists of >= 2 (a blank-valued key is kept because keep_blank=True); '' key with '' value vanishes
            exp = {}
            for k, v in m.items():
                if k == '':   # a field with an empty name AND an empty value does not exist in the format
                    v = [x for x in v if x != ''] if isinstance(v, list) else v
                    if v == '' or v == []:
                        continue
                    if isinstance(v, list) and len(v) == 1:
                        v = v[0]
                exp[k] = v
            if label == 'valid' and res[0][1] != exp:
                ctx.violation('form-roundtrip', dict(detail, expected=exp, got=res[0][1]), key='form-rt')
            if res[1][0] != 'ok' or res[1][1] is not res[0][1]:
                ctx.violation('media-cache-clause', dict(detail, what='second get_media did not return the same object'),
                              key='form-later')
        elif len(res[0]) > 2:
            for r in res[1:]:
                if r[0] != res[0][0] or r[1] is not res[0][1]:
                    ctx.violation('media-cache-clause', dict(detail, what='later access did not re-raise the same error object'),
                                  key='form-later-err')
                elif r[2] != res[0][2]:
                    ctx.violation('media-cache-clause',
                                  dict(detail, what='later accesses re-raise the same error OBJECT but its content changed',
                                       changed_fields=sorted(k_ for k_ in r[2] if r[2][k_] != res[0][2][k_]),
                                       first_raise=res[0][2], later_raise=r[2]), key='form-error-mutated')


def check_custom_loads(ctx, falcon, testing, model):
    """JSONHandler(loads=f) with f raising ValueError, subclasses of it, and other exceptions: any ValueError
    is a 400-class malformed-media error, anything else propagates (glue model: LValueError -> EMalformed,
    LOtherError -> EOther)."""
    import falcon.asgi
    rng = ctx.rng

    class MyValueError(ValueError):
        pass

    def raiser(exc):
        def loads(s):
            raise exc
        return loads
    variants = [('ValueError', raiser(ValueError('custom')), 1), ('ValueError-subclass', raiser(MyValueError('x')), 1),
                ('JSONDecodeError', raiser(json.JSONDecodeError('m', 'doc', 0)), 1),
                ('UnicodeDecodeError', raiser(UnicodeDecodeError('utf-8', b'x', 0, 1, 'r')), 1),
                ('TypeError', raiser(TypeError('t')), 2), ('KeyError', raiser(KeyError('k')), 2),
                ('ok', lambda s_: {'parsed': s_}, 0)]
    cases, meta = [], []
    for label, loads, lres in variants:
        for kind in ('wsgi', 'asgi'):
            for body in (b'{"a": 1}', b'x', b'', b'\xff'):
                h = falcon.media.JSONHandler(loads=loads)
                opts = falcon.RequestOptions()
                opts.media_handlers['application/json'] = h
                hdrs = {'Content-Type': 'application/json', 'Content-Length': str(len(body))}
                if kind == 'wsgi':
                    env = testing.create_environ(method='POST', headers=hdrs)
                    env['wsgi.input'] = CountingInput(body)
                    req = falcon.Request(env, options=opts)
                    call = req.get_media
                else:
                    st = {'done': False}

                    async def receive(st=st, body=body):
                        if not st['done']:
                            st['done'] = True
                            return {'type': 'http.request', 'body': body, 'more_body': False}
                        return {'type': 'http.disconnect'}
                    req = falcon.asgi.Request(testing.create_scope(method='POST', headers=hdrs), receive, options=opts)

                    def call(req=req):
                        async def go():
                            return await req.get_media()
                        return run_coro(go())
                try:
                    call()
                    obs = 0
                except falcon.MediaNotFoundError:
                    obs = 1
                except falcon.MediaMalformedError:
                    obs = 2
                except BaseException as e:  # noqa
                    obs = 3
                    err = repr(e)
                empty = len(body) == 0
                try:
                    body.decode()
                    u = True
                except UnicodeDecodeError:
                    u = False
                cases.append([3, empty, u, lres, obs])
                meta.append((label, kind, body, lres, obs))
    outs = model.run_many(cases)
    for (label, kind, body, lres, obs), f in zip(meta, outs):
        ctx.note_case(('custom-loads', label, kind, body), True)
        ctx.count('json-custom-loads-' + label)
        detail = {'loads_raises': label, 'interface': kind, 'body': repr(body), 'outcome(0=value,1=not-found,2=malformed,3=other)': obs}
        if f:
            undecodable = len(body) > 0 and (lres == 1 or not all(b < 128 for b in body))
            if obs == 3 and undecodable:
                ctx.violation('json-undecodable-not-400', dict(detail, error='custom loads raising ' + label), key='custom-loads-500')
            else:
                ctx.violation('json-glue-differs', dict(detail, broken='C12.json_deserialize_corr'), found_input=False,
                              key='custom-loads-glue')


# ------------------------------------------------------------------ response render cache

class MObj:
    """A media object: identity k, content = number of in-place amendments so far."""
    def __init__(self, k):
        self.k = k
        self.ver = 0


def check_response(ctx, falcon, model):
    """resp.media / text / data / render_body sessions on the real Response classes with a serializer
    that records the CONTENT it saw.  Media objects are re-assigned (the SAME object again, or an earlier
    one) and amended in place between renders: a render after an assignment must show the content the
    object has at serialization time, an assignment always invalidates the cached rendering, an
    amendment without re-assignment leaves the body as rendered."""
    import falcon.asgi
    from falcon.media.base import BaseHandler
    rng = ctx.rng
    n = 1500 if ctx.tier == 'quick' else 15000

    class Ser(BaseHandler):
        def __init__(self):
            self.calls = []

        def serialize(self, media, content_type=None):
            self.calls.append((media.k, media.ver))
            return b'M%d.%d' % (media.k, media.ver)

        async def serialize_async(self, media, content_type=None):
            self.calls.append((media.k, media.ver))
            return b'M%d.%d' % (media.k, media.ver)

        def deserialize(self, *a):
            raise NotImplementedError

    def body_obs(b):
        if b is None:
            return [0]
        tag = {'T': 1, 'D': 2, 'M': 3}.get(b[:1].decode(), 9)
        if tag == 3:
            k, v = b[1:].split(b'.')
            return [3, int(k), int(v)]
        return [tag, int(b[1:])]

    scripted = [   # the seeded-mutant shape first: render early, amend in place, assign the same object again
        ['new', 'render', 'mutate-cur', 'same', 'render'],
        ['new', 'render', 'mutate-cur', 'render', 'same', 'render', 'render'],
        ['new', 'same', 'render', 'mutate-cur', 'mutate-cur', 'same', 'render'],
        ['new', 'render', 'new', 'render', 'old', 'render', 'mutate-cur', 'old', 'render'],
        ['new', 'render', 'mutate-cur', 'text', 'render', 'notext', 'render', 'same', 'render'],
    ]
    cases, metas = [], []
    for it in range(n):
        asgi = rng.random() < 0.5
        h = Ser()
        opts = falcon.ResponseOptions()
        opts.media_handlers['application/x-test'] = h
        opts.default_media_type = 'application/x-test'
        resp = (falcon.asgi.Response if asgi else falcon.Response)(options=opts)
        ops, obs = [], []
        objs = []
        cur = None
        script = scripted[it // 2] if it < 2 * len(scripted) else None
        steps = script if script else [None] * rng.randint(1, 14)
        for i, st in enumerate(steps):
            r = rng.random()
            if st is None:
                st = ('new' if r < 0.12 else 'same' if r < 0.22 else 'old' if r < 0.28 else 'none' if r < 0.31 else
                      'mutate-cur' if r < 0.43 else 'mutate-any' if r < 0.48 else 'text' if r < 0.53 else
                      'notext' if r < 0.57 else 'data' if r < 0.62 else 'nodata' if r < 0.66 else 'render')
            if st in ('same', 'mutate-cur') and cur is None or st in ('old', 'mutate-any') and not objs:
                st = 'new'
            if st in ('new', 'same', 'old', 'none'):
                if st == 'new':
                    cur = MObj(len(objs))
                    objs.append(cur)
                elif st == 'old':
                    cur = rng.choice(objs)
                elif st == 'none':
                    cur = None
                resp.media = cur
                ops.append([0, [] if cur is None else [cur.k]])
                obs.append([])
            elif st in ('mutate-cur', 'mutate-any'):
                o = cur if st == 'mutate-cur' else rng.choice(objs)
                o.ver += 1
                ops.append([4, o.k])
                obs.append([])
            elif st in ('text', 'notext'):
                resp.text = None if st == 'notext' else 'T%d' % i
                ops.append([1, [] if st == 'notext' else [i]])
                obs.append([])
            elif st in ('data', 'nodata'):
                resp.data = None if st == 'nodata' else b'D%d' % i
                ops.append([2, [] if st == 'nodata' else [i]])
                obs.append([])
            else:
                b = run_coro(resp.render_body()) if asgi else resp.render_body()
                ops.append([3])
                obs.append(body_obs(b))
        cases.append([5, ops])
        metas.append((asgi, ops, obs, len(h.calls), [list(c) for c in h.calls]))
    outs = model.run_many(cases)
    fails = model.run_many([[6, m[1], m[2], m[3]] for m in metas])
    for m, o, f in zip(metas, outs, fails):
        asgi, ops, obs, ns, calls = m
        ctx.note_case(('resp', asgi, json.dumps(ops)), any(op[0] == 3 for op in ops) and any(op[0] == 0 for op in ops))
        ctx.count('resp-asgi' if asgi else 'resp-wsgi')
        if any(op[0] == 4 for op in ops):
            ctx.count('resp-with-in-place-mutation')
        detail = {'asgi': asgi, 'ops(0=media obj,1=text,2=data,3=render_body,4=amend obj in place)': ops,
                  'observed_bodies(3 k v = object k serialized with content version v)': obs,
                  'serialize_calls': ns, 'serializer_saw': calls, 'model': o}
        if f:
            ctx.violation('render-cache-clause', dict(detail, clauses_failed=f,
                          clause_names={1: 'body differs from text>data>media as of the first render after the latest assignment '
                                           '(stale rendering after a re-assignment, or a rendering that changed without one)',
                                        2: 'media serialized more than once per assignment'}),
                          key='resp-%s' % f)
        elif o != [obs, ns]:
            ctx.violation('correspondence-broken', dict(detail, broken='C12.render_body_corr'), found_input=False,
                          key='resp-corr')


# ------------------------------------------------------------------ end-to-end round trip

def check_e2e(ctx, falcon, testing):
    """resp.media = doc on a real app, the produced body posted back with the same content
    type, request media compared with doc (WSGI and ASGI, chunked bodies)."""
    import falcon.asgi
    rng = ctx.rng
    n = 150 if ctx.tier == 'quick' else 1500
    holder = {}

    class R:
        def on_get(self, req, resp):
            resp.media = holder['doc']
            if holder.get('ctype'):
                resp.content_type = holder['ctype']

        def on_post(self, req, resp):
            holder['got'] = req.get_media()
            holder['again'] = req.get_media() is holder['got']

    class AR:
        async def on_get(self, req, resp):
            resp.media = holder['doc']
            if holder.get('ctype'):
                resp.content_type = holder['ctype']

        async def on_post(self, req, resp):
            holder['got'] = await req.get_media()
            holder['again'] = (await req.get_media()) is holder['got']

    wapp = falcon.App()
    wapp.add_route('/', R())
    aapp = falcon.asgi.App()
    aapp.add_route('/', AR())
    for app in (wapp, aapp):
        app.req_options.media_handlers['application/vnd.api+json'] = falcon.media.JSONHandler()
        app.resp_options.media_handlers['application/vnd.api+json'] = falcon.media.JSONHandler()
    clients = {'wsgi': testing.TestClient(wapp), 'asgi': testing.TestClient(aapp)}
    for i in range(n):
        form = rng.random() < 0.25
        if form:
            doc = {rng.choice(['a', 'é', 'k k', '&']): rng.choice(['1', 'é€', 'a b', '+%', ['x', 'y', ',']])
                   for _ in range(rng.randint(0, 3))}
            ctype = 'application/x-www-form-urlencoded'
        else:
            doc = gen_doc(rng)
            while doc is None:     # resp.media = None means "no media", not the JSON document null
                doc = gen_doc(rng)
            ctype = rng.choice([None, 'application/json; charset=UTF-8', 'application/vnd.api+json'])
        holder.clear()
        holder['doc'] = doc
        holder['ctype'] = ctype
        for kind, cl in clients.items():
            r = cl.simulate_get('/')
            body = r.content
            rt = r.headers.get('content-type')
            holder.pop('got', None)
            r2 = cl.simulate_post('/', body=body, headers={'Content-Type': rt})
            ctx.note_case(('e2e', kind, body), isinstance(doc, (list, dict)) and len(doc) > 0)
            ctx.count('e2e-form' if form else 'e2e-json')
            detail = {'interface': kind, 'doc': repr(doc)[:300], 'content_type': rt, 'body': repr(body[:200]),
                      'status': [r.status_code, r2.status_code], 'got': repr(holder.get('got'))[:300]}
            if r.status_code != 200 or r2.status_code != 200 or 'got' not in holder:
                ctx.violation('e2e-roundtrip', dict(detail, what='exchange failed'), key='e2e-status')
            elif canon(holder['got']) != canon(doc) or not holder['again']:
                ctx.violation('e2e-roundtrip', dict(detail, what='request media differs from response media'), key='e2e-rt')


# ------------------------------------------------------------------ proved JSON codec (coq/C12/Json.v)

def wenc(v):
    """common.enc with list comprehensions (no C-level recursion through generators, so that deep
    documents only need a higher Python recursion limit)."""
    if isinstance(v, bool):
        return '1' if v else '0'
    if isinstance(v, int):
        return str(v)
    if isinstance(v, str):
        return '(' + ' '.join([str(ord(c)) for c in v]) + ')'
    if isinstance(v, (bytes, bytearray)):
        return '(' + ' '.join([str(b) for b in v]) + ')'
    if v is None:
        return '()'
    return '(' + ' '.join([wenc(x) for x in v]) + ')'


def run_many(model, values, chunk=20000):
    """common.Model.run_many over wenc (local copy: deep documents overflow common.enc)."""
    import subprocess
    outs = []
    for i in range(0, len(values), chunk):
        part = values[i:i + chunk]
        inp = '\n'.join([wenc(v) for v in part]) + '\n'
        r = subprocess.run(['bash', '-c', 'ulimit -s unlimited 2>/dev/null; exec "%s"' % model.drv],
                           input=inp, stdout=subprocess.PIPE, stderr=subprocess.PIPE, text=True, timeout=1800)
        if r.returncode != 0:
            raise RuntimeError('model driver failed: rc=%s %s' % (r.returncode, r.stderr[-500:]))
        lines = r.stdout.split('\n')
        if lines and lines[-1] == '':
            lines.pop()
        if len(lines) != len(part):
            raise RuntimeError('model driver returned %d lines for %d cases' % (len(lines), len(part)))
        outs.extend([common.dec(l) for l in lines])
    return outs


def jw(d):
    """float-free document -> wire (Extract.v d_jv)."""
    if d is None:
        return [0]
    if isinstance(d, bool):
        return [1, d]
    if isinstance(d, int):
        return [2, d]
    if isinstance(d, str):
        return [3, d]
    if isinstance(d, list):
        return [4, [jw(x) for x in d]]
    if isinstance(d, dict):
        return [5, [[k, jw(v)] for k, v in d.items()]]
    raise TypeError(type(d))


def wj(w):
    """wire (Extract.v v_jv) -> canonical ordered form (see ocanon)."""
    t = w[0]
    if t == 0:
        return ('c', None)
    if t == 1:
        return ('c', bool(w[1]))
    if t == 2:
        return ('i', w[1])
    if t == 3:
        return ('s', common.wstr(w[1]))
    if t == 4:
        return ('l', tuple(wj(x) for x in w[1]))
    if t == 5:
        return ('d', tuple((common.wstr(k), wj(v)) for k, v in w[1]))
    return ('?', w)


def ocanon(d):
    """Order-sensitive canonical form (dict insertion order kept); bool/int distinguished."""
    if isinstance(d, bool) or d is None:
        return ('c', d)
    if isinstance(d, int):
        return ('i', d)
    if isinstance(d, float):
        return ('f', d.hex())
    if isinstance(d, str):
        return ('s', d)
    if isinstance(d, list):
        return ('l', tuple(ocanon(x) for x in d))
    if isinstance(d, dict):
        return ('d', tuple((k, ocanon(v)) for k, v in d.items()))
    return ('?', repr(d))


def has_surrogate(d):
    if isinstance(d, str):
        return any(0xd800 <= ord(c) <= 0xdfff for c in d)
    if isinstance(d, list):
        return any(has_surrogate(x) for x in d)
    if isinstance(d, dict):
        return any(has_surrogate(k) or has_surrogate(v) for k, v in d.items())
    return False


def has_float(d):
    if isinstance(d, float):
        return True
    if isinstance(d, list):
        return any(has_float(x) for x in d)
    if isinstance(d, dict):
        return any(has_float(x) for x in d.values())
    return False


STR_CHARS = ['a', 'Z', '0', ' ', '"', '\\', '/', '\n', '\r', '\t', '\b', '\f', '\x00', '\x01', '\x0b', '\x1f', '\x7f',
             '\x80', '\xa0', 'é', 'ÿ', '߿', 'ࠀ', '€', ' ', '퟿', '', '�', '￿',
             '\U00010000', '\U0001f600', '\U0010ffff', '<', '&', "'", ',', ':', '[', '{', 'u', 'n']
SURR = ['\ud800', '\udbff', '\udc00', '\udfff', '\ud83d']


def gen_str(rng, surrogates=False):
    pool = STR_CHARS + (SURR if surrogates else [])
    r = rng.random()
    if r < 0.1:
        return ''
    if r < 0.2:
        return ''.join(chr(rng.randrange(0, 0x30)) for _ in range(rng.randint(1, 8)))
    if r < 0.25:   # any scalar code point
        out = []
        for _ in range(rng.randint(1, 5)):
            c = rng.randrange(0x110000)
            if 0xd800 <= c <= 0xdfff and not surrogates:
                c = 0xe000
            out.append(chr(c))
        return ''.join(out)
    return ''.join(rng.choice(pool) for _ in range(rng.randint(1, 10)))


def gen_int(rng):
    r = rng.random()
    if r < 0.3:
        return rng.choice([0, 1, -1, 9, 10, -10, 99, 100, 2 ** 31, -2 ** 31, 2 ** 63, 2 ** 63 - 1, -2 ** 63, 2 ** 64,
                           -2 ** 64 - 1, 10 ** 30, -10 ** 30, 10 ** 18 - 1])
    if r < 0.7:
        return rng.randrange(-100000, 100000)
    if r < 0.99:
        return rng.randrange(-10 ** rng.randint(1, 80), 10 ** rng.randint(1, 80))
    return rng.choice([1, -1]) * rng.randrange(10 ** 300, 10 ** rng.randint(301, 700))


def gen_ffdoc(rng, depth=0, maxdepth=4, surrogates=False):
    """float-free JSON document."""
    r = rng.random()
    if depth >= maxdepth or r < 0.4:
        k = rng.randrange(6)
        if k == 0:
            return None
        if k == 1:
            return rng.random() < 0.5
        if k <= 3:
            return gen_int(rng)
        return gen_str(rng, surrogates)
    if r < 0.7:
        return [gen_ffdoc(rng, depth + 1, maxdepth, surrogates) for _ in range(rng.choice([0, 1, 1, 2, 3, 5]))]
    return {gen_str(rng, surrogates): gen_ffdoc(rng, depth + 1, maxdepth, surrogates)
            for _ in range(rng.choice([0, 1, 1, 2, 3, 5]))}


def deep_doc(rng, depth):
    d = rng.choice([[], {}, 0, 'x', None])
    for _ in range(depth):
        r = rng.random()
        if r < 0.4:
            d = [d]
        elif r < 0.8:
            d = {rng.choice(['', 'k', '"']): d}
        elif r < 0.9:
            d = [1, d, 'z']
        else:
            d = {'a': 1, 'b': d, 'c': []}
    return d


WS = [' ', '\t', '\n', '\r']


def emit_text(d, rng):
    """An independent writer for the JSON grammar: random whitespace, random escape spellings
    (\\uXXXX in either case, surrogate pairs, \\/), so that the parser is exercised beyond the
    printer's image."""
    def ws():
        return ''.join(rng.choice(WS) for _ in range(rng.choice([0, 0, 0, 1, 2])))

    def es(s):
        out = ['"']
        for ch in s:
            c = ord(ch)
            r = rng.random()
            if ch in '"\\' or c < 0x20:
                short = {'"': '\\"', '\\': '\\\\', '\n': '\\n', '\r': '\\r', '\t': '\\t', '\b': '\\b', '\f': '\\f'}
                if ch in short and r < 0.6:
                    out.append(short[ch])
                else:
                    out.append(('\\u%04x' if r < 0.8 else '\\u%04X') % c)
            elif r < 0.15:
                if c >= 0x10000:
                    c -= 0x10000
                    fm = '\\u%04x\\u%04x' if rng.random() < 0.5 else '\\u%04X\\u%04X'
                    out.append(fm % (0xd800 + (c >> 10), 0xdc00 + (c & 0x3ff)))
                else:
                    out.append(('\\u%04x' if rng.random() < 0.5 else '\\u%04X') % c)
            elif ch == '/' and r < 0.6:
                out.append('\\/')
            else:
                out.append(ch)
        out.append('"')
        return ''.join(out)

    def go(d):
        if d is None:
            return 'null'
        if d is True:
            return 'true'
        if d is False:
            return 'false'
        if isinstance(d, int):
            return '-0' if d == 0 and rng.random() < 0.2 else str(d)
        if isinstance(d, str):
            return es(d)
        if isinstance(d, list):
            return '[' + ws() + (ws() + ',' + ws()).join(go(x) for x in d) + ws() + ']'
        items = list(d.items())
        if items and rng.random() < 0.3:      # duplicate keys: the last value wins, first position kept
            k, v = rng.choice(items)
            items.insert(rng.randrange(len(items) + 1), (k, rng.choice([None, 7, 'dup', []])))
        return '{' + ws() + (ws() + ',' + ws()).join(es(k) + ws() + ':' + ws() + go(v) for k, v in items) + ws() + '}'
    return ws() + go(d) + ws()


MUT_CHARS = list('[]{}",:\\ \t\n\r0123456789-+.eEnultrfasbx/dD8cC') + ['\x0c', '\xa0', '\x00', '\x1f', '\x7f', 'é', '\U0001f600',
                                                                      '﻿', '\ud83d']


def mutate_text(t, rng):
    k = rng.randrange(6)
    if not t:
        return rng.choice(MUT_CHARS)
    i = rng.randrange(len(t))
    if k == 0:
        return t[:i]
    if k == 1:
        return t[:i] + t[i + 1:]
    if k == 2:
        return t[:i] + rng.choice(MUT_CHARS) + t[i:]
    if k == 3:
        return t[:i] + rng.choice(MUT_CHARS) + t[i + 1:]
    if k == 4:
        j = rng.randrange(len(t))
        a, b = min(i, j), max(i, j)
        return t[:a] + t[b:]
    return t + rng.choice(MUT_CHARS + ['1', ']', '}', ' x', ',1'])


ESC_FRAGS = ['\\ud83d', '\\ude00', '\\u0041', '\\uD800', '\\uDBFF', '\\uDC00', '\\uDFFF', '\\ue000', '\\ud7ff', '\\u', '\\u12',
             '\\uzzzz', '\\u00e', '\\u+123', '\\u 123', '\\u0x1f', '\\n', 'x', '\\', '"', '\\/', '\\"', '\\\\', '\\a', '\\U0041',
             '\U0001f600', '\ud83d', '\\u0000', '\\u001F', ' ', '\t']


def py_loads(text):
    """json.loads outcome; ('float',) when the text contains a float token anywhere (fraction / exponent
    literal, NaN, Infinity) -- detected by the parse hooks, NOT by looking at the result: a float stored
    under a key that a later duplicate overwrites is gone from the result but still outside the float-free
    grammar of the Coq parser."""
    seen = []

    def hook(tok):
        seen.append(tok)
        return float(tok)
    try:
        v = json.loads(text, parse_float=hook, parse_constant=hook)
    except json.JSONDecodeError:
        return ('reject',)
    except ValueError as e:      # CPython's int digit limit (4300): outside the modelled domain
        return ('skip', 'ValueError: ' + str(e)[:50])
    except RecursionError:
        return ('skip', 'RecursionError')
    if seen or has_float(v):
        return ('float',)
    return ('ok', v)


def real_serialize(handler, d):
    try:
        return ('bytes', handler.serialize(d, 'application/json'))
    except UnicodeEncodeError:
        return ('encode-error',)
    except BaseException as e:   # noqa
        return ('other', type(e).__name__)


def real_deserialize(falcon, handler, body):
    try:
        return ('ok', handler.deserialize(io.BytesIO(body), 'application/json', len(body)))
    except falcon.MediaNotFoundError:
        return ('nf',)
    except falcon.MediaMalformedError:
        return ('mal',)
    except BaseException as e:   # noqa
        return ('other', type(e).__name__ + ': ' + str(e)[:80])


def check_codec(ctx, falcon, model):
    import sys
    old = sys.getrecursionlimit()
    sys.setrecursionlimit(20000)     # the harness's own recursive wire encoders on deep documents
    try:
        _check_codec(ctx, falcon, model)
        check_form_parse(ctx, falcon, model)
    finally:
        sys.setrecursionlimit(old)


def _check_codec(ctx, falcon, model):
    import time
    _t=[time.time()]
    def mark(w):
        import os
        if os.environ.get('C12_PROF'):
            print('PROF %s %.1fs' % (w, time.time()-_t[0])); _t[0]=time.time()

    """Ties coq/C12/Json.v to the code: (L1) print / parse against CPython's json.dumps /
    json.loads (what falcon delegates to); (L2) json_serialize / json_deserialize_body against
    the real falcon.media.JSONHandler on bytes; the binding oracle is the round trip itself,
    evaluated on the real handler."""
    import itertools
    rng = ctx.rng
    quick = ctx.tier == 'quick'
    handler = falcon.media.JSONHandler()
    ctx.assumptions.append('the Coq JSON parser covers json.loads minus Python floats: texts for which json.loads returns a '
                           'float anywhere (fraction/exponent literals, NaN, Infinity) must be REJECTED by the Coq parser; '
                           'integer literals above CPython\'s 4300-digit limit and nesting beyond the recursion limit are '
                           'outside the compared domain (the Coq codec has no such limits)')

    # ---- documents
    docs = [None, True, False, 0, -1, '', [], {}, [[]], [{}], {'': {}}, {'': ''}, [None, True, False], 2 ** 64, -10 ** 40,
            '"\\/\b\f\n\r\t\x00\x1f\x7f \U0001f600', {'k"': [1, {'\n': None}], 'é': '\U0010ffff'},
            [[], {}, [[]], {'': {}}], {'a': {'b': {'c': [1, 2, {'d': 'e'}]}}}, 10 ** 1500, -10 ** 1000 + 1]
    if not quick:
        docs += [10 ** 4000, -10 ** 4200 + 1]
    n = 1500 if quick else 15000
    for _ in range(n):
        docs.append(gen_ffdoc(rng, maxdepth=rng.choice([1, 2, 3, 4, 6])))
    for _ in range(n // 10):
        docs.append(gen_ffdoc(rng, maxdepth=3, surrogates=True))
    for _ in range(20 if quick else 100):
        docs.append(deep_doc(rng, rng.choice([10, 50, 120, 200])))
    docs.append(list(range(-50, 3000)))
    docs.append({str(i): i for i in range(300)})
    docs.append('x\U0001f600"\n' * 5000)

    # L1 print vs json.dumps, code point for code point
    texts = [json.dumps(d, ensure_ascii=False) for d in docs]
    outs = run_many(model, [[10, jw(d)] for d in docs])
    for d, t, o in zip(docs, texts, outs):
        nontriv = isinstance(d, (list, dict)) and len(d) > 0 or isinstance(d, str) and t != '"%s"' % d
        ctx.note_case(('print', t[:200], len(t)), nontriv)
        ctx.count('codec-print')
        if common.wstr(o) != t:
            ctx.violation('correspondence-broken',
                          {'broken': 'C12.json_print_corr (Coq print vs json.dumps(ensure_ascii=False))',
                           'doc': repr(d)[:400], 'json.dumps': t[:400], 'coq_print': common.wstr(o)[:400]},
                          found_input=False, key='codec-print')
    mark('print')
    # L1 parse on the printer image: Some d
    pouts = run_many(model, [[11, t] for t in texts])
    for d, t, o in zip(docs, texts, pouts):
        ctx.note_case(('parse-image', t[:200], len(t)), True)
        ctx.count('codec-parse-image')
        if not o or wj(o[0]) != ocanon(d):
            ctx.violation('correspondence-broken',
                          {'broken': 'C12.json_roundtrip instance fails on the extracted model', 'doc': repr(d)[:400],
                           'text': t[:400], 'coq_parse': repr(o)[:400]}, found_input=False, key='codec-rt-model')

    mark('parse-image')
    # L1 parse vs json.loads: independent writer, mutations, escape fragments, exhaustive short texts
    ptexts = []
    for d, t in zip(docs[:n], texts[:n]):
        if len(t) > 3000:
            continue
        e = emit_text(d, rng)
        ptexts.append(('emit', e))
        ptexts.append(('mut', mutate_text(rng.choice([t, e]), rng)))
        if rng.random() < 0.3:
            ptexts.append(('mut2', mutate_text(mutate_text(e, rng), rng)))
    for _ in range(n):
        ptexts.append(('esc', '"' + ''.join(rng.choice(ESC_FRAGS) for _ in range(rng.randint(1, 4))) + '"'))
    for _ in range(n // 3):
        ptexts.append(('esc-in-doc', '[{"' + ''.join(rng.choice(ESC_FRAGS) for _ in range(rng.randint(0, 3))) + '" : "' +
                       ''.join(rng.choice(ESC_FRAGS) for _ in range(rng.randint(0, 3))) + '"}]'))
    fixed = ['', ' ', '1', '-0', '-', '01', '-01', '1.', '1.5', '1e5', '1E+5', '-1.5e-3', '1e', '1.e1', 'NaN', 'Infinity',
             '-Infinity', '[NaN]', '{"a":1.0}', '﻿1', '﻿', '[1,]', '[,1]', '[1 2]', '{"a":1,}', '{,}', '{"a"}',
             '{"a":}', '{"a" 1}', '{1:2}', '{"a":1 "b":2}', '{"a" : 1 , "a" : 2, "b":3}', '{"a":1,"b":2,"a":3}', 'nul',
             'nulll', 'null', ' null ', 'true', 'false', 'tru', 'truefalse', 'True', '"', '"a', '"\\', '"\\"', '"\x1f"',
             '"\x7f"', '"\n"', '\x0c1', '\xa01', '1\x0c', '"a" "b"', '[[[[[[]]]]]]', '[[[[[[]]]]]', '[' * 300 + ']' * 300,
             '{"a":' * 200 + '1' + '}' * 200, '[' * 300, '+1', '0x10', '1_0', '--1', '[-]', '9' * 4300, '-' + '9' * 4300,
             '[1,2' + ' ' * 50 + ']', '\t\n\r [\t\n\r 1\t\n\r ,\t\n\r 2\t\n\r ]\t\n\r ', '{ }', '[ ]', '{ "a" : [ ] }',
             '١٢', '1١', '"\\ud83d\\ude00"', '"\\ud83d"', '"\\ud83d\\u0041"', '"\\ude00\\ud83d"', '"\\uD83D\\uDE00"']
    ptexts += [('fixed', t) for t in fixed]
    alpha = '[]{}"\\,:1-au0 '
    maxlen = 5
    for ln in range(0, maxlen + 1):
        for tup in itertools.product(alpha, repeat=ln):
            ptexts.append(('exh', ''.join(tup)))
    alpha2 = '[]",1 \\n'        # arrays, strings and escapes one notch longer on a smaller alphabet
    for ln in range(maxlen + 1, maxlen + (2 if quick else 3)):
        for tup in itertools.product(alpha2, repeat=ln):
            ptexts.append(('exh2', ''.join(tup)))
    mark('gen-ptexts')
    outs = run_many(model, [[11, t] for _, t in ptexts])
    mark('run-ptexts')
    for (label, t), o in zip(ptexts, outs):
        r = py_loads(t)
        ctx.count('codec-parse-' + label + '-' + r[0])
        if r[0] == 'skip':
            continue
        ctx.note_case(('parse', t[:200], len(t)), r[0] != 'reject' or label in ('mut', 'mut2', 'esc', 'esc-in-doc'))
        if r[0] == 'ok':
            good = bool(o) and wj(o[0]) == ocanon(r[1])
        else:
            good = not o
        if not good:
            ctx.violation('correspondence-broken',
                          {'broken': 'C12.json_parse_corr (Coq parse vs json.loads; accept/reject and value)', 'label': label,
                           'text': t[:5000], 'text_codepoints': [ord(c) for c in t[:300]], 'json.loads': repr(r)[:400],
                           'coq_parse': repr(o)[:400]}, found_input=False, key='codec-parse-' + label)
    ctx.sample({'codec_text': ptexts[0][1][:120], 'json.loads': repr(py_loads(ptexts[0][1]))[:120]})

    mark('cmp-ptexts')
    # ---- UTF-8: str.encode() / bytes.decode()
    strs = [t for t in texts[:300] if len(t) < 500] + [gen_str(rng, True) for _ in range(500)] + \
           [chr(c) for c in (0, 0x7f, 0x80, 0x7ff, 0x800, 0xd7ff, 0xd800, 0xdfff, 0xe000, 0xffff, 0x10000, 0x10ffff)]
    outs = run_many(model, [[15, s_] for s_ in strs])
    for s_, o in zip(strs, outs):
        try:
            exp = list(s_.encode())
        except UnicodeEncodeError:
            exp = None
        ctx.note_case(('utf8enc', s_[:100], len(s_)), any(ord(c) > 127 for c in s_))
        ctx.count('utf8-encode')
        if (o[0] if o else None) != exp:
            ctx.violation('correspondence-broken', {'broken': 'C12.utf8_encode_corr', 'str': repr(s_)[:200]},
                          found_input=False, key='utf8-enc')
    bss = [bytes([a]) for a in range(256)]
    edge = [0x00, 0x7f, 0x80, 0x8f, 0x90, 0x9f, 0xa0, 0xbf, 0xc0, 0xc1, 0xc2, 0xdf, 0xe0, 0xe1, 0xec, 0xed, 0xee, 0xef, 0xf0,
            0xf1, 0xf3, 0xf4, 0xf5, 0xf7, 0xf8, 0xff, 0x41]
    bss += [bytes(t) for ln in (2, 3) for t in itertools.product(edge, repeat=ln)]
    for _ in range(3000 if quick else 60000):
        bss.append(bytes(rng.choice(edge) for _ in range(rng.randint(4, 6))))
    for s_ in strs[:400]:
        try:
            b = s_.encode()
        except UnicodeEncodeError:
            continue
        bss.append(b)
        if b:
            i = rng.randrange(len(b))
            bss.append(b[:i] + bytes([rng.choice(edge)]) + b[i + 1:])
            bss.append(b[:i])
    outs = run_many(model, [[16, b] for b in bss])
    for b, o in zip(bss, outs):
        try:
            exp = [ord(c) for c in b.decode()]
        except UnicodeDecodeError:
            exp = None
        ctx.note_case(('utf8dec', b[:100], len(b)), any(c > 127 for c in b))
        ctx.count('utf8-decode')
        if (o[0] if o else None) != exp:
            ctx.violation('correspondence-broken', {'broken': 'C12.utf8_decode_corr', 'bytes': repr(b)[:200],
                                                    'coq': repr(o)[:200], 'python': repr(exp)[:200]},
                          found_input=False, key='utf8-dec')

    mark('utf8')
    # ---- L2: the real JSONHandler on bytes
    sdocs = [d for d, t in zip(docs, texts) if len(t) < 20000]
    outs = run_many(model, [[13, jw(d)] for d in sdocs])
    bodies = []
    for d, o in zip(sdocs, outs):
        r = real_serialize(handler, d)
        ctx.note_case(('ser', repr(d)[:200]), True)
        ctx.count('handler-serialize-' + r[0])
        mod = ('bytes', bytes(o[1])) if o[0] == 0 else ('encode-error',) if o[0] == 2 else ('other', o)
        detail = {'doc': repr(d)[:400], 'handler.serialize': repr(r)[:400], 'model': repr(mod)[:400]}
        if r[0] == 'bytes':
            # binding oracle: the round trip through the real handler (documents with lone surrogates are
            # not JSON-representable: correspondence only)
            back = real_deserialize(falcon, handler, r[1])
            if not has_surrogate(d) and (back[0] != 'ok' or canon(back[1]) != canon(d)):
                ctx.violation('json-roundtrip', dict(detail, deserialized=repr(back)[:400],
                                                     what='JSONHandler.deserialize(serialize(doc)) != doc'), key='codec-json-rt')
            bodies.append((d, r[1]))
        elif r[0] == 'other' or (r[0] == 'encode-error' and not has_surrogate(d)):
            ctx.violation('json-roundtrip', dict(detail, what='JSONHandler.serialize raised on a JSON-representable document'),
                          key='codec-json-ser-raise')
        if r != mod:
            ctx.violation('correspondence-broken', dict(detail, broken='C12.json_serialize_corr'), found_input=False,
                          key='codec-ser')
    mark('L2-ser')
    # dumps returning bytes / str under both probe outcomes (the serialize glue)
    gl_cases, gl_meta = [], []
    for probe_str in (True, False):
        for ret_str in (True, False):
            for payload in ('{"a": "é"}', '"\ud800"', ''):
                class Flip:
                    def __init__(self):
                        self.first = True

                    def __call__(self, media):
                        is_str = probe_str if self.first else ret_str
                        self.first = False
                        return payload if is_str else payload.encode('utf-8', 'surrogatepass')
                h = falcon.media.JSONHandler(dumps=Flip())
                try:
                    res = h.serialize({}, 'application/json')
                    obs = [0, list(res)] if isinstance(res, bytes) else [1, [ord(c) for c in res]]
                except UnicodeEncodeError:
                    obs = [2]
                except AttributeError:
                    obs = [3]
                gl_cases.append([12, probe_str, [0, payload] if ret_str else [1, payload.encode('utf-8', 'surrogatepass')]])
                gl_meta.append((probe_str, ret_str, payload, obs))
    for c, m, o in zip(gl_cases, gl_meta, run_many(model, gl_cases)):
        ctx.note_case(('glue', m[0], m[1], m[2]), True)
        ctx.count('handler-serialize-glue')
        if o != m[3]:
            ctx.violation('correspondence-broken', {'broken': 'C12.json_serialize_glue_corr', 'probe_returns_str': m[0],
                                                    'dumps_returns_str': m[1], 'payload': repr(m[2]), 'observed': m[3], 'model': o},
                          found_input=False, key='codec-glue')
    # deserialization of bodies: images, mutated, truncated, mis-encoded
    dbodies = [('image', b) for _, b in bodies[:n]]
    for _, b in bodies[:n]:
        if not b:
            continue
        r = rng.random()
        i = rng.randrange(len(b))
        if r < 0.3:
            dbodies.append(('truncated', b[:i]))
        elif r < 0.6:
            dbodies.append(('byte-replaced', b[:i] + bytes([rng.choice(edge + [0x22, 0x5c, 0x2c, 0x5d, 0x7d, 0x20])]) + b[i + 1:]))
        elif r < 0.75:
            dbodies.append(('byte-inserted', b[:i] + bytes([rng.choice(edge)]) + b[i:]))
        elif r < 0.85:
            try:
                dbodies.append(('latin1', b.decode().encode('latin-1')))
            except UnicodeEncodeError:
                dbodies.append(('utf16', b.decode().encode('utf-16')))
    for label, t in ptexts[:4 * n:3]:
        try:
            dbodies.append(('text-' + label, t.encode()))
        except UnicodeEncodeError:
            dbodies.append(('text-surrogatepass', t.encode('utf-8', 'surrogatepass')))
    dbodies += [('empty', b''), ('ws', b' '), ('bom', b'\xef\xbb\xbf[]'), ('nul', b'\x00')]
    outs = run_many(model, [[14, b] for _, b in dbodies])
    for (label, b), o in zip(dbodies, outs):
        r = real_deserialize(falcon, handler, b)
        ctx.note_case(('deser', b[:200], len(b)), label != 'image')
        ctx.count('handler-deserialize-' + label + '-' + r[0])
        detail = {'label': label, 'body': repr(b[:3000]), 'body_len': len(b), 'handler.deserialize': repr(r)[:300],
                  'model(0=value,1=not-found,2=malformed)': repr(o)[:300]}
        if r[0] == 'other':
            ctx.violation('json-undecodable-not-400', dict(detail, error=r[1]), key='codec-deser-500')
            continue
        try:
            ref = py_loads(b.decode())
        except UnicodeDecodeError:
            ref = ('notutf8',)
        if ref[0] == 'skip':
            continue
        if ref[0] == 'float':      # float tokens: outside the Coq grammar (model: malformed), the handler accepts
            good = o[0] == 2 and r[0] == 'ok'
        elif r[0] == 'ok':
            good = o[0] == 0 and wj(o[1]) == ocanon(r[1])
        else:
            good = o[0] == {'nf': 1, 'mal': 2}[r[0]]
        if not good:
            if o[0] == 0 and r[0] != 'ok':
                # a body that IS a JSON document (proved parser) is refused by the handler
                ctx.violation('json-valid-rejected', detail, key='codec-deser-reject')
            elif label == 'empty' and r[0] != 'nf':
                ctx.violation('json-empty-not-notfound', detail, key='codec-deser-empty')
            else:
                ctx.violation('correspondence-broken', dict(detail, broken='C12.json_deserialize_body_corr'),
                              found_input=False, key='codec-deser')

    mark('L2-deser')
    # ---- URL-encoded forms: form_print vs URLEncodedFormHandler.serialize
    from falcon.media import URLEncodedFormHandler
    fh = URLEncodedFormHandler()
    fstrs = ['', 'a', 'A-Z_.~', 'a b', 'a+b', 'a&b=c', '%41', ',', 'é', '€', '\U0001f600', '\x00', '\x7f', '/', '?', '#', '*',
             "'", '(', ')', '!', '@', ':', ';', '\n', '\ud800']
    fcases, fmeta = [], []
    for _ in range(n):
        m = {}
        for _k in range(rng.randint(0, 4)):
            k = rng.choice(fstrs) if rng.random() < 0.6 else gen_str(rng, rng.random() < 0.1)
            def val():
                return rng.choice(fstrs) if rng.random() < 0.6 else gen_str(rng, rng.random() < 0.1)
            r = rng.random()
            m[k] = val() if r < 0.6 else [val() for _ in range(rng.choice([0, 1, 2, 3]))] if r < 0.9 \
                else tuple(val() for _ in range(rng.choice([0, 1, 2])))
        try:
            obs = list(fh.serialize(m, 'application/x-www-form-urlencoded'))
        except UnicodeEncodeError:
            obs = None
        fcases.append([17, [[k, [0, v] if isinstance(v, str) else [1, list(v)]] for k, v in m.items()]])
        fmeta.append((m, obs))
    for c, (m, obs), o in zip(fcases, fmeta, run_many(model, fcases)):
        ctx.note_case(('form-print', repr(m)[:300]), len(m) > 0)
        ctx.count('form-print')
        if (o[0] if o else None) != obs:
            detail = {'mapping': repr(m)[:400], 'handler.serialize': repr(bytes(obs) if obs is not None else None)[:400],
                      'model': repr(bytes(o[0]) if o else None)[:400]}
            # binding oracle: does the form round trip fail on the real handler?
            back = None
            if obs is not None:
                try:
                    back = fh.deserialize(io.BytesIO(bytes(obs)), 'application/x-www-form-urlencoded', len(obs))
                except BaseException as e:   # noqa
                    back = repr(e)
            exp = form_expected(m)
            if obs is not None and exp is not None and back != exp:
                ctx.violation('form-roundtrip', dict(detail, expected=repr(exp)[:300], got=repr(back)[:300]), key='codec-form-rt')
            else:
                ctx.violation('correspondence-broken', dict(detail, broken='C12.form_print_corr'), found_input=False,
                              key='codec-form')


def wmapping(w):
    """wire (Extract.v v_mapping) -> list of (key, str | list of str), order kept."""
    return [(common.wstr(k), common.wstr(v[1]) if v[0] == 0 else [common.wstr(x) for x in v[1]]) for k, v in w]


def check_form_parse(ctx, falcon, model):
    """coq/C12/Form.v (decode, parse_qs, form_deserialize_body) against falcon.util.uri.decode,
    parse_query_string(csv=False) and the real URLEncodedFormHandler.deserialize."""
    import itertools
    from falcon.util import uri
    from falcon.media import URLEncodedFormHandler
    rng = ctx.rng
    quick = ctx.tier == 'quick'
    n = 1500 if quick else 15000
    fh = URLEncodedFormHandler()
    # ---- uri.decode
    frag = ['a', 'Z', '0', '-', '.', '_', '~', '+', '%', '%20', '%2B', '%2b', '%25', '%41', '%4', '%4g', '%g1', '%C3%A9', '%c3%a9',
            '%E2%82%AC', '%F0%9F%98%80', '%C3', '%A9', '%FF', '%ED%A0%80', '%00', '%7F', '&', '=', ',', ' ', 'é', '€', '\U0001f600',
            '%%', '%+1', '%2%42']
    dstrs = [''.join(rng.choice(frag) for _ in range(rng.randint(0, 9))) for _ in range(n)]
    for ln in range(0, 6 if quick else 7):
        dstrs += [''.join(t) for t in itertools.product('%41g+a', repeat=ln)]
    outs = run_many(model, [[18, x] for x in dstrs])
    for x, o in zip(dstrs, outs):
        try:
            exp = uri.decode(x)
        except UnicodeEncodeError:
            exp = None
        ctx.note_case(('uri-decode', x), '%' in x or '+' in x)
        ctx.count('form-uri-decode')
        got = common.wstr(o[0]) if o else None
        if got is not None and got != exp or got is None and exp is not None and '�' not in exp:
            ctx.violation('correspondence-broken', {'broken': 'C12.uri_decode_corr', 'input': x, 'uri.decode': repr(exp), 'model': repr(got)},
                          found_input=False, key='form-decode')
    # ---- parse_query_string(csv=False)
    qfrag = ['a', 'b', 'k', '=', '=', '&', '&', '+', '%20', '%26', '%3D', '%2B', '%25', '%', '%4', '%C3%A9', '%FF', ',', 'a,b', '1',
             'a=1', 'a=', '=1', 'b=2&b=3', '%61']
    qss = [''.join(rng.choice(qfrag) for _ in range(rng.randint(0, 10))) for _ in range(n)]
    for ln in range(0, 6 if quick else 7):
        qss += [''.join(t) for t in itertools.product('a=&%+4', repeat=ln)]
    images = []
    fstrs = ['', 'a', 'A-Z_.~', 'a b', 'a+b', 'a&b=c', '%41', ',', 'é', '€', '\U0001f600', '\x00', '\x7f', '/', '=', '&', '%', '+']
    for _ in range(n):
        m = {}
        for _k in range(rng.randint(0, 4)):
            k = rng.choice(fstrs) if rng.random() < 0.7 else gen_str(rng)
            def val():
                return rng.choice(fstrs) if rng.random() < 0.7 else gen_str(rng)
            m[k] = val() if rng.random() < 0.6 else [val() for _ in range(rng.choice([0, 1, 2, 3]))]
        body = fh.serialize(m, 'application/x-www-form-urlencoded')
        images.append((m, body))
        qss.append(body.decode('ascii'))
        qss.append(mutate_text(body.decode('ascii'), rng))
    cases = [[19, kb, q] for q in qss for kb in (True, False)]
    outs = run_many(model, cases)
    for c, o in zip(cases, outs):
        _, kb, q = c
        try:
            exp = list(uri.parse_query_string(q, keep_blank=kb, csv=False).items())
        except UnicodeEncodeError:
            exp = None
        ctx.note_case(('parse-qs', kb, q), '&' in q and '=' in q)
        ctx.count('form-parse-qs')
        got = wmapping(o[0]) if o else None
        repl = exp is None or any('�' in k or '�' in (v if isinstance(v, str) else ''.join(v)) for k, v in exp)
        if got is not None and got != exp or got is None and not repl:
            ctx.violation('correspondence-broken', {'broken': 'C12.parse_qs_corr', 'query_string': q, 'keep_blank': kb,
                                                    'parse_query_string': repr(exp)[:400], 'model': repr(got)[:400]},
                          found_input=False, key='form-parse-qs')
    # ---- the real handler's deserialize on bytes
    bodies = [('image', b) for _, b in images]
    for _, b in images:
        if b and rng.random() < 0.5:
            i = rng.randrange(len(b))
            bodies.append(('byte-replaced', b[:i] + bytes([rng.choice([0x80, 0xe9, 0xff, 0x26, 0x3d, 0x25, 0x2b, 0x41])]) + b[i + 1:]))
    bodies += [('empty', b''), ('amp', b'&&'), ('eq', b'='), ('nonascii', b'a=\xc3\xa9'), ('plain', b'a=1&b=2&a=3')]
    outs = run_many(model, [[20, True, b] for _, b in bodies])
    for (label, b), o in zip(bodies, outs):
        try:
            r = ('ok', list(fh.deserialize(io.BytesIO(b), 'application/x-www-form-urlencoded', len(b)).items()))
        except falcon.MediaMalformedError:
            r = ('mal',)
        except BaseException as e:   # noqa
            r = ('other', repr(e)[:100])
        ctx.note_case(('form-deser', b), label != 'image')
        ctx.count('form-deserialize-' + label + '-' + r[0])
        detail = {'label': label, 'body': repr(b[:1000]), 'handler.deserialize': repr(r)[:400], 'model(0=value,2=malformed,9=not modelled)': repr(o)[:400]}
        if r[0] == 'other':
            ctx.violation('form-undecodable-not-400', detail, key='form-deser-500')
        elif o[0] == 9:
            if not (r[0] == 'ok' and '�' in repr(r[1]) or '\\ufffd' in repr(r)):
                ctx.violation('correspondence-broken', dict(detail, broken='C12.form_deserialize_body_corr (model has no answer)'),
                              found_input=False, key='form-deser-nm')
        elif (o[0] == 2) != (r[0] == 'mal') or (o[0] == 0 and wmapping(o[1]) != r[1]):
            ctx.violation('correspondence-broken', dict(detail, broken='C12.form_deserialize_body_corr'), found_input=False,
                          key='form-deser')
    # the proved round trip, instance by instance on the extracted model and on the real handler
    rt = [(m, b) for m, b in images if form_expected(m) == m]
    outs = run_many(model, [[20, True, b] for _, b in rt])
    for (m, b), o in zip(rt, outs):
        ctx.note_case(('form-rt', b), len(m) > 0)
        ctx.count('form-roundtrip-canonical')
        back = fh.deserialize(io.BytesIO(b), 'application/x-www-form-urlencoded', len(b))
        if back != m:
            ctx.violation('form-roundtrip', {'mapping': repr(m)[:400], 'body': repr(b[:400]), 'got': repr(back)[:400]}, key='form-rt2')
        if o[0] != 0 or wmapping(o[1]) != list(m.items()):
            ctx.violation('correspondence-broken', {'broken': 'C12.form_roundtrip instance fails on the extracted model',
                                                    'mapping': repr(m)[:400], 'model': repr(o)[:400]}, found_input=False, key='form-rt-model')


def form_expected(m):
    """What a form can represent of a mapping (str values, or sequences of >= 2 strs; a field whose
    name AND value are empty does not exist in the format); None if the mapping is outside that domain."""
    exp = {}
    for k, v in m.items():
        if not isinstance(v, str):
            v = list(v)
            if len(v) < 2:
                return None
        if k == '':
            v = [x for x in v if x != ''] if isinstance(v, list) else v
            if v == '' or v == []:
                continue
            if isinstance(v, list) and len(v) == 1:
                v = v[0]
        exp[k] = v
    return exp


# ------------------------------------------------------------------ Content-Length variants

def real_get_media(falcon, testing, kind, ctype, body_chunks, cl, rng=None):
    """One get_media() on a real request whose Content-Length header is absent (cl None) or cl, and
    whose body is body_chunks (ASGI: one http.request event per chunk; WSGI: wsgi.input holds the
    concatenation)."""
    import falcon.asgi
    headers = {'Content-Type': ctype}
    if cl is not None:
        headers['Content-Length'] = str(cl)
    body = b''.join(body_chunks)
    if kind == 'wsgi':
        env = testing.create_environ(method='POST', headers=headers)
        if cl is None:
            env.pop('CONTENT_LENGTH', None)
        env['wsgi.input'] = CountingInput(body)
        req = falcon.Request(env)
        call = req.get_media
    else:
        st = {'i': 0}

        async def receive():
            i = st['i']
            if i < len(body_chunks):
                st['i'] += 1
                return {'type': 'http.request', 'body': body_chunks[i], 'more_body': i + 1 < len(body_chunks)}
            return {'type': 'http.disconnect'}
        scope = testing.create_scope(method='POST', headers=headers)
        req = falcon.asgi.Request(scope, receive)
        assert (req.content_length is None) == (cl is None)

        def call():
            async def go():
                return await req.get_media()
            return run_coro(go())
    try:
        return ('ok', call())
    except falcon.MediaNotFoundError:
        return ('nf',)
    except falcon.MediaMalformedError:
        return ('mal',)
    except BaseException as e:  # noqa
        return ('other', type(e).__name__ + ': ' + str(e)[:80])


def check_content_length(ctx, falcon, testing, model):
    """The media round trip and the handler outcomes for requests WITHOUT Content-Length (ASGI: chunked /
    HTTP/2 style uploads, the body arrives in 1..n events; WSGI: falcon treats wsgi.input as empty), with
    Content-Length: 0 and a body present, and with Content-Length larger / smaller than the body.  The model
    (Model.offered_wsgi / offered_asgi, C12_offered_*_is_C07_declared) says what the stream hands to the
    handler; binding: whenever the whole body is offered the document must round-trip."""
    import asyncio
    import falcon.asgi
    rng = ctx.rng
    n = 300 if ctx.tier == 'quick' else 3000
    jh = falcon.media.JSONHandler()
    fh = falcon.media.URLEncodedFormHandler()
    cases, meta = [], []
    for i in range(n):
        form = rng.random() < 0.25
        if form:
            doc = {rng.choice(['a', 'é', 'k k', '&', 'q']): rng.choice(['1', 'é€', 'a b', '+%', ['x', 'y', ',']])
                   for _ in range(rng.randint(1, 3))}
            body = fh.serialize(doc, 'application/x-www-form-urlencoded')
            ctype = 'application/x-www-form-urlencoded'
        else:
            doc = gen_ffdoc(rng, maxdepth=rng.choice([1, 2, 3]))
            body = jh.serialize(doc, 'application/json')
            ctype = rng.choice(['application/json', 'application/json; charset=utf-8'])
        L = len(body)
        for kind in ('wsgi', 'asgi'):
            for cl in [None, 0, L, L + rng.randint(1, 9)] + ([rng.randrange(0, L)] if L > 0 else []):
                chunks = chunked(rng, body) if kind == 'asgi' else [body]
                if kind == 'asgi' and rng.random() < 0.2:
                    chunks.insert(rng.randrange(len(chunks) + 1), b'')
                r = real_get_media(falcon, testing, kind, ctype, chunks, cl)
                cases.append([23 if form else 22, kind == 'wsgi', [] if cl is None else [cl], chunks])
                meta.append((form, doc, body, kind, cl, chunks, ctype, r))
    outs = model.run_many(cases)
    for (form, doc, body, kind, cl, chunks, ctype, r), o in zip(meta, outs):
        L = len(body)
        shape = 'no-content-length' if cl is None else 'cl-0' if cl == 0 and L > 0 else 'cl-exact' if cl == L else \
            'cl-larger' if cl > L else 'cl-smaller'
        ctx.count('content-length-%s-%s' % (kind, shape))
        ctx.note_case(('cl', kind, shape, body[:100], len(chunks)), shape != 'cl-exact')
        whole = (kind == 'asgi' and (cl is None or cl >= L)) or (kind == 'wsgi' and cl is not None and cl >= L)
        detail = {'interface': kind, 'content_type': ctype, 'content_length_header': cl, 'body': repr(body[:300]),
                  'body_len': L, 'events': [len(c) for c in chunks], 'doc': repr(doc)[:300], 'get_media': repr(r)[:300],
                  'model(0=value,1=not-found,2=malformed,9=not modelled)': repr(o)[:300]}
        if r[0] == 'other':
            ctx.violation('json-undecodable-not-400', dict(detail, error=r[1]), key='cl-500')
            continue
        if whole and L > 0:
            # binding: the document round-trips for every chunking, with the length declared, over-declared or
            # (ASGI) not declared (C12_json_roundtrip_any_chunking / C12_json_roundtrip_wsgi / C12_form_roundtrip)
            exp = form_expected(doc) if form else doc
            if r[0] != 'ok' or canon(r[1]) != canon(exp):
                ctx.violation('form-roundtrip' if form else 'json-roundtrip',
                              dict(detail, what='the whole body is offered to the handler (%s) but get_media does not '
                                                'return the document' % shape), key='cl-rt-%s-%s' % (kind, shape))
                continue
        # correspondence with the model of what the stream offers
        if form:
            good = (o[0] == 0 and r[0] == 'ok' and wmapping(o[1]) == list(r[1].items())) or (o[0] == 2 and r[0] == 'mal') \
                or o[0] == 9
        elif r[0] == 'ok':
            good = o[0] == 0 and wj(o[1]) == ocanon(r[1])
        else:
            good = o[0] == {'nf': 1, 'mal': 2}[r[0]]
        if not good:
            ctx.violation('correspondence-broken', dict(detail, broken='C12.offered_body_corr (what the stream hands to the handler '
                                                                       'for this Content-Length)'), found_input=False,
                          key='cl-corr-%s-%s' % (kind, shape))

    # end to end on the ASGI app: a chunked upload without Content-Length, echoed back
    holder = {}

    class AR:
        async def on_post(self, req, resp):
            holder['got'] = await req.get_media()
            holder['again'] = (await req.get_media()) is holder['got']
            resp.media = holder['got']

    aapp = falcon.asgi.App()
    aapp.add_route('/', AR())
    for i in range(60 if ctx.tier == 'quick' else 600):
        doc = gen_ffdoc(rng, maxdepth=2)
        while doc is None:
            doc = gen_ffdoc(rng, maxdepth=2)
        body = jh.serialize(doc, 'application/json')
        chunks = chunked(rng, body)
        st = {'i': 0}
        sent = []

        async def receive():
            i = st['i']
            if i < len(chunks):
                st['i'] += 1
                return {'type': 'http.request', 'body': chunks[i], 'more_body': i + 1 < len(chunks)}
            await asyncio.sleep(3600)

        async def send(ev):
            sent.append(ev)
        scope = testing.create_scope(method='POST', headers={'Content-Type': 'application/json'})
        holder.clear()

        async def drive():
            await asyncio.wait_for(aapp(scope, receive, send), 30)
        asyncio.run(drive())
        status = next((e['status'] for e in sent if e['type'] == 'http.response.start'), None)
        out = b''.join(e.get('body', b'') for e in sent if e['type'] == 'http.response.body')
        ctx.count('content-length-e2e-asgi-chunked-upload')
        ctx.note_case(('cl-e2e', i), len(chunks) > 1)
        try:
            echoed = json.loads(out.decode())
        except ValueError:
            echoed = None
        if status != 200 or 'got' not in holder or canon(holder['got']) != canon(doc) or not holder['again'] \
                or canon(echoed) != canon(doc):
            ctx.violation('e2e-roundtrip', {'interface': 'asgi', 'what': 'chunked upload without Content-Length: the document posted '
                                            'is not the request media', 'doc': repr(doc)[:300], 'events': [len(c) for c in chunks],
                                            'status': status, 'got': repr(holder.get('got'))[:300], 'response_body': repr(out[:300])},
                          key='cl-e2e')


def check_e2e_reassign(ctx, falcon, testing):
    """Through real WSGI and ASGI apps with the real JSON handler: the body is rendered early (by the
    responder itself or by a middleware's process_response), the document is amended IN PLACE, and then
    either assigned to resp.media again (the client must receive the amended document) or not (the client
    receives the early rendering: by design, and stated so in Spec.qstep)."""
    import falcon.asgi
    rng = ctx.rng
    n = 60 if ctx.tier == 'quick' else 600
    plan = {}

    def amend(doc):
        if isinstance(doc, dict):
            doc['amended'] = doc.get('amended', 0) + 1
        else:
            doc.append('amended')

    class Early:
        """process_response runs after the responder: render, amend, maybe re-assign."""
        def process_response(self, req, resp, resource, req_succeeded):
            if plan.get('where') == 'middleware':
                resp.render_body()
                amend(plan['doc'])
                if plan['reassign']:
                    resp.media = plan['doc']

        async def process_response_async(self, req, resp, resource, req_succeeded):
            if plan.get('where') == 'middleware':
                await resp.render_body()
                amend(plan['doc'])
                if plan['reassign']:
                    resp.media = plan['doc']

    class R:
        def on_get(self, req, resp):
            resp.media = plan['doc']
            if plan['where'] == 'responder':
                resp.render_body()
                amend(plan['doc'])
                if plan['reassign']:
                    resp.media = plan['doc']

    class AR:
        async def on_get(self, req, resp):
            resp.media = plan['doc']
            if plan['where'] == 'responder':
                await resp.render_body()
                amend(plan['doc'])
                if plan['reassign']:
                    resp.media = plan['doc']

    wapp = falcon.App(middleware=[Early()])
    wapp.add_route('/', R())
    aapp = falcon.asgi.App(middleware=[Early()])
    aapp.add_route('/', AR())
    clients = {'wsgi': testing.TestClient(wapp), 'asgi': testing.TestClient(aapp)}
    for i in range(n):
        for kind, cl in clients.items():
            doc = gen_ffdoc(rng, maxdepth=2)
            while not isinstance(doc, (dict, list)):
                doc = gen_ffdoc(rng, maxdepth=2)
            before = json.loads(json.dumps(doc))
            plan.clear()
            plan.update(doc=doc, where=rng.choice(['responder', 'middleware']), reassign=rng.random() < 0.6)
            r = cl.simulate_get('/')
            expected = doc if plan['reassign'] else before
            ctx.note_case(('e2e-reassign', kind, i), True)
            ctx.count('e2e-reassign-' + ('same-object-reassigned' if plan['reassign'] else 'amended-not-reassigned'))
            got = None
            try:
                got = json.loads(r.content.decode())
            except ValueError:
                pass
            if r.status_code != 200 or canon(got) != canon(expected):
                detail = {'interface': kind, 'rendered_early_in': plan['where'], 'reassigned': plan['reassign'],
                          'doc_before_amendment': repr(before)[:300], 'doc_after_amendment': repr(doc)[:300],
                          'body': repr(r.content[:300]), 'status': r.status_code}
                if plan['reassign']:
                    ctx.violation('render-cache-clause',
                                  dict(detail, what='resp.media was assigned again (same object, amended in place) after an early '
                                                    'render, but the client received the stale early rendering',
                                       clauses_failed=[1]), key='e2e-reassign-stale')
                else:
                    ctx.violation('correspondence-broken',
                                  dict(detail, broken='C12.render_body_corr (amendment without re-assignment changed the body)'),
                                  found_input=False, key='e2e-noreassign')


def main(ctx):
    import falcon
    from falcon import testing
    model = common.Model(ctx)
    ctx.cov['rule'] = ('(a) get_media sessions: all call lists of length <=3 over {get_media(), get_media(default), .media} x '
                       'first handler outcome x exhaust_stream, plus random longer sessions, on real WSGI and ASGI requests with a '
                       'scripted handler and a counting input (object/error identity, handler invocations, stream activity); '
                       '(b) real JSON and URL-encoded handlers on generated documents and on truncated / mis-encoded / empty / deep '
                       'bodies; (c) response media/text/data/render_body sessions with a counting serializer; (d) end-to-end '
                       'resp.media -> body -> req.get_media round trips. non-trivial = >=2 calls (a), non-valid body (b), '
                       'render after media assignment (c), non-empty container (d)')
    ctx.assumptions += ['json.dumps/json.loads and bytes.decode are CPython\'s: their answers are inputs of the glue model '
                        '(Coq proves what falcon does with them); JSON/form byte-level losslessness is checked differentially',
                        'finite floats: round trip checked differentially only']
    check_sessions(ctx, falcon, testing, model)
    check_handlers(ctx, falcon, testing, model)
    check_custom_loads(ctx, falcon, testing, model)
    check_response(ctx, falcon, model)
    check_e2e(ctx, falcon, testing)
    check_e2e_reassign(ctx, falcon, testing)
    check_content_length(ctx, falcon, testing, model)
    check_codec(ctx, falcon, model)
