"""C10 — falcon.uri encode/decode/parse_host/unquote_string against the extracted Coq model
(coq/C10/Model.v), with the proved reference/oracles of coq/C10/Spec.v evaluated on what the
real functions returned, and coq/lib/Utf8.v cross-checked against CPython's codec."""
import itertools
import json
import re

import common

ALPHABET = ['%', '+', '4', '1', 'a', 'f', 'F', 'g', '/', '-', '~', ' ', '\x00', '\xe9', '\u20ac', '\U0001F600']
EXTRA = ['&', '=', ',', '2', 'B', 'b', 'c', 'C', '0', '9', 'G', 'z', '_', '.', ':', '?', '#', '[', ']', '@',
         '!', '$', "'", '(', ')', '*', ';', '"', '<', '>', '\\', '^', '`', '{', '|', '}', '\x7f', '\x80', '\xff',
         '\u07ff', '\u0800', '\ud7ff', '\ue000', '\ufffd', '\uffff', '\U00010000', '\U0010ffff', '\n', '\t']
ENCODERS = [('encode', 0, 0), ('encode_value', 1, 0), ('encode_check_escaped', 0, 1),
            ('encode_value_check_escaped', 1, 1)]
CLAUSES = {1: 'output alphabet / escape shape (RFC 3986 characters and %XX only)',
           2: 'output does not decode back to the input',
           3: 'an already fully escaped string was changed',
           4: 'check-escaped encoder is not idempotent'}


class FastModel(common.Model):
    """common.Model with a C-speed reader for the driver's output (same wire syntax: the text is
    turned into JSON).  The generic reader costs more than the model itself on 10^5 cases."""

    def run_many(self, values, chunk=20000):
        import subprocess
        outs = []
        for i in range(0, len(values), chunk):
            part = values[i:i + chunk]
            inp = '\n'.join(wire(v) for v in part) + '\n'
            r = subprocess.run(['bash', '-c', 'ulimit -s unlimited 2>/dev/null; exec "%s"' % self.drv],
                               input=inp, stdout=subprocess.PIPE, stderr=subprocess.PIPE, text=True, timeout=1800)
            if r.returncode != 0:
                raise RuntimeError('model driver failed: rc=%s %s' % (r.returncode, r.stderr[-500:]))
            lines = r.stdout.split('\n')
            if lines and lines[-1] == '':
                lines.pop()
            if len(lines) != len(part):
                raise RuntimeError('model driver returned %d lines for %d cases' % (len(lines), len(part)))
            outs.extend(json.loads('[' + ','.join(lines).replace('(', '[').replace(')', ']').replace(' ', ',') + ']'))
        return outs


def wire(v):
    if isinstance(v, str):
        return '(' + ' '.join(map(str, map(ord, v))) + ')'
    if isinstance(v, (bytes, bytearray)):
        return '(' + ' '.join(map(str, v)) + ')'
    if isinstance(v, (list, tuple)):
        return '(' + ' '.join(map(wire, v)) + ')'
    return common.enc(v)


def load_cy_uri():
    """The Cython twin falcon/cyutil/uri (decode, parse_query_string) cannot be rebuilt offline; when a
    built artifact sits in $VERIF_REPO it is loaded stand-alone (the staged copy excludes *.so) and
    cross-checked against the same reference."""
    import glob
    import importlib.machinery
    import importlib.util
    import os
    paths = sorted(glob.glob(os.path.join(common.REPO, 'falcon', 'cyutil', 'uri.*.so')))
    if not paths:
        return None
    try:
        loader = importlib.machinery.ExtensionFileLoader('falcon.cyutil.uri', paths[0])
        spec = importlib.util.spec_from_file_location('falcon.cyutil.uri', paths[0], loader=loader)
        m = importlib.util.module_from_spec(spec)
        loader.exec_module(m)
        return m
    except Exception:  # noqa: BLE001 - built for another interpreter etc.
        return None


def exc_name(e):
    return type(e).__name__


def call(f, *a):
    try:
        return ('ok', f(*a))
    except Exception as e:  # noqa: BLE001 - the class is the observation
        return ('exc', exc_name(e))


def m_res_str(v):
    """wire res str -> ('ok', str) | ('exc', name)"""
    if v[0] == 1:
        return ('ok', common.wstr(v[1]))
    return ('exc', {1: 'UnicodeEncodeError', 2: 'ValueError'}.get(v[1], '?'))


def has_surrogate(s):
    return any(0xD800 <= ord(c) <= 0xDFFF for c in s)


def short_strings(alphabet, maxlen):
    for n in range(maxlen + 1):
        for t in itertools.product(alphabet, repeat=n):
            yield ''.join(t)


# ------------------------------------------------------------------ generators

def random_strings(ctx, n, maxlen):
    """strings mixing escapes (valid, lower-case, multi-byte sequences, invalid UTF-8, malformed
    and truncated escapes) with raw characters; the number of '%' crosses the 8-token switch of
    decode() and the lengths reach several KB."""
    rng = ctx.rng
    pool = ALPHABET + EXTRA
    out = []
    for j in range(n):
        length = rng.choice([5, 12, 40, 200, 1500] + ([maxlen] if j % 8 == 0 else []))
        nesc = min(rng.choice([0, 1, 6, 7, 8, 9, 30, 200]), length)
        parts = [rng.choice(pool) for _ in range(length)]
        for pos in rng.sample(range(length), nesc):
            k = rng.random()
            if k < 0.5:
                parts[pos] = '%%%02X' % rng.randrange(256)
            elif k < 0.7:
                parts[pos] = '%%%02x' % rng.randrange(256)
            elif k < 0.85:
                parts[pos] = ''.join('%%%02X' % b for b in rng.choice(pool[-12:] + ['\xe9', '\u20ac']).encode('utf-8', 'surrogatepass'))
            else:
                parts[pos] = rng.choice(['%', '%%', '%4', '%g1', '%1g', '%+1', '% 41', '%\xe91'])
        out.append(''.join(parts))
    return out


def authorities(ctx):
    hosts = ['example.com', 'localhost', '127.0.0.1', 'a', 'a.b-c_d~e', 'xn--caf-dma.example', '', 'EXAMPLE.org',
             '[::1]', '[2001:db8::1]', '[fe80::1%25eth0]', '[v1.fe:x]', '[]', '[::ffff:1.2.3.4]', 'h\xe9', '%41.com']
    ports = [None, '80', '8080', '0', '65535', '007', '99999999999999999999', '1', '443']
    out = []
    for h in hosts:
        for p in ports:
            out.append(h if p is None else h + ':' + p)
    # not valid authorities: behaviour only compared with the model
    out += ['example.com:', 'example.com:abc', '[::1]:x', '[::1]:', 'a:b:c', '::', ':', ':80', '[', ']', '[]:',
            '[::1', '::1]', '[::1]80', '[::1]:80:90', '[a]:1]:2', 'a: 80', 'a:80 ', 'a:+80', 'a:-1', 'a:1_0', 'a:_1',
            'a:1__0', 'a:1_', 'a:\t8\n', 'a:0x10', 'a:1e3', 'a:1.0', ' a:1', 'a :1', 'a:\x1f1', 'a:--1', 'a:+-1',
            'a:8 0', '[x]:+5', '[x]: 5 ', 'a:\xe9']
    return out


# ------------------------------------------------------------------ main

def main(ctx):
    import falcon  # noqa: F401  (staged copy)
    from falcon import uri
    model = FastModel(ctx)
    ctx.cov['rule'] = ('every (function, input) pair is run on the real falcon.uri function and on the extracted '
                       'model and judged by the proved Spec oracle; key = (function, flags, input); non-trivial = the '
                       'output differs from the input (decode/encode/unquote) or a port was parsed (parse_host)')
    ctx.assumptions.append('Python int() is modelled on its ASCII grammar only (non-ASCII digits/whitespace not generated)')
    ctx.assumptions.append('str.encode() raising UnicodeEncodeError on lone surrogates is modelled as Crash; the theorems '
                           'quantify over strings of scalar code points')
    for o in common.corpus('C10'):
        replay(ctx, o)
    history_part(ctx, uri, model)      # first: nothing has been called yet in this process
    utf8_lib(ctx, model)
    maxlen = 4 if ctx.tier == 'quick' else 5
    strings = list(short_strings(ALPHABET, 4))
    if ctx.tier != 'quick':
        # length 5 over a reduced alphabet that keeps every class (12^5) to stay within the budget
        strings += [''.join(t) for t in itertools.product(ALPHABET[:8] + [' ', '\xe9', '\u20ac', '\U0001F600'], repeat=5)]
    ctx.cov['exhaustive_short'] = 'all %d strings of length <= 4 over %r' % (16 ** 4 + 16 ** 3 + 16 ** 2 + 17, ''.join(ALPHABET))
    nrand = 300 if ctx.tier == 'quick' else 3000
    rnd = random_strings(ctx, nrand, 8192)
    surro = list(short_strings(['\ud800', '\udfff', '%', 'a', '4', '+'], 3))
    extra = [a + b for a in EXTRA for b in ['', '%', '4', '+']] + [p + c + q for c in EXTRA for p in ['%', '%4', 'a']
                                                                    for q in ['', '1', '%41']]
    # near-minimal inputs for the >= 8 token path: seven valid escapes, then every short tail
    longp = ['%41' * 7 + t for t in short_strings(ALPHABET, 2 if ctx.tier == 'quick' else 3)]
    longp += [t + '%e2%82%ac' * 3 for t in short_strings(ALPHABET[:8], 2)]
    ctx.cov['long_path'] = '%d strings with >= 8 tokens and an exhaustive short tail/head' % len(longp)
    decode_part(ctx, uri, model, strings + longp + rnd + extra + surro)
    enc_strings = strings
    encode_part(ctx, uri, model, enc_strings + longp + rnd + extra + surro)
    host_part(ctx, uri, model)
    unquote_part(ctx, uri, model)


def utf8_lib(ctx, model):
    """coq/lib/Utf8.v vs CPython: decode_replace on all byte strings of length <= 2, on length 3/4 over
    the boundary bytes, and encode/decode of every code point."""
    bnd = [0x00, 0x7f, 0x80, 0x8f, 0x90, 0x9f, 0xa0, 0xbf, 0xc0, 0xc1, 0xc2, 0xdf, 0xe0, 0xe1, 0xec, 0xed, 0xee,
           0xef, 0xf0, 0xf1, 0xf3, 0xf4, 0xf5, 0xff, 0x41]
    cases = [bytes(t) for n in (0, 1, 2) for t in itertools.product(range(256), repeat=n)]
    cases += [bytes(t) for t in itertools.product(bnd, repeat=3)]
    if ctx.tier == 'quick':
        cases += [bytes(ctx.rng.choice(bnd) for _ in range(ctx.rng.choice([4, 5, 9]))) for _ in range(20000)]
    else:
        cases += [bytes(t) for t in itertools.product(bnd, repeat=4)]
    outs = model.run_many([[8, b] for b in cases])
    for b, o in zip(cases, outs):
        exp = b.decode('utf-8', 'replace')
        ctx.count('utf8-decode')
        ctx.note_case(('u8d', b), exp != b.decode('latin-1'))
        if common.wstr(o) != exp:
            ctx.violation('lib-correspondence', {'broken': 'lib.Utf8.decode_replace', 'bytes': list(b),
                                                 'cpython': [ord(c) for c in exp], 'model': o},
                          found_input=False, key='utf8-dec')
            break
    # every scalar code point, 64 per case
    cps = [c for c in range(0x110000) if not 0xD800 <= c <= 0xDFFF]
    chunks = [''.join(map(chr, cps[i:i + 64])) for i in range(0, len(cps), 64)]
    outs = model.run_many([[7, s] for s in chunks])
    for s, o in zip(chunks, outs):
        ctx.count('utf8-encode')
        ctx.note_case(('u8e', ord(s[0])), ord(s[0]) >= 128)
        if o[0] != 1 or bytes(o[1]) != s.encode():
            ctx.violation('lib-correspondence', {'broken': 'lib.Utf8.encode', 'first_cp': ord(s[0])},
                          found_input=False, key='utf8-enc')
            break
    o = model.run([7, '\ud800'])
    if o[0] != 0:
        ctx.violation('lib-correspondence', {'broken': 'lib.Utf8 surrogate domain'}, found_input=False, key='utf8-sur')


def history_part(ctx, uri, model):
    """The seven functions are pure: a result may not depend on which calls came before.  A few thousand
    fresh strings; every string goes through both members of each encoder pair in both orders, calls are
    repeated and the strings interleaved in a seeded random order; every single result must equal the
    model's (a function of the arguments only)."""
    rng = ctx.rng
    seeds = ['/docs/a%20b', 'a%2Fb/c', '%41', 'a b', 'x/y?z=1&w=2', '%zz', 'caf\xe9/%C3%A9', '~user/%7e', 'a%', '%%41', '/',
             'plain', 'a+b/c%2B', '[::1]:80', 'h:8', '"q\\"x"', '%e2%82%ac/\u20ac', "!$&'()*+,;=:@/?#[]"]
    alpha = ['%', '2', '0', 'F', 'f', 'a', '/', '~', ' ', '+', '\xe9', '?', '=', ':', '"', '\\']
    strings = []
    n = 1500 if ctx.tier == 'quick' else 8000
    for i in range(n):
        base = rng.choice(seeds) if rng.random() < 0.5 else ''.join(rng.choice(alpha) for _ in range(rng.randint(1, 6)))
        strings.append(base + rng.choice(['', '', '/', '%20', 'x']) + 'h%d' % i)      # never seen before in this process
    calls = []
    for s_ in strings:
        pairs = [(('enc', 0, 1), ('enc', 1, 1)), (('enc', 0, 0), ('enc', 1, 0))]
        per = []
        for a, b in pairs:
            per += [a, b] if rng.random() < 0.5 else [b, a]
        per += [('dec', True), ('dec', False), ('host',), ('unq',)]
        rng.shuffle(per)
        per += [rng.choice(per) for _ in range(3)]        # repetitions
        calls += [(s_, c) for c in per]
    # interleave: shuffle within windows so that calls on different strings alternate
    w = 64
    for i in range(0, len(calls), w):
        blk = calls[i:i + w]
        rng.shuffle(blk)
        calls[i:i + w] = blk
    names = {(0, 0): 'encode', (1, 0): 'encode_value', (0, 1): 'encode_check_escaped', (1, 1): 'encode_value_check_escaped'}

    def run_impl(s_, c):
        if c[0] == 'enc':
            return call(getattr(uri, names[(c[1], c[2])]), s_)
        if c[0] == 'dec':
            return call(uri.decode, s_, c[1])
        if c[0] == 'host':
            return call(uri.parse_host, s_, None)
        return call(uri.unquote_string, s_)

    def wire_case(s_, c):
        if c[0] == 'enc':
            return [1, c[1], c[2], s_]
        if c[0] == 'dec':
            return [0, s_, c[1]]
        if c[0] == 'host':
            return [2, s_, []]
        return [3, s_]

    def model_res(c, o):
        if c[0] == 'enc':
            return m_res_str(o)
        if c[0] == 'dec':
            return m_res_str(o[0])
        if c[0] == 'host':
            return ('ok', (common.wstr(o[1][0]), common.wopt(o[1][1]))) if o[0] == 1 else ('exc', 'ValueError')
        return ('ok', common.wstr(o))
    uniq = sorted(set(calls), key=repr)
    expected = dict(zip(uniq, (model_res(c, o) for (s_, c), o in zip(uniq, model.run_many([wire_case(s_, c) for s_, c in uniq])))))
    seen = {}
    for i, (s_, c) in enumerate(calls):
        r = run_impl(s_, c)
        ctx.count('history')
        ctx.note_case(('hist', i), True)
        first = seen.setdefault((s_, c), r)
        if r != expected[(s_, c)] or r != first:
            prior = [list(map(str, cc)) for (ss, cc) in calls[:i] if ss == s_]
            ctx.violation('result-depends-on-call-history',
                          {'fn': names.get((c[1], c[2])) if c[0] == 'enc' else c[0], 'input': s_, 'call': list(map(str, c)),
                           'impl': r, 'model_pure_function': expected[(s_, c)], 'first_result_of_same_call': first,
                           'earlier_calls_on_this_string': prior,
                           'clause': 'encode/decode are functions of their arguments: the result may not depend on earlier calls'},
                          key='history-%s' % c[0])


def decode_part(ctx, uri, model, strings):
    cases, meta = [], []
    for s in strings:
        for plus in (True, False):
            cases.append([0, s, plus])
            meta.append((s, plus))
    outs = model.run_many(cases)
    corr = None
    cy = load_cy_uri()
    ctx.cov['cython_twin_decode'] = 'cross-checked' if cy else 'no built artifact in VERIF_REPO'
    for (s, plus), o in zip(meta, outs):
        r = call(uri.decode, s, plus)
        m = m_res_str(o[0])
        ref = common.wstr(o[1])
        if cy is not None and not has_surrogate(s):
            rc = call(cy.decode, s, plus)
            ctx.count('cy-decode')
            if rc != ('ok', ref):
                # the one known deviation: with unquote_plus=False a '+' is handled like a '%'
                as_pct = call(uri.decode, re.sub(r'\+(?=[0-9A-Fa-f]{2})', '%', s), False)
                ctx.violation('decode-not-reference', {'fn': 'cyutil.uri.decode', 'input': s, 'unquote_plus': plus,
                                                       'impl': rc, 'reference': ref,
                                                       'explained_by': ('plus-as-percent' if not plus and rc == as_pct
                                                                        else None),
                                                       'clause': 'percent-decoding equals the reference decoder (Cython twin)'},
                              key='cy-decode-ref')
        ctx.count('decode')
        ctx.note_case(('d', s, plus), r != ('ok', s))
        if has_surrogate(s):
            # outside the property's domain (str.encode raises): only model = implementation
            if r != m and corr is None:
                corr = {'fn': 'decode', 'input': s, 'plus': plus, 'impl': r, 'model': m}
            continue
        if r[0] == 'exc':
            ctx.violation('decode-raised', {'fn': 'decode', 'input': s, 'unquote_plus': plus, 'impl': r[1],
                                            'reference': ref, 'clause': 'decoding never fails'}, key='decode-raised')
        elif r[1] != ref:
            ctx.violation('decode-not-reference', {'fn': 'decode', 'input': s, 'unquote_plus': plus, 'impl': r[1],
                                                   'reference': ref, 'model': m,
                                                   'clause': 'percent-decoding equals the reference decoder'},
                          key='decode-ref')
        elif r != m and corr is None:
            corr = {'fn': 'decode', 'input': s, 'plus': plus, 'impl': r, 'model': m}
    ctx.sample({'decode': ['%E2%82%AC+%zz', True], 'impl': uri.decode('%E2%82%AC+%zz', True)})
    if corr:
        ctx.violation('correspondence-broken', dict(corr, broken='C10.decode_corr'),
                      found_input=bool(ctx.violations), key='decode-corr')


def encode_part(ctx, uri, model, strings):
    corr = None
    for name, iv, ck in ENCODERS:
        f = getattr(uri, name)
        impl, cases = [], []
        for s in strings:
            r = call(f, s)
            impl.append(r)
            cases.append([1, iv, ck, s])
        outs = model.run_many(cases)
        ocases, oidx = [], []
        for i, (s, r, o) in enumerate(zip(strings, impl, outs)):
            m = m_res_str(o)
            ctx.count(name)
            ctx.note_case((name, s), r != ('ok', s))
            if r != m and corr is None:
                corr = {'fn': name, 'input': s, 'impl': r, 'model': m}
            if has_surrogate(s):
                continue
            if r[0] == 'exc':
                ctx.violation('encode-raised', {'fn': name, 'input': s, 'impl': r[1]}, key='encode-raised-' + name)
                continue
            r2 = call(f, r[1])
            out2 = r2[1] if r2[0] == 'ok' else r[1] + '!raised'
            ocases.append([5, iv, ck, s, r[1], out2])
            oidx.append(i)
            # the implementation's own decode must invert its own encode
            if not ck:
                for plus in ((True, False) if iv else (False,)):
                    back = call(uri.decode, r[1], plus)
                    if back != ('ok', s):
                        ctx.violation('roundtrip-broken', {'fn': name, 'input': s, 'encoded': r[1], 'unquote_plus': plus,
                                                           'decoded': back[1],
                                                           'clause': 'decoding an encoded value returns the original'},
                                      key='roundtrip-' + name)
        fails = model.run_many(ocases)
        for i, fl in zip(oidx, fails):
            if fl:
                s = strings[i]
                ctx.violation('encode-clause-violated',
                              {'fn': name, 'input': s, 'impl': impl[i][1], 'clauses_failed': fl,
                               'clause_names': {str(k): CLAUSES[k] for k in fl}}, key='enc-%s-%s' % (name, fl))
    ctx.sample({'encode_value': 'a b/\u20ac', 'impl': uri.encode_value('a b/\u20ac')})
    if corr:
        ctx.violation('correspondence-broken', dict(corr, broken='C10.encoder_corr'),
                      found_input=bool(ctx.violations), key='encode-corr')


def host_obs(r):
    """('ok', (name, port)) -> wire res"""
    if r[0] == 'ok':
        name, port = r[1]
        return [1, [name, [] if port is None else [port]]]
    return [0, 2]


def host_part(ctx, uri, model):
    hosts = authorities(ctx)
    alpha = ['[', ']', ':', 'a', '1', '.', ' ', '_', '+', '-']
    hosts += list(short_strings(alpha, 4 if ctx.tier == 'quick' else 5))
    cases, meta, impl = [], [], []
    for h in hosts:
        for d in (None, 8080):
            cases.append([2, h, [] if d is None else [d]])
            meta.append((h, d))
            impl.append(call(uri.parse_host, h, d))
    outs = model.run_many(cases)
    ocases = [[6, h, [] if d is None else [d], host_obs(r)] for (h, d), r in zip(meta, impl)]
    oks = model.run_many(ocases)
    corr = None
    for (h, d), r, o, ok in zip(meta, impl, outs, oks):
        if o[0] == 1:
            m = ('ok', (common.wstr(o[1][0]), common.wopt(o[1][1])))
        else:
            m = ('exc', 'ValueError')
        ctx.count('parse_host')
        ctx.note_case(('h', h, d), r[0] == 'ok' and r[1][1] != d)
        if not ok:
            ctx.violation('host-clause-violated', {'fn': 'parse_host', 'input': h, 'default_port': d, 'impl': r,
                                                   'clause': 'a valid host[:port] authority is split into its host and numeric port'},
                          key='host-oracle')
        elif r != m and corr is None:
            corr = {'fn': 'parse_host', 'input': h, 'default_port': d, 'impl': r, 'model': m}
    ctx.sample({'parse_host': '[::1]:8080', 'impl': list(uri.parse_host('[::1]:8080'))})
    if corr:
        ctx.violation('correspondence-broken', dict(corr, broken='C10.parse_host_corr'),
                      found_input=bool(ctx.violations), key='host-corr')


def unquote_part(ctx, uri, model):
    strings = list(short_strings(['"', '\\', 'a', ' '], 6 if ctx.tier == 'quick' else 8))
    outs = model.run_many([[3, s] for s in strings])
    refs = model.run_many([[10, s[1:-1]] for s in strings])
    corr = None
    for s, o, ref in zip(strings, outs, refs):
        r = call(uri.unquote_string, s)
        ctx.count('unquote_string')
        ctx.note_case(('q', s), r != ('ok', s))
        quoted = len(s) >= 2 and s[0] == '"' and s[-1] == '"'
        if r[0] == 'ok' and quoted and r[1] != common.wstr(ref):
            ctx.violation('unquote-not-reference', {'fn': 'unquote_string', 'input': s, 'impl': r[1],
                                                    'reference': common.wstr(ref),
                                                    'clause': 'quoted-pair reading of a quoted-string'}, key='unq-ref')
        elif r != ('ok', common.wstr(o)) and corr is None:
            corr = {'fn': 'unquote_string', 'input': s, 'impl': r, 'model': common.wstr(o)}
    # quote then unquote
    for s in strings[:3000]:
        q = '"' + s.replace('\\', '\\\\').replace('"', '\\"') + '"'
        r = call(uri.unquote_string, q)
        ctx.count('unquote_roundtrip')
        ctx.note_case(('qr', s), True)
        if r != ('ok', s):
            ctx.violation('unquote-roundtrip', {'fn': 'unquote_string', 'input': q, 'impl': r, 'expected': s},
                          key='unq-rt')
    if corr:
        ctx.violation('correspondence-broken', dict(corr, broken='C10.unquote_corr'),
                      found_input=bool(ctx.violations), key='unq-corr')


def replay(ctx, obj):
    """Re-run one recorded input on the current implementation and judge it with the Spec."""
    from falcon import uri
    model = FastModel(ctx)
    fn = obj.get('fn')
    s = obj.get('input')
    ctx.note_case(('replay', fn, s), True)
    if obj.get('kind') == 'result-depends-on-call-history':
        # re-run the earlier calls on this string, then the call itself, in this fresh process
        names = {('0', '0'): 'encode', ('1', '0'): 'encode_value', ('0', '1'): 'encode_check_escaped',
                 ('1', '1'): 'encode_value_check_escaped'}

        def run(c):
            if c[0] == 'enc':
                return call(getattr(uri, names[(c[1], c[2])]), s)
            if c[0] == 'dec':
                return call(uri.decode, s, c[1] == 'True')
            if c[0] == 'host':
                return call(uri.parse_host, s, None)
            return call(uri.unquote_string, s)
        for c in obj.get('earlier_calls_on_this_string', []):
            run(c)
        r = run(obj['call'])
        exp = obj.get('model_pure_function')
        ctx.sample({'replayed': [fn, s], 'impl': r})
        if list(r) != list(exp) and [r[0], r[1]] != exp:
            ctx.violation('result-depends-on-call-history', {'fn': fn, 'input': s, 'impl': r, 'model_pure_function': exp})
        return
    if fn == 'decode':
        for plus in ([obj['unquote_plus']] if 'unquote_plus' in obj else [True, False]):
            decode_part(ctx, uri, model, [s]) if False else None
            o = model.run([0, s, plus])
            r = call(uri.decode, s, plus)
            ctx.sample({'replayed': [fn, s, plus], 'impl': r})
            if r[0] == 'exc':
                ctx.violation('decode-raised', {'fn': fn, 'input': s, 'unquote_plus': plus, 'impl': r[1]})
            elif r[1] != common.wstr(o[1]):
                ctx.violation('decode-not-reference', {'fn': fn, 'input': s, 'unquote_plus': plus, 'impl': r[1],
                                                       'reference': common.wstr(o[1])})
    elif fn in [e[0] for e in ENCODERS]:
        encode_part(ctx, uri, model, [s])
    elif fn == 'parse_host':
        d = obj.get('default_port')
        r = call(uri.parse_host, s, d)
        ok = model.run([6, s, [] if d is None else [d], host_obs(r)])
        ctx.sample({'replayed': [fn, s, d], 'impl': r})
        if not ok:
            ctx.violation('host-clause-violated', {'fn': fn, 'input': s, 'default_port': d, 'impl': r})
    elif fn == 'unquote_string':
        r = call(uri.unquote_string, s)
        ref = common.wstr(model.run([10, s[1:-1]]))
        ctx.sample({'replayed': [fn, s], 'impl': r})
        if r != ('ok', ref):
            ctx.violation('unquote-not-reference', {'fn': fn, 'input': s, 'impl': r, 'reference': ref})
    else:
        main(ctx)
