"""Shared machinery for every property check.

One run of ``bin/check Cnn`` does: stage the pure-Python falcon sources out of /repo's
working tree, regenerate coq/gen/Consts.v from the staged modules, (re)build the Coq
development for the property (model, spec, proofs, property theorems, extraction), build the
extracted OCaml model driver, then hand over to harness/cnn.py which runs corpus +
correspondence + spec oracles, and finally write evidence/Cnn.json and print
VIOLATION / KNOWN-FINDING lines.
"""
from __future__ import annotations

import atexit
import fcntl
import hashlib
import json
import os
import random
import re
import shutil
import subprocess
import sys
import tempfile
import time

VERIF = os.path.dirname(os.path.dirname(os.path.abspath(__file__)))
REPO = os.environ.get('VERIF_REPO', '/repo')
COQ = os.path.join(VERIF, 'coq')
BUILD = os.path.join(VERIF, 'build')
LINT_RE = re.compile(
    r'\b(Admitted|admit|Axiom|Axioms|Parameter|Parameters|Conjecture|Conjectures)\b'
    r'|Unset\s+Guard|bypass_check|type-in-type|impredicative-set|Admit\s+Obligations'
    r'|Unset\s+Universe\s+Checking|Unset\s+Positivity'
)

# --------------------------------------------------------------------------- wire format


def enc(v) -> str:
    """Python nested lists/ints/bools/str/bytes -> wire text (iterative: documents may be
    nested thousands deep)."""
    out = []
    stack = [v]
    CLOSE = object()
    SPACE = object()
    while stack:
        x = stack.pop()
        if x is CLOSE:
            out.append(')')
        elif x is SPACE:
            out.append(' ')
        elif isinstance(x, bool):
            out.append('1' if x else '0')
        elif isinstance(x, int):
            out.append(str(x))
        elif isinstance(x, str):
            out.append('(' + ' '.join(map(str, map(ord, x))) + ')')
        elif isinstance(x, (bytes, bytearray)):
            out.append('(' + ' '.join(map(str, x)) + ')')
        elif x is None:
            out.append('()')
        else:
            out.append('(')
            stack.append(CLOSE)
            items = list(x)
            for i in range(len(items) - 1, -1, -1):
                stack.append(items[i])
                if i > 0:
                    stack.append(SPACE)
    return ''.join(out)


def dec(s: str):
    """wire text -> nested lists of ints."""
    stack = [[]]
    i, n = 0, len(s)
    while i < n:
        c = s[i]
        if c == '(':
            stack.append([])
            i += 1
        elif c == ')':
            top = stack.pop()
            stack[-1].append(top)
            i += 1
        elif c in ' \t\r\n':
            i += 1
        else:
            j = i
            while j < n and (s[j] == '-' or s[j].isdigit()):
                j += 1
            stack[-1].append(int(s[i:j]))
            i = j
    assert len(stack) == 1 and len(stack[0]) == 1, s[:200]
    return stack[0][0]


def wstr(v) -> str:
    """decoded wire list of code points -> str (surrogates allowed)."""
    return ''.join(chr(c) for c in v)


def wbytes(v) -> bytes:
    return bytes(v)


def wopt(v, f=lambda x: x):
    return f(v[0]) if v else None


# --------------------------------------------------------------------------- staging


def stage_sources() -> str:
    """Copy /repo/falcon without the Cython binaries that shadow the .py sources."""
    base = os.environ.get('VERIF_TMP') or ('/dev/shm' if os.path.isdir('/dev/shm') else None)
    d = tempfile.mkdtemp(prefix='falcon-src.', dir=base)
    atexit.register(shutil.rmtree, d, True)
    subprocess.run(
        ['rsync', '-a', '--exclude=*.so', '--exclude=*.c', '--exclude=__pycache__',
         '--exclude=*.pyx', '--exclude=*.html',
         os.path.join(REPO, 'falcon'), d + '/'],
        check=True,
    )
    return d


def sha_tree(root: str) -> str:
    h = hashlib.sha256()
    for dp, dn, fn in sorted(os.walk(root)):
        dn.sort()
        for f in sorted(fn):
            if f.endswith('.py'):
                p = os.path.join(dp, f)
                h.update(os.path.relpath(p, root).encode())
                with open(p, 'rb') as fh:
                    h.update(hashlib.sha256(fh.read()).digest())
    return h.hexdigest()


# --------------------------------------------------------------------------- context


class Ctx:
    def __init__(self, prop: str, tier: str, seed: int, replay: str | None):
        self.prop = prop
        self.tier = tier
        self.seed = seed
        self.replay = replay
        self.rng = random.Random(seed)
        self.t0 = time.time()
        self.violations: list[dict] = []
        self.known_seen: list[str] = []
        self.cov: dict = {}
        self.assumptions: list[str] = []
        self.samples: list = []
        self.evaluations = 0
        self.nontrivial: set = set()
        self.dist: dict = {}
        self.proof_broken: str | None = None
        self.model_broken: str | None = None
        self.theorems: dict = {}
        self.stage = None
        self.out_dir = os.path.join(BUILD, 'out', prop)
        os.makedirs(self.out_dir, exist_ok=True)
        self.known = load_known(prop)
        self.advisory: list = []
        self._viol_keys: set = set()

    # ---- bookkeeping used by the per-property harnesses
    def count(self, key: str, n: int = 1):
        self.dist[key] = self.dist.get(key, 0) + n

    def note_case(self, case_key, nontrivial: bool):
        self.evaluations += 1
        if nontrivial:
            self.nontrivial.add(case_key if isinstance(case_key, (str, int, tuple)) else repr(case_key))

    def sample(self, s):
        if len(self.samples) < 8:
            self.samples.append(s)

    def time_left(self, budget_s: float) -> float:
        return budget_s - (time.time() - self.t0)

    # ---- findings
    def violation(self, kind: str, detail: dict, found_input: bool = True, key: str | None = None):
        """Record a violation unless it matches a committed known finding."""
        for kf in self.known:
            if kf.get('status', 'open') != 'open':
                continue
            m = kf.get('matcher')
            if m and matches(m, kind, detail):
                tag = kf['id']
                if tag not in self.known_seen:
                    self.known_seen.append(tag)
                    print('KNOWN-FINDING: property=%s %s' % (self.prop, kf['what']))
                return
        k = key or kind
        if k in self._viol_keys:
            return
        self._viol_keys.add(k)
        path = os.path.join(self.out_dir, 'replay_%s_%d.json' % (re.sub(r'\W+', '_', k)[:60], len(self.violations)))
        obj = {'property': self.prop, 'kind': kind, 'seed': self.seed, 'tier': self.tier}
        obj.update(detail)
        with open(path, 'w') as fh:
            json.dump(obj, fh, indent=1, default=repr)
        self.violations.append({'kind': kind, 'replay': path, 'found_input': found_input})
        print('VIOLATION property=%s replay=%s%s' % (
            self.prop, path, '' if found_input else ' no-failing-input-found'))
        sys.stdout.flush()


def matches(matcher: dict, kind: str, detail: dict) -> bool:
    """A known finding matches a failure by kind and by exact values of listed detail keys
    (or, for 'regex' entries, a regex over the JSON text of the named key)."""
    if matcher.get('kind') and matcher['kind'] != kind:
        return False
    for k, v in matcher.get('equals', {}).items():
        if detail.get(k) != v:
            return False
    for k, rx in matcher.get('regex', {}).items():
        if not re.search(rx, json.dumps(detail.get(k), default=repr)):
            return False
    return True


def load_known(prop: str) -> list[dict]:
    """known_findings.json (+ known_findings.d/*.json while a property is being built)."""
    import glob
    out = []
    paths = [os.path.join(VERIF, 'known_findings.json')] + sorted(glob.glob(os.path.join(VERIF, 'known_findings.d', '*.json')))
    for p in paths:
        if not os.path.exists(p):
            continue
        with open(p) as fh:
            data = json.load(fh)
        out += [e for e in data.get('findings', []) if e.get('property') == prop]
    return out


# --------------------------------------------------------------------------- build


def _run(cmd, cwd=None, timeout=900, env=None):
    if cmd and cmd[0] in ('make', 'coqchk', 'ocamlfind'):
        # large regenerated table literals need a deep stack in coqc
        import shlex
        cmd = ['bash', '-c', 'ulimit -s unlimited 2>/dev/null; exec ' + ' '.join(shlex.quote(c) for c in cmd)]
    try:
        r = subprocess.run(cmd, cwd=cwd, timeout=timeout, env=env,
                           stdout=subprocess.PIPE, stderr=subprocess.STDOUT, text=True)
        return r.returncode, r.stdout
    except subprocess.TimeoutExpired as e:
        out = e.stdout or ''
        if isinstance(out, bytes):
            out = out.decode('utf-8', 'replace')
        return 124, out + '\n[timeout]'


def lint_coq() -> list[str]:
    """Forbidden constructs anywhere in the development.  Variable/Hypothesis/Context are
    allowed only inside a Section (where they are discharged, not declared as axioms)."""
    bad = []
    sec_re = re.compile(r'^\s*(Section|Module\s+Type|Module|End)\s+([A-Za-z0-9_\']+)')
    var_re = re.compile(r'^\s*(Variables?|Hypothesis|Hypotheses|Context)\b')
    for dp, dn, fn in os.walk(COQ):
        for f in fn:
            if not f.endswith('.v'):
                continue
            p = os.path.join(dp, f)
            with open(p, encoding='utf-8') as fh:
                txt = fh.read()
            txt2 = re.sub(r'\(\*.*?\*\)', '', txt, flags=re.S)
            for m in LINT_RE.finditer(txt2):
                bad.append('%s: %s' % (os.path.relpath(p, VERIF), m.group(0)))
            stack = []
            for line in txt2.split('\n'):
                m = sec_re.match(line)
                if m:
                    if m.group(1) == 'End':
                        if stack:
                            stack.pop()
                    elif ':=' not in line:
                        stack.append('S' if m.group(1) == 'Section' else 'M')
                    continue
                if var_re.match(line) and 'S' not in stack:
                    bad.append('%s: %s outside a Section' % (os.path.relpath(p, VERIF), line.strip()[:40]))
    return bad


class BuildLock:
    def __enter__(self):
        os.makedirs(BUILD, exist_ok=True)
        self.fh = open(os.path.join(BUILD, '.lock'), 'w')
        fcntl.flock(self.fh, fcntl.LOCK_EX)
        return self

    def __exit__(self, *a):
        fcntl.flock(self.fh, fcntl.LOCK_UN)
        self.fh.close()


def ensure_makefile():
    """_CoqProject is generated from the files present (lib/, gen/, C*/), then coq_makefile."""
    import glob
    files = []
    for pat in ('lib/*.v', 'gen/*.v', 'C[0-9]*/*.v'):
        files += sorted(os.path.relpath(p, COQ) for p in glob.glob(os.path.join(COQ, pat)))
    dirs = sorted({f.split('/')[0] for f in files if f[0] == 'C'})
    txt = '-Q lib Falcon.lib\n-Q gen Falcon.gen\n' + ''.join('-Q %s Falcon.%s\n' % (d, d) for d in dirs)
    txt += '-arg -w -arg -notation-overridden,-deprecated-hint-without-locality,-deprecated-instance-without-locality\n'
    txt += '\n'.join(files) + '\n'
    cp = os.path.join(COQ, '_CoqProject')
    mk = os.path.join(COQ, 'Makefile')
    old = open(cp).read() if os.path.exists(cp) else None
    if old != txt or not os.path.exists(mk):
        with open(cp, 'w') as fh:
            fh.write(txt)
        subprocess.run(['coq_makefile', '-f', '_CoqProject', '-o', 'Makefile'], cwd=COQ, check=True,
                       stdout=subprocess.DEVNULL)


JOBS = os.environ.get('VERIF_JOBS', '8')


def regen_consts(ctx: Ctx):
    """Regenerate coq/gen/Consts.v from the *staged* modules (values, not text)."""
    code, out = _run([sys.executable, os.path.join(VERIF, 'harness', 'gen_consts.py'),
                      os.path.join(COQ, 'gen', 'Consts.v')],
                     env=dict(os.environ, PYTHONPATH=ctx.stage, PYTHONHASHSEED='0',
                              PYTHONDONTWRITEBYTECODE='1'))
    if code != 0:
        ctx.model_broken = 'gen_consts failed: ' + out[-2000:]


def build(ctx: Ctx, clean: bool = False):
    """Build model (+extraction +driver) and proofs for ctx.prop. Sets ctx.model_broken /
    ctx.proof_broken instead of raising, so the correspondence can still search."""
    prop = ctx.prop
    with BuildLock():
        regen_consts(ctx)
        if ctx.model_broken:
            return
        ensure_makefile()
        pdir = os.path.join(COQ, prop)
        if clean:
            for f in os.listdir(pdir):
                if f.endswith(('.vo', '.vok', '.vos', '.glob', '.aux')) or f.startswith('.') and f.endswith('.aux'):
                    os.remove(os.path.join(pdir, f))
        # 1. model + spec + extraction
        code, out = _run(['make', '-j' + JOBS, '%s/Extract.vo' % prop], cwd=COQ, timeout=1500)
        if code != 0:
            ctx.model_broken = 'coq model/extraction build failed:\n' + out[-3000:]
            return
        # 2. OCaml driver
        bdir = os.path.join(BUILD, prop)
        os.makedirs(bdir, exist_ok=True)
        src_ml = os.path.join(pdir, 'model.ml')
        drv = os.path.join(bdir, 'drv')
        stamp = os.path.join(bdir, 'model.ml')
        need = (not os.path.exists(drv) or not os.path.exists(stamp)
                or open(stamp).read() != open(src_ml).read()
                or os.path.getmtime(drv) < os.path.getmtime(os.path.join(VERIF, 'ocaml', 'main.ml')))
        if need:
            shutil.copy(src_ml, stamp)
            shutil.copy(os.path.join(pdir, 'model.mli'), os.path.join(bdir, 'model.mli'))
            shutil.copy(os.path.join(VERIF, 'ocaml', 'main.ml'), os.path.join(bdir, 'main.ml'))
            code, out = _run(['ocamlfind', 'ocamlopt', '-inline', '50', '-package', 'zarith',
                              '-linkpkg', 'model.mli', 'model.ml', 'main.ml', '-o', 'drv'],
                             cwd=bdir, timeout=600)
            if code != 0:
                ctx.model_broken = 'ocaml build failed:\n' + out[-3000:]
                return
        # 3. proofs + property theorems; Props is always recompiled so that the
        #    Print Assumptions output is captured on this run
        for ext in ('.vo', '.vok', '.vos', '.glob'):
            p = os.path.join(pdir, 'Props' + ext)
            if os.path.exists(p):
                os.remove(p)
        code, out = _run(['make', '-j' + JOBS, '%s/Props.vo' % prop], cwd=COQ, timeout=2400)
        with open(os.path.join(ctx.out_dir, 'props_build.log'), 'w') as fh:
            fh.write(out)
        if code != 0:
            ctx.proof_broken = out[-3000:]
        else:
            parse_assumptions(ctx, out, os.path.join(pdir, 'Props.v'))
    bad = lint_coq()
    if bad:
        ctx.proof_broken = (ctx.proof_broken or '') + '\nlint: forbidden constructs: ' + '; '.join(bad[:10])


def parse_assumptions(ctx: Ctx, log: str, props_v: str):
    with open(props_v, encoding='utf-8') as fh:
        src = fh.read()
    src_nc = re.sub(r'\(\*.*?\*\)', '', src, flags=re.S)
    thms = re.findall(r'^\s*(?:Theorem|Corollary)\s+([A-Za-z0-9_\']+)', src_nc, flags=re.M)
    printed = re.findall(r'Print\s+Assumptions\s+([A-Za-z0-9_\'.]+)\s*\.', src_nc)
    # coqc prints, per Print Assumptions, either "Closed under the global context" or
    # "Axioms:" followed by one "name : type" block per axiom
    blocks = re.split(r'(?=Closed under the global context|Axioms:)', log)
    results = []
    for b in blocks:
        if b.startswith('Closed under the global context'):
            results.append([])
        elif b.startswith('Axioms:'):
            names = re.findall(r'^([A-Za-z_][A-Za-z0-9_\'.]*)\s*:', b[len('Axioms:'):], flags=re.M)
            results.append(names)
    ctx.theorems = {}
    for i, name in enumerate(printed):
        ctx.theorems[name] = results[i] if i < len(results) else None
    missing = [t for t in thms if t not in printed]
    if missing:
        ctx.proof_broken = 'Props.v: theorem(s) without Print Assumptions: %s' % missing
    if len(results) < len(printed):
        ctx.proof_broken = 'Props.v: fewer Print Assumptions results than requests'
    allowed = {'functional_extensionality_dep', 'FunctionalExtensionality.functional_extensionality_dep',
               'Eqdep.Eq_rect_eq.eq_rect_eq', 'Eq_rect_eq.eq_rect_eq', 'eq_rect_eq',
               'JMeq_eq', 'JMeq.JMeq_eq', 'proof_irrelevance', 'classic', 'Classical_Prop.classic'}
    for name, ax in ctx.theorems.items():
        for a in ax or []:
            if a.split('.')[-1] not in {x.split('.')[-1] for x in allowed}:
                ctx.proof_broken = 'theorem %s depends on non-stdlib axiom %s' % (name, a)


def coqchk(ctx: Ctx):
    """thorough tier: independent re-check of Props.vo and everything it depends on."""
    import glob
    dirs = sorted({os.path.basename(os.path.dirname(p)) for p in glob.glob(os.path.join(COQ, 'C[0-9]*', '*.v'))})
    cmd = ['coqchk', '-silent', '-o', '-Q', 'lib', 'Falcon.lib', '-Q', 'gen', 'Falcon.gen']
    for d in dirs:
        cmd += ['-Q', d, 'Falcon.' + d]
    cmd.append('Falcon.%s.Props' % ctx.prop)
    # under the build lock: no concurrent make may rewrite a .vo while it is being re-checked
    with BuildLock():
        code, out = _run(cmd, cwd=COQ, timeout=3000)
        if code != 0 and not out.strip():   # killed without output (e.g. memory pressure): once more
            code, out = _run(cmd, cwd=COQ, timeout=3000)
    summary = out[out.find('CONTEXT SUMMARY'):] if 'CONTEXT SUMMARY' in out else out[-1500:]
    ctx.cov['coqchk'] = {'cmd': ' '.join(cmd), 'exit': code, 'summary': summary.strip()[:3000]}
    if code != 0:
        ctx.proof_broken = (ctx.proof_broken or '') + '\ncoqchk failed (exit %s): ' % code + out[-1500:]
    else:
        bad = [k for k in ('type-in-type', 'unsafe (co)fixpoints', 'positivity is assumed')
               if not re.search(re.escape(k) + r':\s*<none>', summary)]
        if bad:
            ctx.proof_broken = (ctx.proof_broken or '') + '\ncoqchk reports: ' + ', '.join(bad)


# --------------------------------------------------------------------------- model driver


class Model:
    """Runs the extracted Coq model on a batch of wire values."""

    def __init__(self, ctx: Ctx):
        self.drv = os.path.join(BUILD, ctx.prop, 'drv')
        self.ctx = ctx

    def run_many(self, values: list, chunk: int = 20000) -> list:
        outs = []
        for i in range(0, len(values), chunk):
            part = values[i:i + chunk]
            inp = '\n'.join(enc(v) for v in part) + '\n'
            r = subprocess.run(['bash', '-c', 'ulimit -s unlimited 2>/dev/null; exec "%s"' % self.drv],
                               input=inp, stdout=subprocess.PIPE, stderr=subprocess.PIPE, text=True,
                               timeout=1800)
            if r.returncode != 0:
                raise RuntimeError('model driver failed: rc=%s %s' % (r.returncode, r.stderr[-500:]))
            lines = r.stdout.split('\n')
            if lines and lines[-1] == '':
                lines.pop()
            if len(lines) != len(part):
                raise RuntimeError('model driver returned %d lines for %d cases' % (len(lines), len(part)))
            try:   # C-speed reader: the wire text becomes JSON
                outs.extend(json.loads('[' + ','.join(lines).replace('(', '[').replace(')', ']').replace(' ', ',') + ']'))
            except (ValueError, RecursionError):
                outs.extend(dec(l) for l in lines)
        return outs

    def run(self, v):
        return self.run_many([v])[0]


# --------------------------------------------------------------------------- evidence / exit


def finish(ctx: Ctx) -> int:
    if ctx.model_broken:
        ctx.violation('model-build-broken', {'broken': ctx.prop + '.Model/Extract', 'log': ctx.model_broken},
                      found_input=False, key='model-build')
    if ctx.proof_broken and not any(v['found_input'] for v in ctx.violations):
        ctx.violation('proof-broken', {'broken': ctx.prop + '.Props (theorem or lemma no longer checks)',
                                       'log': ctx.proof_broken}, found_input=False, key='proof')
    n_thm = len(ctx.theorems)
    n_ok = sum(1 for a in ctx.theorems.values() if a is not None) if not ctx.proof_broken else 0
    axioms = sorted({a for ax in ctx.theorems.values() for a in (ax or [])})
    cov = {
        'obligations': max(n_thm, 1),
        'discharged': n_ok,
        'checker_cmd': 'make -C coq %s/Props.vo (coqc 8.16.1, full .vo build; Print Assumptions per theorem)' % ctx.prop,
        'trusted_base': [
            'Coq 8.16.1 kernel incl. vm_compute (no native_compute)',
            'axioms reported by Print Assumptions: ' + (', '.join(axioms) if axioms else 'none (closed under the global context)'),
            'extraction (ExtrOcamlBasic only) + ocaml/main.ml (Zarith only for decimal<->binary Z)',
            'harness/gen_consts.py (regenerates coq/gen/Consts.v from staged module values)',
            'harness correspondence (generators, canonicalisation) in harness/%s.py' % ctx.prop.lower(),
        ],
        'theorems': ctx.theorems,
        'evaluations': ctx.evaluations,
        'distinct_nontrivial': len(ctx.nontrivial),
        'traces_validated_against_impl': ctx.evaluations,
        'rule': ctx.cov.pop('rule', 'see harness'),
        'samples': ctx.samples or ['(no case ran)'],
        'input_distribution': ctx.dist,
        'known_findings_seen': ctx.known_seen,
        'advisory_mismatches': ctx.advisory[:20],
        'staged_sources_sha256': sha_tree(ctx.stage) if ctx.stage else None,
    }
    cov.update(ctx.cov)
    ev = {
        'property_id': ctx.prop,
        'tier': ctx.tier,
        'seed': ctx.seed,
        'level': 'proof',
        'coverage': cov,
        'assumptions': ctx.assumptions,
        'wall_s': round(time.time() - ctx.t0, 2),
        'violations': len(ctx.violations),
    }
    os.makedirs(os.path.join(VERIF, 'evidence'), exist_ok=True)
    with open(os.path.join(VERIF, 'evidence', ctx.prop + '.json'), 'w') as fh:
        json.dump(ev, fh, indent=1, default=repr)
    print('%s tier=%s seed=%d evaluations=%d nontrivial=%d theorems=%d/%d violations=%d known=%d wall=%.1fs' % (
        ctx.prop, ctx.tier, ctx.seed, ctx.evaluations, len(ctx.nontrivial), n_ok, n_thm,
        len(ctx.violations), len(ctx.known_seen), time.time() - ctx.t0))
    return 1 if ctx.violations else 0


def corpus(prop: str) -> list[dict]:
    """Minimised regression inputs committed under corpus/Cnn/*.json (run first)."""
    import glob
    out = []
    for p in sorted(glob.glob(os.path.join(VERIF, 'corpus', prop, '*.json'))):
        with open(p) as fh:
            o = json.load(fh)
        o['_file'] = os.path.relpath(p, VERIF)
        out.append(o)
    return out
