"""C13 tables regenerated from the staged falcon modules on every run."""


def emit(A, nlist, strlit, strlist):
    import falcon.media.multipart as mp
    import falcon.asgi.multipart as amp
    assert amp._ALLOWED_CONTENT_HEADERS is mp._ALLOWED_CONTENT_HEADERS or \
        amp._ALLOWED_CONTENT_HEADERS == mp._ALLOWED_CONTENT_HEADERS
    assert amp._CRLF == mp._CRLF and amp._CRLF_CRLF == mp._CRLF_CRLF
    A('(* falcon/media/multipart.py *)')
    A('Definition mp_ALLOWED_CONTENT_HEADERS : list (list N) := [%s].'
      % '; '.join(nlist(h) for h in sorted(mp._ALLOWED_CONTENT_HEADERS)))
    A('Definition mp_CRLF : list N := %s.' % nlist(mp._CRLF))
    A('Definition mp_CRLF_CRLF : list N := %s.' % nlist(mp._CRLF_CRLF))
    o = mp.MultipartParseOptions()
    A('Definition mp_default_max_body_part_count : N := %d.' % o.max_body_part_count)
    A('Definition mp_default_max_body_part_buffer_size : N := %d.' % o.max_body_part_buffer_size)
    A('Definition mp_default_max_body_part_headers_size : N := %d.' % o.max_body_part_headers_size)
