"""C16 — static routes: correspondence of falcon.routing.static (StaticRoute.match/__call__,
_set_range, Request.range) with the Coq model (coq/C16/Model.v) and evaluation of the proved
oracles (coq/C16/Spec.v: may_open, response_ok) on what the real code did.

A real temporary tree (regular files and sub-directories, sizes 0..9, no symlinks; a sibling
directory and an outside "secret" file) is served through real WSGI and ASGI apps and by calling
the StaticRoute responder directly; ``sys.addaudithook`` records every ``open`` inside the tree
while a request is being handled.
"""
import atexit
import datetime
import itertools
import os
import shutil
import sys
import tempfile

import common

AUDIT = {'on': False, 'root': None, 'events': []}
_HOOKED = [False]


def _hook(event, args):
    if AUDIT['on'] and event == 'open':
        p = args[0]
        if isinstance(p, bytes):
            p = os.fsdecode(p)
        if isinstance(p, str) and p.startswith(AUDIT['root']):
            AUDIT['events'].append(p)


def install_hook():
    if not _HOOKED[0]:
        sys.addaudithook(_hook)
        _HOOKED[0] = True


class Recording:
    def __enter__(self):
        AUDIT['events'] = []
        AUDIT['on'] = True
        return AUDIT['events']

    def __exit__(self, *a):
        AUDIT['on'] = False


# ----------------------------------------------------------------------------- the tree

FILES = {
    'a': b'A',
    'ab': b'0123456789'[:2],
    'empty': b'',
    'nine.txt': b'012345678',
    'five.json': b'{"a":1}'[:5],
    'sub/inner.txt': b'inner!!',
    'sub/deep/x': b'xyz',
    'sub/a': b'sub-a',
    'index.html': b'<html>',
    'sp ace': b'space',
    'dotted.name.tar.gz': b'tgz1',
    '-evil': b'dash',
    'unié': b'uni',
}
OUTSIDE = {
    'secret.txt': b'TOP-SECRET',
    'root-evil/secret2': b'SIBLING',
    'root2/a': b'other-root',
}
MTIME = 1_600_000_000
MTIME2 = 1_609_815_845       # Tue, 05 Jan 2021 03:04:05 GMT: every numeric field has one digit


# sub-second parts of the files' modification times (ns): none, tiny, below/at/above one half,
# large, the last microsecond, and just below a full second (where a float rounds up)
FRACTIONS_NS = [0, 1_000, 400_000_000, 500_000_000, 500_001_000, 900_000_000, 999_999_000, 999_999_600,
                999_999_999]


def entry(p, data):
    """(size, true mtime second = floor(st_mtime_ns / 1e9), data, st_mtime_ns, exact value of the
    float st_mtime the responder reads as (numerator, denominator))."""
    from fractions import Fraction
    st = os.stat(p)
    fr = Fraction(st.st_mtime)
    return (len(data), st.st_mtime_ns // 10 ** 9, data, st.st_mtime_ns, (fr.numerator, fr.denominator))


def build_tree():
    base = tempfile.mkdtemp(prefix='c16-tree.', dir='/dev/shm' if os.path.isdir('/dev/shm') else None)
    base = os.path.realpath(base)
    atexit.register(shutil.rmtree, base, True)
    root = os.path.join(base, 'root')
    os.makedirs(root)
    listing = {}
    for i, (rel, data) in enumerate(sorted(FILES.items())):
        p = os.path.join(root, rel)
        os.makedirs(os.path.dirname(p), exist_ok=True)
        with open(p, 'wb') as fh:
            fh.write(data)
        ns = ((MTIME2 + i // 2 if i % 2 else MTIME + i * 7)) * 10 ** 9 + FRACTIONS_NS[i % len(FRACTIONS_NS)]
        os.utime(p, ns=(ns, ns))
        listing[p] = entry(p, data)
    for rel, data in OUTSIDE.items():
        p = os.path.join(base, rel)
        os.makedirs(os.path.dirname(p), exist_ok=True)
        with open(p, 'wb') as fh:
            fh.write(data)
        os.utime(p, ns=(MTIME * 10 ** 9 + 999_999_600, MTIME * 10 ** 9 + 999_999_600))
        listing[p] = entry(p, data)
    return base, root, listing


# ----------------------------------------------------------------------------- generators

# pieces of *decoded* request paths (what the responder sees as req.path)
PIECES = ['a', 'ab', 'sub', 'inner.txt', 'deep', 'x', 'nine.txt', 'empty', 'index.html', '.', '..', '...', '',
          '/', '//', '\\', '..\\', '%2e%2e', '%2f', '%', ' ', '\t', '~', '-evil', 'root-evil', 'secret.txt',
          'secret2', '../', './', 'sp ace', '\x00', '\x7f', '\x85', '\xa0', '\u2003', '\ufffd', '*', '?x', ':', '#',
          'uni\xe9', 'dotted.name.tar.gz', 'a.', 'a..b', 'A', 'x' * 300, 'five.json', '\u3000', "'", '"', '|', '<']


def encode_url(path, rng):
    """A URL path that percent-decodes to [path]: '?', '#', '%' and non-ASCII always encoded,
    everything else encoded at random (raw or %XX, e.g. %2e%2e%2f)."""
    out = []
    for k, ch in enumerate(path):
        if k == 0:
            out.append(ch)
        elif ch in '?#%' or ord(ch) > 126 or ord(ch) < 33 or rng.random() < 0.15:
            out.append(''.join('%%%02X' % b for b in ch.encode('utf-8', 'surrogatepass')))
        else:
            out.append(ch)
    return ''.join(out)


EXTRA = []     # absolute paths of the outside files of the current tree


def gen_path(rng, prefix):
    n = rng.choice([0, 1, 1, 2, 2, 3, 3, 4, 5, 7])
    parts = [rng.choice(PIECES) for _ in range(n)]
    if EXTRA and rng.random() < 0.06:
        return prefix + rng.choice(['', '/', 'a/../', '.']) + rng.choice(EXTRA)
    sep = rng.choice(['/', '/', '/', ''])
    tail = sep.join(parts)
    if rng.random() < 0.3:
        # a mutation of an existing file name
        name = rng.choice(sorted(FILES))
        k = rng.randrange(len(name) + 1)
        tail = name[:k] + rng.choice(PIECES) + name[k:] if rng.random() < 0.5 else name
        if rng.random() < 0.3:
            tail = rng.choice(['', './', '../', 'sub/../', '../root/', '..//', './/']) + tail
    head = rng.choice([prefix, prefix, prefix, prefix.rstrip('/'), prefix + '/', '/other/', prefix[:-2]])
    return head + tail


RANGES = [None, 'bytes=0-0', 'bytes=0-', 'bytes=-1', 'bytes=-0', 'bytes=5-2', 'bytes=a-b', 'bytes', 'bytes=',
          'bytes=-', 'items=0-3', 'bytes=0-0,2-3', 'items=0-0,2-3', '=0-1', 'bytes= 1-2', 'bytes=1 - 2',
          'bytes=+1-3', 'bytes=1-2-3', 'bytes=--1', 'bytes=1_0-', 'Bytes=0-1', 'bytes=00-01', 'bytes=\xb2-']


def gen_range(rng):
    x = rng.random()
    if x < 0.3:
        return None
    if x < 0.5:
        return rng.choice(RANGES)
    a, b = rng.randrange(0, 12), rng.randrange(0, 12)
    form = rng.choice(['%d-%d', '%d-', '-%d'])
    return 'bytes=' + (form % (a, b) if form.count('%') == 2 else form % a)


def all_plain_ranges():
    out = []
    for a in range(0, 12):
        out.append('bytes=%d-' % a)
        out.append('bytes=-%d' % a)
        for b in range(0, 12):
            out.append('bytes=%d-%d' % (a, b))
    return out


# ----------------------------------------------------------------------------- real code


def parse_range_real(falcon, testing, value):
    """-> wire range_hdr via the real Request.range_unit / Request.range."""
    if value is None:
        return [0]
    req = testing.create_req(headers={'Range': value})
    try:
        unit = req.range_unit
        if unit != 'bytes':
            return [2]
        first, last = req.range
        return [3, first, last]
    except falcon.HTTPInvalidHeader:
        return [1]


def classify(status, headers, body, opened, root):
    """Observed response -> the model's response wire value (file = the last file opened)."""
    f = opened[-1] if opened else ''
    if status == 404:
        return [404]
    if status == 400:
        return [400]
    if status == 304:
        return [304, f]
    cl = int(headers.get('content-length', -1))
    if status == 200:
        return [200, f, cl]
    if status == 206:
        cr = headers.get('content-range', '')
        try:
            rng, size = cr[len('bytes '):].split('/')
            s, e = rng.split('-')
            return [206, f, int(s), cl, [int(s), int(e), int(size)]]
        except ValueError:
            return [206, f, -1, cl, [-1, -1, -1]]
    if status == 416:
        cr = headers.get('content-range', '')
        try:
            return [416, f, int(cr[len('bytes */'):])]
        except ValueError:
            return [416, f, -1]
    return [status]


def main(ctx):
    import falcon
    import falcon.asgi
    from falcon import testing
    from falcon.routing.static import StaticRoute, StaticRouteAsync, _set_range, _BoundedFile
    install_hook()
    model = common.Model(ctx)
    quick = ctx.tier == 'quick'
    rng = ctx.rng
    ctx.cov['rule'] = ('case = one request (path x Range x If-Modified-Since x route configuration) against a real '
                       'temporary tree through WSGI/ASGI apps or the responder itself, or one string for the '
                       'normpath/strip/Range-parsing sub-correspondences; non-trivial = a file was opened or the '
                       'function output differs from its input')
    ctx.assumptions += ['POSIX (os.path = posixpath); the served tree has no symlinks',
                        'io.open/os.fstat: regular files only are served (a directory raises IOError)',
                        'If-Modified-Since formatting/parsing (falcon.util dt_to_http / http_date_to_dt) trusted',
                        'int() in Request.range is modelled on plain ASCII decimal offsets; other offset spellings '
                        'are parsed by the real Request and only the resulting tuple is given to the model']
    lib_corr(ctx, model, quick)
    range_corr(ctx, falcon, testing, model, quick)
    setrange_corr(ctx, model, _set_range, _BoundedFile, falcon)
    base, root, listing = build_tree()
    AUDIT['root'] = base
    EXTRA[:] = [p for p in listing if not p.startswith(root + '/')] + \
        [p[1:] for p in listing if not p.startswith(root + '/')]
    requests_corr(ctx, falcon, testing, model, base, root, listing, quick)
    for o in common.corpus('C16'):
        replay(ctx, o)


# ----------------------------------------------------------------------------- sub-correspondences


def lib_corr(ctx, model, quick):
    """normpath re-implementation vs os.path.normpath; strip().rstrip('.')."""
    strs = []
    for n in range(0, 8 if quick else 10):
        strs += [''.join(t) for t in itertools.product('./a', repeat=n)]
    for n in range(0, 6 if quick else 7):
        strs += [''.join(t) for t in itertools.product('./ab ', repeat=n) if 'b' in t or ' ' in t]
    for _ in range(3000 if quick else 30000):
        strs.append(''.join(ctx.rng.choice(['.', '..', '/', '//', 'a', 'bc', ' ', 'é', '-', '...'])
                            for _ in range(ctx.rng.randrange(0, 9))))
    outs = model.run_many([[0, s] for s in strs])
    bad = [(s, common.wstr(o), os.path.normpath(s)) for s, o in zip(strs, outs) if common.wstr(o) != os.path.normpath(s)]
    for s in strs:
        ctx.note_case(('np', s), os.path.normpath(s) != s)
    ctx.count('normpath', len(strs))
    if bad:
        ctx.violation('correspondence-broken', {'broken': 'C16.normpath_corr', 'input': bad[0][0], 'model': bad[0][1],
                                                'impl': bad[0][2], 'count': len(bad)}, found_input=False, key='normpath')
    # truncation of st_mtime: int(x) (repaired) and fromtimestamp(x).replace(microsecond=0) (as found)
    from fractions import Fraction
    xs = []
    for k in range(400 if quick else 4000):
        sec = 1_600_000_000 + ctx.rng.randrange(0, 1000)
        frac = ctx.rng.choice([0, 1e-6, 0.4, 0.5, 0.5000005, 0.4999995, 0.9, 0.999999, 0.9999994, 0.9999995,
                               0.9999996, 0.99999988, ctx.rng.random(), 0.0000005, 0.0000015, 0.0000025])
        xs.append(float(sec) + frac)
    outs = model.run_many([[8, Fraction(x).numerator, Fraction(x).denominator, []] for x in xs])
    for x, o in zip(xs, outs):
        old = int(datetime.datetime.fromtimestamp(x, datetime.timezone.utc).replace(microsecond=0).timestamp())
        ctx.note_case(('mt', x), old != int(x))
        if o[1] != int(x) or o[2] != old:
            ctx.violation('correspondence-broken', {'broken': 'C16.mtime_corr', 'x': repr(x), 'model': o[1:],
                                                    'impl': [int(x), old]}, found_input=False, key='mtime-corr')
    ctx.count('mtime-floats', len(xs))
    # basename / splitext
    names = strs[:6000] + ['a.tar.gz', '.bashrc', '..a', 'a..b', 'x/.y', 'x.d/y', 'a.', '.', '..', '...', 'a.b/', 'x/.a.b',
                           '.a.', 'é.ü', 'a.b.c/d']
    outs = model.run_many([[10, s] for s in names])
    bad = [(s, common.wstr(o[0]), common.wstr(o[1])) for s, o in zip(names, outs)
           if common.wstr(o[0]) != os.path.basename(s) or common.wstr(o[1]) != os.path.splitext(s)[1]]
    for s in names:
        ctx.note_case(('ext', s), bool(os.path.splitext(s)[1]))
    ctx.count('basename-splitext', len(names))
    if bad:
        ctx.violation('correspondence-broken', {'broken': 'C16.splitext_corr', 'input': bad[0][0],
                                                'model': list(bad[0][1:]),
                                                'impl': [os.path.basename(bad[0][0]), os.path.splitext(bad[0][0])[1]],
                                                'count': len(bad)}, found_input=False, key='splitext')
    # strip
    import sys as _sys
    ws = [chr(c) for c in range(_sys.maxunicode + 1) if chr(c).isspace()]
    sstrs = [w + 'a' for w in ws] + ['a' + w for w in ws] + ['a' + w + 'b' for w in ws]
    alpha = [' ', '\t', '.', 'a', '\xa0', '\x1f', ' ', '\x85', '​', '﻿', '\x00']
    for _ in range(3000 if quick else 30000):
        sstrs.append(''.join(ctx.rng.choice(alpha) for _ in range(ctx.rng.randrange(0, 7))))
    outs = model.run_many([[5, s] for s in sstrs])
    bad = [(s, common.wstr(o)) for s, o in zip(sstrs, outs) if common.wstr(o) != s.strip().rstrip('.')]
    for s in sstrs:
        ctx.note_case(('strip', s), s.strip().rstrip('.') != s)
    ctx.count('strip', len(sstrs))
    if bad:
        ctx.violation('correspondence-broken', {'broken': 'C16.strip_corr', 'input': [ord(c) for c in bad[0][0]],
                                                'model': bad[0][1], 'count': len(bad)}, found_input=False, key='strip')


def range_corr(ctx, falcon, testing, model, quick):
    """parse_range (plain decimal domain) vs Request.range_unit / Request.range."""
    vals = [v for v in RANGES if v is not None] + all_plain_ranges()
    for _ in range(2000 if quick else 20000):
        vals.append(''.join(ctx.rng.choice(['bytes', '=', '-', ',', '0', '1', '9', '12', ' ', 'items', 'b', '', '007'])
                            for _ in range(ctx.rng.randrange(0, 7))))
    # an HTTP server (and the test helpers) strip optional whitespace around a header value
    vals = [v.strip() for v in vals]
    outs = model.run_many([[3, v] for v in vals])
    nsome = 0
    for v, o in zip(vals, outs):
        ctx.note_case(('rg', v), bool(o))
        if not o:
            continue
        nsome += 1
        real = parse_range_real(falcon, testing, v)
        if o[0] != real:
            ctx.violation('correspondence-broken', {'broken': 'C16.parse_range_corr', 'value': v, 'model': o[0],
                                                    'impl': real}, found_input=False, key='parse-range')
    ctx.count('range-values', len(vals))
    ctx.count('range-values-in-plain-domain', nsome)


class _FH:
    """A file-like over bytes for _set_range/_BoundedFile (seek/read/close)."""

    def __init__(self, data):
        import io
        self.b = io.BytesIO(data)
        self.closed_ = False

    def seek(self, *a):
        return self.b.seek(*a)

    def read(self, n=-1):
        return self.b.read(n)

    def close(self):
        self.closed_ = True


class _ST:
    def __init__(self, size):
        self.st_size = size


def setrange_corr(ctx, model, _set_range, _BoundedFile, falcon):
    """_set_range + _BoundedFile.read for every (size 0..9, first, last) vs the model and the
    RFC oracle; the stream is read in chunks of every size 1..4 and in one go."""
    data = b'0123456789'
    cases = []
    for size in range(0, 10):
        cases.append((size, None))
        for a in range(-12, 13):
            for b in list(range(-1, 13)):
                # the encodings Request.range can produce: (first, last>=first), (first, -1), (-n, -1)
                if (a >= 0 and (b >= a or b == -1)) or (a < 0 and b == -1):
                    cases.append((size, (a, b)))
    outs = model.run_many([[4, size, ([] if rr is None else [[rr[0], rr[1]]])] for size, rr in cases])
    for (size, rr), m in zip(cases, outs):
        fh = _FH(data[:size])
        try:
            stream, length, cr = _set_range(fh, _ST(size), rr)
            if cr is None:
                real = [0, length]
                got = stream.read()
                seek = 0
            else:
                seek = cr[0]
                real = [1, seek, length, list(cr)]
                chunk = 1 + (size + (rr[0] if rr else 0)) % 4
                got = b''
                for _step in range(64):     # step budget: a 0..9-byte slice needs at most 10 reads
                    c = stream.read(chunk)
                    if not c:
                        break
                    got += c
                else:
                    ctx.violation('c16-hang', {'size': size, 'range': rr and list(rr), 'chunk': chunk,
                                               'what': '_BoundedFile.read(n) never returned an empty result'},
                                  key='c16-hang')
                got += stream.read()
            body_ok = got == data[:size][seek:seek + length] and len(got) == length
        except falcon.HTTPRangeNotSatisfiable as e:
            real = [2, int(e.headers['Content-Range'].split('/')[1])]
            body_ok = True
        ctx.note_case(('sr', size, rr), rr is not None)
        ctx.count('set_range')
        # oracle on the implementation's observation (valid encodings only)
        if rr is not None and ((rr[0] >= 0 and (rr[1] >= rr[0] or rr[1] == -1)) or (rr[0] < 0 and rr[1] == -1)):
            wire_resp = [200, '', real[1]] if real[0] == 0 else \
                ([206, '', real[1], real[2], real[3]] if real[0] == 1 else [416, '', real[1]])
            v = model.run([7, size, [3, rr[0], rr[1]], wire_resp])
            if not v[0] or not body_ok:
                ctx.violation('range-clause-violated', {'size': size, 'range': list(rr), 'impl': real,
                                                        'expected': v[1], 'body_ok': body_ok},
                              key='set-range-%s' % (real[0],))
        if real != m or not body_ok:
            ctx.violation('correspondence-broken', {'broken': 'C16.set_range_corr', 'size': size,
                                                    'range': rr and list(rr), 'impl': real, 'model': m,
                                                    'body_ok': body_ok},
                          found_input=any(v['found_input'] for v in ctx.violations), key='set-range-corr')


# ----------------------------------------------------------------------------- requests


def http_date(falcon, t):
    return falcon.dt_to_http(datetime.datetime.fromtimestamp(t, datetime.timezone.utc))


def requests_corr(ctx, falcon, testing, model, base, root, listing, quick):
    import falcon.asgi
    rng = ctx.rng
    configs = [
        ('/static', root, None, False),
        ('/static/', root, 'index.html', True),
        ('/s', root, os.path.join(base, 'secret.txt'), True),   # absolute fallback outside the directory
        ('/', root, None, False),
        ('/deep/er/', os.path.join(root, 'sub'), None, False),
        ('/t', root + '/', 'sub/inner.txt', True),
    ]
    apps = {}
    for ci, (prefix, d, fb, dl) in enumerate(configs):
        wa = falcon.App()
        wa.add_static_route(prefix, d, downloadable=dl, fallback_filename=fb)
        aa = falcon.asgi.App()
        aa.add_static_route(prefix, d, downloadable=dl, fallback_filename=fb)
        apps[ci] = (testing.TestClient(wa), testing.TestClient(aa), wa._static_routes[0][0], aa._static_routes[0][0])
    files_wire = [[p, v[0], v[4][0], v[4][1]] for p, v in sorted(listing.items())]

    def one(ci, path, range_value, ims, mode, method='GET'):
        """Run one request; -> (observed wire response, opened paths, raw)."""
        prefix, d, fb, dl = configs[ci]
        wc, ac, wsr, asr = apps[ci]
        headers = {}
        if range_value is not None:
            headers['Range'] = range_value
        if ims is not None:
            # an int is a date (seconds); a str is sent verbatim (malformed values)
            headers['If-Modified-Since'] = ims if isinstance(ims, str) else http_date(falcon, ims)
        with Recording() as ev:
            if mode == 'direct':
                # the responder itself, bypassing routing (req.path need not match the prefix)
                req = testing.create_req(path=path, headers=headers, method=method)
                resp = falcon.Response()
                try:
                    wsr(req, resp)
                    status = int(str(resp.status)[:3]) if not isinstance(resp.status, int) else resp.status
                    hd = {k.lower(): v for k, v in resp.headers.items()}
                    body = b''
                    if resp.stream is not None and status not in (304,):
                        body = resp.stream.read()
                        resp.stream.close()
                        hd['content-length'] = hd.get('content-length', str(len(body)))
                except falcon.HTTPError as e:
                    status = int(e.status[:3]) if isinstance(e.status, str) else int(e.status)
                    hd = {k.lower(): v for k, v in (e.headers or {}).items()}
                    body = b''
                except Exception as e:  # noqa: BLE001 - an unexpected exception is a 500
                    status, hd, body = 500, {'x-exception': type(e).__name__}, b''
            else:
                cl = wc if mode == 'wsgi' else ac
                r = cl.simulate_request(method, path, headers=headers)
                status, hd, body = r.status_code, {k.lower(): v for k, v in r.headers.items()}, r.content
            opened = list(ev)
        return status, hd, body, opened

    mtimes = sorted({v[1] for v in listing.values()})
    # ---- generated requests
    n = 3500 if quick else 35000
    cases = []
    for i in range(n):
        ci = rng.randrange(len(configs))
        prefix = configs[ci][0]
        pfx = prefix if prefix.endswith('/') else prefix + '/'
        path = gen_path(rng, pfx)
        if not path.startswith('/'):
            path = '/' + path
        path = encode_url(path, rng)
        rv = gen_range(rng) if rng.random() < 0.5 else None
        ims = rng.choice([None, None, None, MTIME - 5, MTIME + 10 ** 6, rng.choice(BAD_DATES),
                          rng.choice(mtimes) + rng.choice([-1, 0, 0, 1]),
                          rng.choice(mtimes) + rng.choice([-1, 0, 0, 1])])
        mode = ('direct', 'direct', 'wsgi', 'wsgi', 'asgi')[i % 5]
        cases.append((ci, path, rv, ims, mode))
    # every plain Range form against every file size, through both app kinds
    sized = sorted((v[0], p) for p, v in listing.items() if p.startswith(root + '/'))
    by_size = {}
    for sz, p in sized:
        by_size.setdefault(sz, p)
    plain = all_plain_ranges() if not quick else [r for k, r in enumerate(all_plain_ranges()) if k % 3 == 0]
    for sz, p in sorted(by_size.items()):
        rel = p[len(root) + 1:]
        for k, rv in enumerate(plain + [r for r in RANGES if r]):
            cases.append((0, '/static/' + rel, rv, None, ('wsgi', 'asgi', 'direct')[k % 3]))
    cases += combined_block(rng)
    for k, (ci, url, kind) in enumerate(long_block()):
        ctx.count('long-remainder')
        cases.append((ci, url, (None, 'bytes=0-0')[k % 2], None, ('wsgi', 'asgi', 'direct')[k % 3]))
    # If-Modified-Since just before / at / just after every file's mtime
    for p, v in sorted(listing.items()):
        if p.startswith(root + '/'):
            rel = p[len(root) + 1:]
            for k, dt in enumerate((-1, 0, 1)):
                cases.append((0, encode_url('/static/' + rel, rng), None, v[1] + dt, ('wsgi', 'asgi', 'direct')[k]))
                # the same second in every spelling the lenient date reader accepts
                for j, cls in enumerate(SPELLINGS):
                    text = spell(v[1] + dt, cls)
                    if ims_class(text) != ('date', v[1] + dt):
                        ctx.violation('correspondence-broken',
                                      {'broken': 'C16.date_spelling', 'text': text, 'class': cls, 'intended': v[1] + dt,
                                       'read_as': list(ims_class(text))}, found_input=False, key='date-spelling')
                        continue
                    ctx.count('ims-spelling-' + cls)
                    cases.append((0, encode_url('/static/' + rel, rng), None, text, ('wsgi', 'asgi', 'direct')[(k + j) % 3]))
    run_cases(ctx, falcon, testing, model, configs, one, cases, listing, files_wire, base, root)
    # OPTIONS
    st, hd, body, opened = one(0, '/static/a', None, None, 'wsgi', method='OPTIONS')
    ctx.note_case('options', False)
    if opened:
        ctx.violation('containment-violated', {'what': 'OPTIONS opened a file', 'opened': opened}, key='options')


MEDIA_TYPES = {}
ROUTES = {}
MAX_LEN = [512]
BAD_DATES = ['yesterday', 'Thu, 99 Foo 2020 25:61:61 GMT', '1600000000', 'Sun, 13 Sep 2020']
BAD_RANGES = ['bytes=x-y', 'bytes', 'bytes=5-2', 'bytes=0-0,2-3']


DAYS = ['Mon', 'Tue', 'Wed', 'Thu', 'Fri', 'Sat', 'Sun']
MONTHS = ['Jan', 'Feb', 'Mar', 'Apr', 'May', 'Jun', 'Jul', 'Aug', 'Sep', 'Oct', 'Nov', 'Dec']
SPELLINGS = ['canonical', 'one-digit', 'lower', 'upper', 'mixed-case', 'double-blank', 'tab', 'wrong-weekday',
             'gmt-lower', 'everything']
IMS_CACHE = {}


def spell(t, cls):
    """The second [t] as an If-Modified-Since value in one of the spellings falcon's lenient
    reader (datetime.strptime with '%a, %d %b %Y %H:%M:%S GMT') accepts."""
    d = datetime.datetime.fromtimestamp(t, datetime.timezone.utc)
    day, mon = DAYS[d.weekday()], MONTHS[d.month - 1]
    num = '%02d'
    sep, gmt = ' ', 'GMT'
    if cls in ('one-digit', 'everything'):
        num = '%d'
    if cls == 'lower':
        day, mon = day.lower(), mon.lower()
    if cls == 'upper':
        day, mon = day.upper(), mon.upper()
    if cls in ('mixed-case', 'everything'):
        day, mon = day[0].lower() + day[1:].upper(), mon[:2].upper() + mon[2:]
    if cls in ('double-blank', 'everything'):
        sep = '  '
    if cls == 'tab':
        sep = '\t'
    if cls in ('wrong-weekday', 'everything'):
        day = DAYS[(d.weekday() + 3) % 7] if cls == 'wrong-weekday' else day
    if cls in ('gmt-lower', 'everything'):
        gmt = 'gmt' if cls == 'gmt-lower' else 'Gmt'
    return ('%s,' + sep + num + sep + '%s' + sep + '%04d' + sep + num + ':' + num + ':' + num + sep + '%s') % (
        day, d.day, mon, d.year, d.hour, d.minute, d.second, gmt)


def ims_class(ims):
    """None | ('date', seconds) | ('bad',): an int is rendered canonically by the harness; a str is
    sent verbatim and read the way the framework's own date reader (falcon.util.http_date_to_dt,
    property C09) reads it."""
    if ims is None:
        return None
    if isinstance(ims, int):
        return ('date', ims)
    if ims not in IMS_CACHE:
        import falcon
        try:
            IMS_CACHE[ims] = ('date', int(falcon.util.http_date_to_dt(ims).timestamp()))
        except ValueError:
            IMS_CACHE[ims] = ('bad',)
    return IMS_CACHE[ims]


def wire_ims(ims):
    c = ims_class(ims)
    if c is None:
        return []
    return [1] if c[0] == 'bad' else [2, c[1]]


# requests that must be 404 whatever else they carry: every class of rejected or unresolvable path
NOT_FOUND_PATHS = [
    '/static/../secret.txt', '/static/%2e%2e/secret.txt', '/static/..%2fsecret.txt', '/static/sub/../../secret.txt',
    '/static/../root-evil/secret2', '/static//a', '/static/sub%2f%2fa', '/static//etc/passwd', '/static/sub%5ca',
    '/static/..%5csecret.txt', '/static/a%3fb', '/static/a*', '/static/a%00', '/static/%7ea', '/static/a%3ab',
    '/static/' + 'x' * 600, '/static/a.', '/static/a%20', '/static/%20a', '/static/nope.txt', '/static/sub',
    '/static/sub/', '/static/sub/deep', '/static/', '/static/.', '/static/a/b', '/static/%c2%85a', '/static/a%ef%bf%bd',
]
HEADER_COMBOS = [(None, None), (MTIME - 100, None), ('BAD', None), (None, 'bytes=0-1'), (None, 'BADR'), ('BAD', 'BADR'),
                 (MTIME + 10 ** 7, 'BADR'), ('BAD', 'bytes=0-1')]


def long_block():
    """Over-long RAW remainders (the length test is on req.path[len(prefix):], before normpath)
    that normalise to short existing / missing paths, at the boundary lengths 511/512/513 and
    beyond.  -> (config index, url path, kind)"""
    out = []
    for target in ('a', 'sub/inner.txt', 'nope.txt', 'index.html'):
        for total in (511, 512, 513, 514, 600, 1200, 2000):
            room = total - len(target)
            fillers = {
                'dot-slash': './' * (room // 2) + ('sub/../' if room % 2 else ''),
                'up-and-down': 'sub/../' * (room // 7) + './' * ((room % 7) // 2) + ('sub/../' if (room % 7) % 2 else ''),
            }
            for kind, fill in fillers.items():
                # exact raw length: trim the filler from the front in whole './' steps, pad with '.'-free 'sub/../'
                rem = fill + target
                while len(rem) > total:
                    rem = rem[2:] if rem.startswith('./') else rem[7:]
                while len(rem) < total:
                    rem = './' + rem
                if len(rem) != total:
                    rem = rem[1:] if rem.startswith('./') and len(rem) == total + 1 and False else rem
                for ci in (0, 1):
                    for enc in (False, True):
                        url = '/static/' + (rem.replace('./', '%2e/') if enc else rem)
                        out.append((ci, url, '%s-%d%s' % (kind, len(rem), '-enc' if enc else '')))
            # trailing '/.' (always rejected: the remainder ends with a dot) and doubled separators
            out.append((0, '/static/' + target + '/.' * ((total - len(target)) // 2), 'trailing-dot-%d' % total))
            out.append((0, '/static/' + 'sub//' * 3 + './' * ((total - len(target) - 15) // 2) + target, 'double-slash-%d' % total))
    return out


def combined_block(rng):
    """every not-found path class x header combination x {WSGI, ASGI, responder}; and existing
    files with malformed headers (documented outcome: 400, the date before the range)."""
    out = []
    for ci in (0, 1):                       # without and with a fallback file
        for p in NOT_FOUND_PATHS + ['/static/a', '/static/nine.txt', '/static/empty', '/static/sub/inner.txt']:
            for ims, rv in HEADER_COMBOS:
                ims = rng.choice(BAD_DATES) if ims == 'BAD' else ims
                rv = rng.choice(BAD_RANGES) if rv == 'BADR' else rv
                for mode in ('wsgi', 'asgi', 'direct'):
                    out.append((ci, p, rv, ims, mode))
    return out


def pfx_of(cfg):
    return cfg[0] if cfg[0].endswith('/') else cfg[0] + '/'


def real_route(ci):
    return ROUTES[ci]


def run_cases(ctx, falcon, testing, model, configs, one, cases, listing, files_wire, base, root):
    wires, obs = [], []
    if not MEDIA_TYPES:
        MEDIA_TYPES.update(falcon.ResponseOptions().static_media_types)
        from falcon.routing.static import StaticRoute as _SR
        MAX_LEN[0] = _SR._MAX_NON_PREFIXED_LEN
    if not ROUTES or ROUTES.get('configs') is not configs:
        from falcon.routing.static import StaticRoute
        ROUTES.clear()
        ROUTES['configs'] = configs
        for k, (prefix, d, fb, dl) in enumerate(configs):
            ROUTES[k] = StaticRoute(prefix, d, downloadable=dl, fallback_filename=fb)
    for ci, path, rv, ims, mode in cases:
        prefix, d, fb, dl = configs[ci]
        pfx = prefix if prefix.endswith('/') else prefix + '/'
        nd = os.path.normpath(d)
        fbn = None if fb is None else os.path.normpath(os.path.join(nd, fb))
        # what the framework hands to the responder as req.path (percent-decoded)
        req = testing.create_req(path=path)
        rpath = req.path
        matched = (rpath.startswith(pfx) or (fb is not None and rpath == pfx[:-1]))
        rh = parse_range_real(falcon, testing, rv)
        status, hd, body, opened = one(ci, path, rv, ims, mode)
        real_match = bool(real_route(ci).match(rpath))
        obs.append((status, hd, body, opened, rpath, matched, nd, fbn, rh, real_match))
        types = [[k, v] for k, v in MEDIA_TYPES.items() if k in rpath or (fbn is not None and k in fbn)]
        wires.append([9, [pfx, nd, ([] if fbn is None else [fbn]), dl], files_wire, 0, rpath,
                      wire_ims(ims), rh, types])
        wires.append([1, pfx, fb is not None, nd, rpath])
    outs = model.run_many(wires)
    corr_break = []
    contain_q, contain_meta = [], []
    resp_q, resp_meta = [], []
    nm_q, nm_meta = [], []
    hdr_q, hdr_meta = [], []
    nbad = 0
    for k, (case, o) in enumerate(zip(cases, obs)):
        ci, path, rv, ims, mode = case
        status, hd, body, opened, rpath, matched, nd, fbn, rh, real_match = o
        (m_serve, m_hdrs), m_san = outs[2 * k], outs[2 * k + 1]
        if bool(m_san[0]) != real_match and not any(d.get('broken') == 'C16.match_corr' for d in corr_break):
            corr_break.append({'broken': 'C16.match_corr', 'config': list(configs[ci]),
                               'req_path': [ord(c) for c in rpath], 'impl': real_match, 'model': bool(m_san[0])})
        ctx.note_case(('req', k), bool(opened))
        ctx.count('request-' + mode)
        ctx.count('status-%s' % status)
        detail = {'config': list(configs[ci]), 'path': path, 'req_path': [ord(c) for c in rpath], 'range': rv,
                  'if_modified_since': ims, 'mode': mode, 'status': status,
                  'headers': {h: hd.get(h) for h in ('content-range', 'content-length', 'content-type')},
                  'opened': opened}
        # (1) binding: containment oracle on every file opened inside the tree
        for p in opened:
            contain_q.append([6, nd, ([] if fbn is None else [fbn]), p])
            contain_meta.append((k, p, detail))
        if mode != 'direct' and not matched:
            # not routed to this static route at all: must not open anything and must be 404
            if opened or status != 404:
                ctx.violation('containment-violated', dict(detail, what='unmatched path served'), key='unmatched')
            continue
        # (2) model vs implementation
        got = classify(status, hd, body, opened, root)
        exp = m_serve
        exp_opened = []
        if m_san[1]:
            cand = common.wstr(m_san[1][0])
            exp_opened.append(cand)
            if cand not in listing and fbn is not None:
                exp_opened.append(fbn)
        exp_c = [exp[0]] + ([common.wstr(exp[1])] + exp[2:] if len(exp) > 1 else [])
        if got != exp_c or [os.path.normpath(p) if False else p for p in opened] != exp_opened:
            nbad += 1
            ctx.count('disagree')
            if nbad <= 1:
                corr_break.append(dict(detail, broken='C16.serve_corr', impl=got, model=exp_c,
                                       model_opens=exp_opened))
        # (2a) headers derived from the file that is actually served
        if m_hdrs and status in (200, 206):
            want_ct = common.wstr(m_hdrs[0][0])
            want_cd = None
            if m_hdrs[0][1]:
                tmp = falcon.Response()
                tmp.downloadable_as = common.wstr(m_hdrs[0][1][0])
                want_cd = tmp.get_header('Content-Disposition')
            ctx.count('headers-compared')
            if want_cd is not None:
                ctx.count('headers-with-disposition')
            if hd.get('content-type') != want_ct or hd.get('content-disposition') != want_cd:
                ctx.count('header-disagree')
                if not any(d.get('broken') == 'C16.headers_corr' for d in corr_break):
                    corr_break.append(dict(detail, broken='C16.headers_corr',
                                           impl=[hd.get('content-type'), hd.get('content-disposition')],
                                           model=[want_ct, want_cd]))
        # binding: the headers of a served file are those of the file that was actually opened
        if status in (200, 206) and opened:
            f = opened[-1]
            hdr_q.append([11, [pfx_of(configs[ci]), nd, ([] if fbn is None else [fbn]), configs[ci][3]],
                          [[k2, v2] for k2, v2 in MEDIA_TYPES.items() if k2 in f], f])
            hdr_meta.append((detail, hd))
        # binding: the fallback is served exactly when the sanitised candidate is not a regular file
        if (mode == 'direct' or matched) and m_san[1] and fbn is not None and fbn in listing:
            cand = common.wstr(m_san[1][0])
            served_fb = bool(opened) and opened[-1] == fbn and status in (200, 206, 304, 400, 416)
            if cand not in listing and not served_fb:
                ctx.violation('fallback-violated', dict(detail, what='candidate does not exist but the fallback '
                                                        'was not served', candidate=cand), key='fallback-missing')
            if cand in listing and cand != fbn and opened and opened[-1] == fbn:
                ctx.violation('fallback-violated', dict(detail, what='fallback served although the candidate exists',
                                                        candidate=cand), key='fallback-spurious')
        # (2b) binding: "anything else is a 404" - only the documented statuses, and 404 when no file was opened
        if status not in (200, 206, 304, 400, 404, 416) or (not opened and status != 404):
            ctx.violation('not-404', dict(detail, what='a request that served no file was not answered 404'),
                          key='not-404-%s' % status)
        # (2b') binding: an over-long RAW remainder is a 404 with nothing opened, whatever it normalises to
        if (mode == 'direct' or matched) and rpath.startswith(pfx_of(configs[ci])) \
                and len(rpath) - len(pfx_of(configs[ci])) > MAX_LEN[0] and (opened or status != 404):
            ctx.violation('over-long-served', dict(detail, raw_remainder_length=len(rpath) - len(pfx_of(configs[ci])),
                                                   what='an over-long request path was not answered 404'),
                          key='over-long')
        # (2c) binding: 400 only for a malformed date / range on a file that was really opened, and then always
        served_real = bool(opened) and opened[-1] in listing
        bad_date = ims_class(ims) == ('bad',)
        if status == 400 and not (served_real and (bad_date or rh == [1])):
            ctx.violation('not-404', dict(detail, what='400 although no file is served or no header is malformed'),
                          key='bad-400')
        if served_real and bad_date and status != 400 and (mode == 'direct' or matched):
            ctx.violation('bad-request-violated', dict(detail, what='malformed If-Modified-Since on a served file '
                                                       'was not answered 400'), key='bad-date-not-400')
        # (3) binding: RFC oracle + body bytes for served files
        if status in (200, 206, 416) and opened:
            f = opened[-1]
            if f in listing:
                size, data = listing[f][0], listing[f][2]
                resp_q.append([7, size, rh, got])
                resp_meta.append((k, detail, data, body, got))
        if status == 304 and body:
            ctx.violation('range-clause-violated', dict(detail, what='304 with a body'), key='304-body')
        # the date is evaluated before the range: a not-modified file is a 304 even with a malformed Range
        if status in (200, 206, 416, 304, 400) and opened and opened[-1] in listing and not bad_date:
            ent = listing[opened[-1]]
            # judged on the REAL modification time (st_mtime_ns), not on what the code made of it
            nm_q.append([8, ent[3], 10 ** 9, ([] if ims_class(ims) is None else [ims_class(ims)[1]])])
            nm_meta.append((dict(detail, st_mtime_ns=ent[3],
                                 float_mtime_rounds_up=(ent[4][0] // ent[4][1] > ent[1])), status, hd))
    verdicts = model.run_many(contain_q)
    for (k, p, detail), v in zip(contain_meta, verdicts):
        if not v:
            ctx.violation('containment-violated', dict(detail, outside=p,
                                                       what='a file outside the directory (and not the fallback) was opened'),
                          key='containment')
    verdicts = model.run_many(hdr_q)
    for (detail, hd), v in zip(hdr_meta, verdicts):
        want_ct = common.wstr(v[0])
        want_cd = None
        if v[1]:
            tmp = falcon.Response()
            tmp.downloadable_as = common.wstr(v[1][0])
            want_cd = tmp.get_header('Content-Disposition')
        if hd.get('content-type') != want_ct or hd.get('content-disposition') != want_cd:
            ctx.violation('headers-violated',
                          dict(detail, what='Content-Type / Content-Disposition are not those of the served file',
                               expected=[want_ct, want_cd],
                               impl=[hd.get('content-type'), hd.get('content-disposition')]),
                          key='headers-%s' % (hd.get('content-type') != want_ct))
    verdicts = model.run_many(nm_q)
    for (detail, status, hd), v in zip(nm_meta, verdicts):
        notmod, lm_sec = bool(v[0]), v[1]
        if notmod != (status == 304):
            ctx.violation('not-modified-violated',
                          dict(detail, what='304 expected: the file was last modified in second %d <= '
                               'If-Modified-Since' % lm_sec if notmod else '304 although the file is newer'),
                          key='not-modified-%s-%s' % (notmod, detail['float_mtime_rounds_up']))
        if status in (200, 206, 304):
            want = http_date(falcon, lm_sec)
            if hd.get('last-modified') != want:
                ctx.violation('last-modified-violated',
                              dict(detail, what='Last-Modified is not the modification time truncated to the second',
                                   expected=want, impl=hd.get('last-modified')),
                              key='last-modified-%s' % detail['float_mtime_rounds_up'])
    verdicts = model.run_many(resp_q)
    for (k, detail, data, body, got), v in zip(resp_meta, verdicts):
        ok = bool(v[0])
        e = v[1]
        if e[0] == 0:
            want = data
        elif e[0] == 1:
            want = data[e[1]:e[2] + 1]
        else:
            want = None
        if want is not None and body != want:
            ok = False
        if not ok:
            ctx.violation('range-clause-violated', dict(detail, impl=got, expected=e, body=list(body)[:20]),
                          key='range-%s' % e[0])
    for d in corr_break:
        # behaviour differs from the model; a failing input exists iff some oracle clause failed above
        ctx.violation('correspondence-broken', d, found_input=any(v['found_input'] for v in ctx.violations),
                      key='corr-' + d['broken'])
    if cases:
        c = cases[0]
        ctx.sample({'path': c[1], 'range': c[2], 'status': obs[0][0], 'opened': obs[0][3]})


def replay(ctx, obj):
    """Re-run one recorded request (config, path, range, if_modified_since, mode)."""
    import falcon
    import falcon.asgi
    from falcon import testing
    install_hook()
    if 'config' not in obj:
        return main(ctx)
    model = common.Model(ctx)
    base, root, listing = build_tree()
    AUDIT['root'] = base
    prefix, d, fb, dl = obj['config']
    # the recorded directory belongs to a tree that no longer exists: re-anchor it
    tail = d.split('/root', 1)[1] if '/root' in d else ''
    d = root + tail
    if fb and fb.startswith('/'):
        fb = os.path.join(base, os.path.basename(fb))
    configs = [(prefix, d, fb, dl)]
    wa = falcon.App()
    wa.add_static_route(prefix, d, downloadable=dl, fallback_filename=fb)
    aa = falcon.asgi.App()
    aa.add_static_route(prefix, d, downloadable=dl, fallback_filename=fb)
    wc, ac, wsr = testing.TestClient(wa), testing.TestClient(aa), wa._static_routes[0][0]
    files_wire = [[p, v[0], v[4][0], v[4][1]] for p, v in sorted(listing.items())]

    def one(ci, path, range_value, ims, mode, method='GET'):
        headers = {}
        if range_value is not None:
            headers['Range'] = range_value
        if ims is not None:
            # an int is a date (seconds); a str is sent verbatim (malformed values)
            headers['If-Modified-Since'] = ims if isinstance(ims, str) else http_date(falcon, ims)
        with Recording() as ev:
            cl = ac if mode == 'asgi' else wc
            r = cl.simulate_request(method, path, headers=headers)
            opened = list(ev)
        return r.status_code, {k.lower(): v for k, v in r.headers.items()}, r.content, opened

    mode = obj.get('mode', 'wsgi')
    if mode == 'direct':
        mode = 'wsgi'
    run_cases(ctx, falcon, testing, model, configs, one,
              [(0, obj['path'], obj.get('range'), obj.get('if_modified_since'), mode)], listing, files_wire, base, root)
