"""C13 — multipart forms parse to exactly the encoded parts, however consumed.

Forms are generated as lists of parts and encoded by the REFERENCE ENCODER of coq/C13/Spec.v
(extracted).  The bytes go through the real parsers
  * falcon.media.multipart.MultipartFormHandler.deserialize  (sync; over the real sync
    BufferedReader with a scripted short-reading source and small/default chunk sizes),
  * falcon.media.multipart.MultipartFormHandler.deserialize_async (falcon.asgi.multipart; over
    the real async BufferedReader with scripted chunkings incl. 1-byte and empty chunks),
  * end to end through falcon.App / falcon.asgi.App with the test client (subset),
under a consumption script and parse limits.  Judged by
  (a) oracle_roundtrip (Spec.v, extracted; proved to accept the model in Props.v): what the
      real parser yielded = the encoded parts (headers, exact bytes as consumed) and the
      expected final status, incl. limits at their thresholds           -- BINDING
  (b) name / filename (plain and RFC 5987) / content type as given to the encoder   -- BINDING
  (c) oracle_no_crash on every body incl. single-byte corruptions: only MultipartParseError,
      never another exception or a hang                                      -- BINDING
  (d) real parser = extracted model (parse_form over the flat cursor) on every body, valid or
      corrupted; sync = async                                      -- correspondence.
"""
import io
import json
import urllib.parse

import common

CTYPES = [None, b'text/plain', b'text/plain; charset=utf-8', b'text/plain; charset=latin-1',
          b'application/json', b'application/octet-stream', b'image/png', b'text/plain; charset=ascii',
          b'text/plain; charset="UTF-8"', b'Text/Plain', b'text/plain;charset=US-ASCII', b'application/json; charset=utf-8',
          b'application/x-www-form-urlencoded', b'text/plain; charset=ISO-8859-1', b'', b'*/*']


# ---------------------------------------------------------------- wire helpers

def w_action(a):
    if a[0] in ('skip', 'ops'):     # 'ops': several operations on the part, judged by ModelPartOps (op 11);
        return [0]                  # for the form-level model the part is then simply not consumed (parse_loop_skip)
    if a[0] == 'read':
        return [1, [] if a[1] is None else [a[1]]]
    if a[0] == 'get_data':
        return [2]
    return [3, a[1], [] if a[2] is None else [a[2]]]


def w_parts(parts):
    return [[[[n, v] for n, v in p['headers']], p['content']] for p in parts]


def w_cfg(cfg, body_len):
    # limits above anything the body can reach are capped (unary naturals in the model)
    cap = body_len + 10
    return [min(cfg[0], cap), min(cfg[1], cap), min(cfg[2], cap)]


def r_run(v):
    parts = []
    for hs, data in v[0]:
        parts.append(({bytes(k): bytes(x) for k, x in hs}, None if not data else bytes(data[0])))
    st = v[1]
    status = {0: ('done',), 1: ('failed', st[1] if len(st) > 1 else 0), 2: ('crash',), 3: ('fuel',)}[st[0]]
    return parts, status


def w_observed(parts, status):
    """implementation observation (header dict in insertion order, data) -> wire run"""
    st = {'done': [0], 'failed': [1, status[1] if len(status) > 1 else 0], 'crash': [2], 'hang': [3]}[status[0]]
    return [[[[[k, v] for k, v in hs.items()], [] if d is None else [d]] for hs, d in parts], st]


ERR = {'unexpected form structure': 1, 'incomplete body part headers': 2,
       'the deprecated Content-Transfer-Encoding header field is unsupported': 3,
       'maximum number of form body parts exceeded': 4, 'body part is too large': 5}


# ---------------------------------------------------------------- real parsers

class Hang(BaseException):
    pass


def _alarm(*a):
    raise Hang()


def guarded(f, *a, limit=None):
    """Run one case on the real code under a watchdog.  The budget is the CPU time of THIS process
    (ITIMER_PROF), not wall-clock time, so machine load cannot make it fire; the first-stage limit is
    max(5 s, 20 x the median case time of this run).  An expiry is never reported directly: the caller
    re-runs the case alone under CONFIRM_LIMIT (confirm_hang) and reports a hang only if it reproduces."""
    import signal
    import time
    if limit is None:
        ts = _TIMES
        med = sorted(ts)[len(ts) // 2] if len(ts) >= 50 else 0.0
        limit = max(5.0, 20.0 * med)
    signal.signal(signal.SIGPROF, _alarm)
    t0 = time.process_time()
    signal.setitimer(signal.ITIMER_PROF, limit)
    try:
        return f(*a)
    finally:
        signal.setitimer(signal.ITIMER_PROF, 0)
        if len(_TIMES) < 5000:
            _TIMES.append(time.process_time() - t0)


_TIMES = []
CONFIRM_LIMIT = 60.0      # CPU seconds of the re-run that must also expire before a hang is reported


def confirm_hang(ctx, is_hang, f, *a):
    """first-stage result -> final result: a watchdog expiry is re-run alone, fresh, under the generous
    limit; only a reproduced expiry stays a hang"""
    r = guarded(f, *a)
    if not is_hang(r):
        return r
    ctx.count('stall-retried')
    ctx.cov['stall_retried'] = ctx.cov.get('stall_retried', 0) + 1
    r2 = guarded(f, *a, limit=CONFIRM_LIMIT)
    if not is_hang(r2):
        ctx.count('stall-not-reproduced')
    return r2


class Src:
    def __init__(self, data, sched):
        self.data, self.sched, self.pos, self.i = data, sched, 0, 0

    def read(self, n=None):
        if n is None or n < 0:
            n = len(self.data)
        k = n if self.i >= len(self.sched) else min(n, self.sched[self.i] + 1)
        self.i += 1
        out = self.data[self.pos:self.pos + k]
        self.pos += len(out)
        return out


def step(coro):
    try:
        coro.send(None)
    except StopIteration as e:
        return e.value
    coro.close()
    raise RuntimeError('coroutine suspended')


async def agen(chunks):
    for c in chunks:
        yield c


def trusted_headers(part):
    """the header dictionary the parser built (bytes -> bytes), if it is still kept in that
    form; None otherwise (then only the public attributes are compared)"""
    hs = getattr(part, '_headers', None)
    if isinstance(hs, dict) and all(isinstance(k, bytes) and isinstance(v, bytes) for k, v in hs.items()):
        return dict(hs)
    return None


def r_ares(v, f):
    if v[0] == 0:
        return f(v[1])
    return ('raises', 'MultipartParseError') if v[0] == 1 else ('need',)


def r_view(v):
    """decoded model view [content_type; name; filename] -> the python values the attributes must have"""
    opt = lambda o: common.wstr(o[0]) if o else None
    return {'content_type': r_ares(v[0], common.wstr), 'name': r_ares(v[1], opt), 'filename': r_ares(v[2], opt)}


def public_view(part):
    """public, header-derived attributes; an exception class is an observation"""
    out = {}
    for attr in ('content_type', 'name', 'filename', 'secure_filename'):
        try:
            out[attr] = getattr(part, attr)
        except Exception as e:  # noqa: BLE001
            out[attr] = ('raises', type(e).__name__)
    return out


POP_W = {'read': 0, 'get_data': 1, 'get_text': 2, 'get_media': 3}


def w_pop(o):
    return [0, [] if o[1] is None else [o[1]]] if o[0] == 'read' else [POP_W[o[0]]]


def r_pres(v):
    t = v[0]
    if t == 0:
        return ('bytes', bytes(v[1]))
    if t == 1:
        return ('text', common.wstr(v[1][0]) if v[1] else None)
    if t == 2:
        return ('media', v[1])
    if t == 6:
        return ('handler_error', v[1])
    return ({3: 'too_large', 4: 'bad_text', 5: 'bad_header', 7: 'unsupported', 8: 'need'}[t],)


class Recorder:
    """media handlers installed into parse_options.media_handlers: they record what BodyPart.get_media
    delegates (handler, content type, bytes read) and then behave like the built-in handler"""

    def __init__(self):
        self.log, self.objs, self.oks = [], [], []

    def make(self, mods, hid, real, exhaust):
        rec = self

        class H(mods['BaseHandler']):
            exhaust_stream = exhaust

            def _finish(self, content_type, data):
                rec.log.append((hid, content_type, data))
                try:
                    obj = real.deserialize(io.BytesIO(data), content_type, len(data))
                except Exception:
                    rec.oks.append(False)
                    rec.objs.append(None)
                    raise
                rec.oks.append(True)
                rec.objs.append(obj)
                return obj

            def deserialize(self, stream, content_type, content_length):
                return self._finish(content_type, stream.read())

            async def deserialize_async(self, stream, content_type, content_length):
                return self._finish(content_type, await stream.read())

        return H()


def do_ops(part, ops, variant, run, asyn, mods, rec, base):
    """several operations on one part; every outcome (value or exception class) is an observation"""
    out = []
    for j, o in enumerate(ops):
        alt = (variant + j) % 2
        n0 = len(rec.log)
        try:
            if o[0] == 'read':
                r = part.stream.read() if o[1] is None else part.stream.read(o[1])
                out.append(('bytes', run(r) if asyn else r))
            elif o[0] == 'get_data':
                r = part.data if alt else part.get_data()
                out.append(('bytes', run(r) if asyn else r))
            elif o[0] == 'get_text':
                r = part.text if alt else part.get_text()
                out.append(('text', run(r) if asyn else r))
            else:
                r = part.media if alt else part.get_media()
                obj = run(r) if asyn else r
                ks = [k - base for k, x in enumerate(rec.objs) if k >= base and x is obj and rec.oks[k]]
                out.append(('media', ks[0] if ks else -1))
        except mods['MPE'] as e:
            d = e.description or ''
            out.append(('too_large',) if d == 'body part is too large' else
                       ('bad_text',) if d.startswith('invalid text or charset') else
                       ('bad_header',) if 'Content-Type header' in d else ('parse_error', d))
        except mods['Unsupported']:
            out.append(('unsupported',))
        except Hang:
            raise
        except Exception as e:  # noqa: BLE001
            if len(rec.log) > n0:
                out.append(('handler_error', len(rec.log) - 1 - base))
            else:
                out.append(('raises', type(e).__name__))
    return out


def do_action(part, act, variant, run):
    """returns the bytes the application obtained from the part (None for skip)"""
    k = act[0]
    if k == 'skip':
        return None
    if k == 'read':
        if act[1] is None:
            v = variant % 3
            if v == 1 and act[3] == 'json':
                media = run(part.get_media()) if act[4] else part.get_media()
                assert media == json.loads(act[5].decode()), ('get_media', media)
                return act[5]
            return run(part.stream.read()) if act[4] else part.stream.read()
        return run(part.stream.read(act[1])) if act[4] else part.stream.read(act[1])
    if k == 'get_data':
        v = variant % 3
        if v == 0:
            return run(part.get_data()) if act[4] else part.get_data()
        if v == 1:
            return run(part.data) if act[4] else part.data
        if act[3] == 'text':
            text = run(part.get_text()) if act[4] else part.get_text()
            return text.encode(act[5])
        return run(part.get_data()) if act[4] else part.get_data()
    if act[4]:
        return run(part.stream.read_until(act[1], -1 if act[2] is None else act[2]))
    return part.stream.read_until(act[1], -1 if act[2] is None else act[2])


def annotate(script, parts):
    """attach to each action what the harness needs to pick an API variant (not sent to the model)"""
    out = []
    for i, a in enumerate(script):
        kind, extra = None, None
        if i < len(parts):
            p = parts[i]
            ct = p.get('ctype')
            if ct is not None and ct.startswith(b'application/json') and p.get('json'):
                kind, extra = 'json', p['content']
            elif ct is None or ct.startswith(b'text/plain'):
                cs = 'utf-8'
                if ct and b'charset=' in ct:
                    cs = ct.split(b'charset=')[1].decode()
                try:
                    if p['content'].decode(cs).encode(cs) == p['content']:
                        kind, extra = 'text', cs
                except Exception:  # noqa: BLE001
                    pass
        out.append((a, kind, extra))
    return out


def act_tuple(a, kind, asyn, extra):
    if a[0] == 'read':
        return ('read', a[1], None, kind, asyn, extra)
    if a[0] == 'get_data':
        return ('get_data', None, None, kind, asyn, extra)
    if a[0] == 'read_until':
        return ('read_until', a[1], a[2], kind, asyn, extra)
    return ('skip',)


HANDLER_KEYS = [b'application/json', b'application/x-www-form-urlencoded']


def run_form(mods, case, asyn):
    """iterate the real parser under the script; returns (parts, status, views)"""
    handler = mods['Handler']()
    o = handler.parse_options
    o.max_body_part_count, o.max_body_part_headers_size, o.max_body_part_buffer_size = case['cfg']
    rec = Recorder()
    for hid, key in enumerate(HANDLER_KEYS):      # recording wrappers of the built-in part handlers
        o.media_handlers[key.decode()] = rec.make(mods, hid, o.media_handlers[key.decode()], exhaust=bool(hid))
    body = case['body']
    script = annotate(case['script'], case.get('parts') or [])
    parts, views, status = [], [], ('done',)
    opres = {}
    times = case.get('times') or []
    kept = []
    try:
        if asyn:
            if case['cs']:
                stream = mods['AR'](agen(case['chunks']), chunk_size=case['cs'])
            else:
                stream = agen(case['chunks'])
            form = step(handler.deserialize_async(stream, case['content_type'], len(body)))
            it = form.__aiter__()
        else:
            src = Src(body, case['sched'])
            stream = mods['SR'](src.read, len(body), case['cs']) if case['cs'] else src
            form = handler.deserialize(stream, case['content_type'], len(body))
            it = iter(form)
        i = 0
        while True:
            try:
                part = step(it.__anext__()) if asyn else next(it)
            except (StopIteration, StopAsyncIteration):
                break
            hs = trusted_headers(part)
            # WHEN the metadata is read is part of the script: before / after the content, only after
            # the whole form was iterated (the part objects are kept), or twice (current + at the end)
            when = times[i] if i < len(times) else 'before'
            reads = []
            views.append(reads)
            kept.append((part, when, reads))
            if when in ('before', 'twice'):
                reads.append(public_view(part))
            a, kind, extra = script[i] if i < len(script) else (('skip',), None, None)
            if a[0] == 'ops':
                base = len(rec.log)
                res = do_ops(part, a[1], i + case.get('variant', 0), step, asyn, mods, rec, base)
                opres[i] = (res, list(rec.log[base:]), list(rec.oks[base:]))
            try:
                data = do_action(part, act_tuple(a, kind, asyn, extra), i + case.get('variant', 0), step)
            except mods['MPE']:
                parts.append((hs, None))
                raise
            parts.append((hs, data))
            if when == 'after':
                reads.append(public_view(part))
            i += 1
    except mods['MPE'] as e:
        status = ('failed', ERR.get(e.description, 0), e.description if e.description not in ERR else None)
    except Hang:
        status = ('hang',)
    except Exception as e:  # noqa: BLE001
        status = ('crash', type(e).__name__, str(e)[:100])
    if status[0] in ('done', 'failed'):
        for part, when, reads in kept:          # the late reads, after the iteration is over
            if when in ('end', 'twice'):
                reads.append(public_view(part))
    return parts, status, views, opres


# ---------------------------------------------------------------- generators

BCHARS = b"ABCDEFGHIJKLMNOPQRSTUVWXYZabcdefghijklmnopqrstuvwxyz0123456789'()+_,-./:=?"
TOKEN = b"ABCDEFGHIJKLMNOPQRSTUVWXYZabcdefghijklmnopqrstuvwxyz0123456789-_."


def gen_boundary(rng):
    style = rng.random()
    if style < 0.25:
        n = rng.choice([1, 1, 2, 3])
    elif style < 0.9:
        n = rng.randint(4, 40)
    else:
        n = rng.choice([69, 70])
    alpha = TOKEN if rng.random() < 0.7 else BCHARS
    if rng.random() < 0.3:
        alpha = b'-' * 3 + b'ab'
    return bytes(rng.choice(alpha) for _ in range(n))


def content_type_for(b):
    s = b.decode('ascii')
    if all(c in TOKEN.decode() for c in s):
        return 'multipart/form-data; boundary=' + s
    return 'multipart/form-data; boundary="%s"' % s


def gen_content(rng, b):
    style = rng.random()
    if style < 0.15:
        return b''
    if style < 0.3:
        return json.dumps(rng.choice([{'a': 1}, [1, 2, 'x'], 'str', 7, {'k': ['v', None]}])).encode()
    alpha = rng.choice([b'ab\r\n-', b'a\r\n-' + b[:2], bytes(range(256)), b'abc '])
    pieces = []
    for _ in range(rng.randint(0, 6)):
        pieces.append(bytes(rng.choice(alpha) for _ in range(rng.randint(0, 20))))
        pieces.append(rng.choice([b'', b'\r\n', b'\r\n--', b'\r\n--' + b[:-1], b'--' + b, b'\r', b'\n--' + b,
                                  b'\r\n-' + b, b'\r\n--' + b[:max(0, len(b) - 2)]]))
    return b''.join(pieces)


def ext_value(s):
    return "UTF-8''" + urllib.parse.quote(s, safe='')


NAMES = ['a', 'field', 'file1', 'x y', 'n-1', '', 'Ünï', 'a;b', 'a=b; c', " it's ", '日本 語', 'tab\there', 'q?*', '\x85edge\xa0',
         'semi;colon;', 'e\u0301', '\U0001f600']
FNAMES = ['f.txt', 'my file.bin', 'ünïcode.txt', '', '.hidden', 'a;b=c.txt', '日本語.pdf', 'Bold Digit \U0001d7cf', 'x' * 40,
          '..', 'sp ace ', 'Ångström unit.pdf', "o'neil.txt", '100%.txt', 'a%41b']


def gen_field(rng, b):
    """a form field in the domain of the reference encoder (SpecPart.wf_field): name / filename are
    arbitrary Unicode strings without double quote, backslash, CR, LF"""
    name = rng.choice(NAMES)
    fn = None
    if rng.random() < 0.6:
        f = rng.choice(FNAMES)
        fn = (bool(f) and rng.random() < 0.4, f)
    ctype = rng.choice(CTYPES)
    content = gen_content(rng, b)
    is_json = False
    if ctype == b'application/json':
        content = json.dumps(rng.choice([{'a': 1}, [1, 2, 'x'], 'str', 7, {'k': ['v', None]}])).encode()
        is_json = True
    return {'name': name, 'fn': fn, 'ctype0': ctype, 'content': content, 'json0': is_json}


def w_field(f):
    return [f['name'], [] if f['fn'] is None else [[f['fn'][0], f['fn'][1]]],
            [] if f['ctype0'] is None else [f['ctype0']], f['content']]


def decorate(rng, f, headers):
    """variations the parser must see through (they do not change what the part presents, except a
    duplicate Content-Type, where the last one wins): header-name case, ignored headers, order"""
    headers = [[bytes(n), bytes(v)] for n, v in headers]
    for h in headers:
        h[0] = rng.choice([h[0], h[0].lower(), h[0].upper()])
    ctype, is_json = f['ctype0'], f['json0']
    if rng.random() < 0.2:
        headers.insert(rng.randint(0, len(headers)), [b'X-Custom', b'ignored: value'])
    if rng.random() < 0.1:
        headers.append([b'Content-Transfer-Encoding', b'binary'])
    if rng.random() < 0.05:
        headers.append([b'Content-Type', b'text/plain'])   # duplicate: last wins
    rng.shuffle(headers)
    eff = None
    for n, v in headers:
        if n.lower() == b'content-type':
            eff = v
    return {'headers': headers, 'content': f['content'], 'name': f['name'],
            'filename': None if f['fn'] is None else f['fn'][1],
            'ctype': eff, 'json': is_json and eff == b'application/json'}


def gen_script(rng, parts, cs_eff, valid=False):
    script = []
    for p in parts:
        x = rng.random()
        n = len(p['content'])
        if valid and rng.random() < 0.3:
            pool = [('get_data',), ('get_text',), ('get_media',), ('get_media',), ('get_text',),
                    ('read', None), ('read', rng.choice([0, 1, 3, n]))]
            script.append(('ops', [rng.choice(pool) for _ in range(rng.randint(1, 4))]))
        elif x < 0.2:
            script.append(('skip',))
        elif x < 0.45:
            script.append(('read', None))
        elif x < 0.65:
            script.append(('read', rng.choice([0, 1, 2, max(0, n - 1), n, n + 1, rng.randint(0, n + 2)])))
        elif x < 0.9:
            script.append(('get_data',))
        else:
            d = rng.choice([b'\r\n', b'\n', b'-', b'--', b'a'])
            if len(d) <= cs_eff:
                script.append(('read_until', d, rng.choice([None, 0, 1, 5, n])))
            else:
                script.append(('read', None))
    return script


def gen_cfg(rng, parts, script):
    cfg = [64, 8192, 1024 * 1024]
    x = rng.random()
    if x < 0.5:
        return cfg
    n = len(parts)
    if x < 0.65:
        cfg[0] = max(0, n + rng.choice([-1, 0, 0, 1]))
    elif x < 0.8 and parts:
        p = rng.choice(parts)
        L = sum(len(h) + 2 + len(v) + 2 for h, v in p['headers']) - 2
        cfg[1] = max(0, L + rng.choice([-1, 0, 0, 1]))
    elif parts:
        p = rng.choice(parts)
        cfg[2] = max(0, len(p['content']) + rng.choice([-1, 0, 0, 1]))
    return cfg


def gen_transport(rng, body, b, asyn):
    dl = len(b) + 4
    x = rng.random()
    if x < 0.35:
        cs = None                                   # default chunk size, reader created by the form
    elif x < 0.7:
        cs = max(dl, 4) + rng.choice([0, 0, 1, 2, 5])      # as small as the delimiter allows
    else:
        cs = max(dl, 4) + rng.choice([8, 30, 100, 1000])
    t = {'cs': cs}
    style = rng.choice([0, 1, 2, 3])
    if asyn:
        chunks, i = [], 0
        while i < len(body):
            k = [1, rng.choice([0, 1, 2, 3]), rng.choice([1, 7, 50, 400]), len(body)][style]
            chunks.append(body[i:i + k])
            i += k
        t['chunks'] = chunks
    else:
        n = len(body)
        t['sched'] = [[0] * (n + 3), [rng.choice([0, 1, 2, 4]) for _ in range(rng.randint(0, 60))],
                      [rng.choice([0, 6, 40, 300]) for _ in range(rng.randint(0, 30))], []][style]
    return t


# ---------------------------------------------------------------- judging

pending_corr = []


def expected_view(p):
    ct = p['ctype'].decode('ascii') if p['ctype'] is not None else 'text/plain'
    return {'content_type': ct, 'name': p['name'], 'filename': p['filename']}


def jsonable(x):
    if isinstance(x, (bytes, bytearray)):
        return {'b': list(x)}
    if isinstance(x, (list, tuple)):
        return [jsonable(y) for y in x]
    if isinstance(x, dict):
        return {(k.decode('latin-1') if isinstance(k, bytes) else k): jsonable(v) for k, v in x.items()}
    return x


def unjson(x):
    if isinstance(x, dict) and set(x) == {'b'}:
        return bytes(x['b'])
    if isinstance(x, list):
        return [unjson(y) for y in x]
    if isinstance(x, dict):
        return {k: unjson(v) for k, v in x.items()}
    return x


def case_detail(case, which):
    d = {k: case[k] for k in ('body', 'content_type', 'cfg', 'script', 'cs', 'variant', 'times') if k in case}
    d['boundary'] = case['boundary']
    for k in ('chunks', 'sched', 'parts', 'pre', 'epi', 'fin', 'edit'):
        if k in case:
            d[k] = case[k]
    return {'parser': which, 'case': jsonable(d)}


def judge(ctx, which, case, impl, model_run, oracle):
    parts, status, views, opres = impl
    detail = case_detail(case, which)
    bad = False
    if status[0] in ('crash', 'hang'):
        bad = True
        ctx.violation('%s-multipart-%s' % (which, 'hangs' if status[0] == 'hang' else 'raises-other-exception'),
                      dict(detail, status=list(status), parts_before=jsonable(parts),
                           what='iterating the form raised something else than MultipartParseError'),
                      key='%s-%s-%s' % (which, status[0], status[1] if len(status) > 1 else ''))
    elif status[0] == 'failed' and status[1] == 0:
        ctx.advisory.append({'unclassified MultipartParseError': status[2]})
    flat_views = [(i, v) for i, reads in enumerate(views) for v in reads]
    flat_k = [(i, k) for i, reads in enumerate(views) for k, _ in enumerate(reads)]
    for i, v in flat_views:
        for attr, val in v.items():
            if isinstance(val, tuple) and val[0] == 'raises' and val[1] != 'MultipartParseError':
                bad = True
                ctx.violation('%s-bodypart-attribute-raises-other-exception' % which,
                              dict(detail, part=i, attribute=attr, exception=val[1], headers=jsonable(parts[i][0])
                                   if i < len(parts) else None),
                              key='%s-attr-%s-%s' % (which, attr, val[1]))
    if case.get('valid'):
        if oracle is not None and not oracle[0] and not bad:
            bad = True
            exp = case.get('expected')
            ctx.violation('%s-multipart-roundtrip' % which,
                          dict(detail, impl_parts=jsonable(parts), impl_status=list(status), expected=jsonable(exp),
                               what='the parsed form is not the encoded one (parts, bytes as consumed, or final status)'),
                          key='%s-roundtrip' % which)
        if not bad:
            when = case.get('times') or []
            for (i, v), (_, k) in zip(flat_views, flat_k):
                ev = dict(expected_view(case['parts'][i]), secure_filename=case['coq_secure'][i])
                cr = case['coq_reads'][i]
                # a read that the real run performed late (k-th read of this part); when the run stopped
                # early the 'end' read of 'twice' is the model's second one
                cv = dict(cr[min(k, len(cr) - 1)], secure_filename=case['coq_secure'][i])
                if v != ev or v != cv:
                    bad = True
                    ctx.violation('%s-bodypart-name-filename-content-type' % which,
                                  dict(detail, part=i, metadata_read=when[i] if i < len(when) else 'before',
                                       impl=jsonable(v), encoded=jsonable(ev), coq_view=jsonable(cv),
                                       what='BodyPart.content_type/.name/.filename/.secure_filename differ from the '
                                            'encoded field (= view_of of the expected headers, C13_form_roundtrip)'),
                                  key='%s-view' % which)
                    break
        if not bad:
            for i, (res, log, oks) in sorted(opres.items()):
                exp = case.get('coq_ops', {}).get(i)
                if exp is None:
                    continue
                eres, elog = exp
                for j, (x, y) in enumerate(zip(res, eres)):
                    if y == ('need',):
                        ctx.count('partop-outside-model-domain')
                        continue
                    if x != y:
                        bad = True
                        break
                if not bad and len(res) == len(eres) and all(y != ('need',) for y in eres) and log != elog:
                    bad = True
                if bad:
                    ctx.violation('%s-bodypart-operations' % which,
                                  dict(detail, part=i, ops=jsonable(case['script'][i][1]), impl=jsonable(res),
                                       model=jsonable(eres), impl_handler_log=jsonable(log), model_handler_log=jsonable(elog),
                                       what='get_data/get_text/get_media/stream.read on one part: results, caching or the '
                                            'delegation to the media handler differ from ModelPartOps.prun'),
                                  key='%s-partops' % which)
                    break
    elif not bad and case.get('model_views') is not None:
        # corrupted body: the attributes must be what ModelPart computes from the header dictionary
        for i, v in flat_views:
            mv = case['model_views'][i] if i < len(case['model_views']) else None
            if mv is None:
                continue
            cmpv = {k: v[k] for k in ('content_type', 'name', 'filename')}
            if any(x == ('need',) for x in mv.values()):
                ctx.count('view-outside-model-domain')
                continue
            if cmpv != mv:
                pending_corr.append((which + '-view', dict(detail, part=i, impl=jsonable(cmpv), model=jsonable(mv),
                                                           broken='C13.%s_bodypart_attribute_corr' % which)))
                break
    if not bad and model_run is not None:
        mparts, mstatus = model_run
        ist = status[:2] if status[0] == 'failed' else status[:1]
        if mparts != parts or mstatus != ist:
            pending_corr.append((which, dict(detail, impl_parts=jsonable(parts), impl_status=list(status),
                                             model_parts=jsonable(mparts), model_status=list(mstatus),
                                             broken='C13.%s_parser_model_corr' % which)))
            return 'model'
    return 'spec' if bad else None


def flush_corr(ctx):
    found = any(v['found_input'] for v in ctx.violations)
    seen = set()
    for which, detail in pending_corr:
        if which in seen:
            continue
        seen.add(which)
        ctx.violation('correspondence-broken', detail, found_input=found, key='corr-' + which)
    del pending_corr[:]


# ---------------------------------------------------------------- driving

def cs_eff(case, asyn):
    if case['cs']:
        return case['cs']
    return 8192 if asyn else 32768


def build_valid_cases(ctx, model, n):
    """forms from the reference encoder (wf by construction: checked with the extracted wf_form)"""
    rng = ctx.rng
    raw = []
    for _ in range(n):
        b = gen_boundary(rng)
        nparts = rng.choice([0, 1, 1, 2, 2, 3, 4, 6])
        fields = [gen_field(rng, b) for _ in range(nparts)]
        pre = rng.choice([b'', b'', b'preamble\r\n', b'--', b'--' + b[:-1] + b'\r\n', b'\r\n', b'x\r\n--x'])
        epi = rng.choice([b'', b'', b'epilogue', b'\r\n--' + b + b'\r\nContent-Disposition: form-data; name="ghost"\r\n\r\nboo\r\n--' + b + b'--\r\n'])
        fin = rng.random() < 0.7
        raw.append({'boundary': b, 'fields': fields, 'pre': pre, 'epi': epi, 'fin': fin})
    # fields -> parts through the Coq encoder SpecPart.field_part (+ its domain check wf_field)
    fp = model.run_many([[9, c['boundary'], [w_field(f) for f in c['fields']]] for c in raw])
    for c, out in zip(raw, fp):
        c['fields_wf'] = all(x[1] == 1 for x in out)
        c['parts'] = [decorate(rng, f, x[0][0]) for f, x in zip(c['fields'], out)]
    ctx.count('fields-not-wf', sum(1 for c in raw if not c['fields_wf']))
    raw = [c for c in raw if c['fields_wf']]
    wf = model.run_many([[3, 100000, c['boundary'], c['pre'], w_parts(c['parts'])] for c in raw])
    keep = [c for c, ok in zip(raw, wf) if ok == 1]
    ctx.count('generated-not-wf', len(raw) - len(keep))
    bodies = model.run_many([[1, w_parts(c['parts']), c['boundary'], c['pre'], c['epi'], c['fin']] for c in keep])
    for c, body in zip(keep, bodies):
        c['body'] = bytes(body)
        c['content_type'] = content_type_for(c['boundary'])
        c['valid'] = True
    attach_coq_views(model, keep)
    return keep


def attach_coq_views(model, keep):
    """per valid case: what each part must present, computed on the Coq side"""
    # what each part must present, from the Coq side: view_of (expect_headers ...) (ModelPart/SpecPart;
    # proved equal to the field by C13_form_roundtrip for undecorated parts)
    big = [0, 100000, 10]
    exp = model.run_many([[2, 100000, big, w_parts(c['parts']), []] for c in keep])
    flat = [hs for e in exp for hs, _ in e[0]]
    views = iter(model.run_many([[7, hs] for hs in flat]))
    for c, e in zip(keep, exp):
        c['coq_views'] = [r_view(next(views)) for _ in e[0]]
        c['exp_headers'] = [hs for hs, _ in e[0]]
    # secure_filename of the encoded filename (NFKD supplied by CPython, see ModelPart.secure_filename)
    import unicodedata
    sw, where = [], []
    for c in keep:
        c['coq_secure'] = []
        for i, p in enumerate(c['parts']):
            fn = p['filename'] or ''
            c['coq_secure'].append(None)
            sw.append([8, fn, unicodedata.normalize('NFKD', fn)])
            where.append((c, i))
    for (c, i), out in zip(where, model.run_many(sw)):
        c['coq_secure'][i] = common.wstr(out[0]) if out else ('raises', 'MultipartParseError')


def specialise(rng, base, asyn):
    c = dict(base)
    c.update(gen_transport(rng, c['body'], c['boundary'], asyn))
    c['script'] = gen_script(rng, c.get('parts') or [{'content': b''}] * 3, cs_eff(c, asyn), bool(c.get('valid')))
    c['cfg'] = gen_cfg(rng, c.get('parts') or [], c['script'])
    c['variant'] = rng.randint(0, 2)
    nparts = max(len(c.get('parts') or []), 3)
    style = rng.random()
    if style < 0.2:
        c['times'] = ['end'] * nparts          # parts = list(form); inspect afterwards
        if rng.random() < 0.5:
            c['script'] = [('skip',)] * nparts
    elif style < 0.3:
        c['times'] = ['twice'] * nparts
    else:
        c['times'] = [rng.choice(['before', 'after', 'end', 'twice']) for _ in range(nparts)]
    return c


def run_batch(ctx, mods, model, cases, asyn, tag):
    which = 'async' if asyn else 'sync'
    impls = [confirm_hang(ctx, lambda r: r[1][0] == 'hang', run_form, mods, c, asyn) for c in cases]
    wires = []
    for c in cases:
        wires.append([0, cs_eff(c, asyn) if cs_eff(c, asyn) < 3000 else len(c['body']) + 100,
                      w_cfg(c['cfg'], len(c['body'])), c['boundary'], [w_action(a) for a in c['script']], c['body']])
    mruns = [r_run(v) for v in model.run_many(wires)]
    # the same parser loop running on the modelled buffered readers of C14 (ModelReaders.v): must
    # agree with the cursor-level model (C13_multipart_chunking_independent) and with the real code
    rwires = []
    for c, w in zip(cases, wires):
        if asyn:
            rwires.append([6, w[1], w[2], w[3], w[4], [list(x) for x in c['chunks']]])
        else:
            rwires.append([5, w[1], w[2], w[3], w[4], w[5], c['sched']])
    rruns = [r_run(v) for v in model.run_many(rwires)]
    for c, mr, rr in zip(cases, mruns, rruns):
        if mr != rr:
            ctx.violation('reader-model-vs-cursor-model', dict(case_detail(c, which), cursor_model=jsonable(mr),
                                                                reader_model=jsonable(rr),
                                                                broken='C13.multipart_chunking_independent'),
                          found_input=False, key='rm-' + which)
            break
    for im, mr in zip(impls, mruns):
        for j, (hs, d) in enumerate(im[0]):
            if hs is None:   # the private header dict is gone: headers are judged via the public view only
                im[0][j] = (mr[0][j][0] if j < len(mr[0]) else {}, d)
                ctx.cov['headers_via_public_view_only'] = True
    # corrupted bodies: attributes predicted by ModelPart from the MODEL's header dictionaries
    vw, vwhere = [], []
    for c, mr in zip(cases, mruns):
        if c.get('valid'):
            continue
        c['model_views'] = []
        for j, (hs, _) in enumerate(mr[0]):
            cd = hs.get(b'content-disposition', b'')
            try:
                latin1 = all(ord(ch) < 256 for ch in cd.decode('utf-8'))
            except UnicodeDecodeError:
                latin1 = True
            c['model_views'].append(None)
            if latin1:      # C11's parse_header model is stated for latin-1 header strings
                vw.append([7, [[k, v] for k, v in hs.items()]])
                vwhere.append((c, j))
    for (c, j), out in zip(vwhere, model.run_many(vw)):
        c['model_views'][j] = r_view(out)
    # valid forms: the views each metadata read must return, from the extracted ModelHeap.metadata_views
    # (one dictionary per part; C13_metadata_read_time_independent: = view of the part's own headers)
    tcode = {'before': 0, 'after': 1, 'end': 2, 'twice': 3}
    vcases = [c for c in cases if c.get('valid')]
    mv = model.run_many([[10, c['exp_headers'], [tcode[t] for t in (c.get('times') or [])][:len(c['exp_headers'])]]
                         for c in vcases])
    for c, out in zip(vcases, mv):
        c['coq_reads'] = [[r_view(v) for v in reads] for reads in out]
    # valid forms, parts consumed by several operations: ModelPartOps.prun on the expected headers and the
    # encoded content, with the handler outcomes [hok] observed in the real run
    pw, pwhere = [], []
    for c, im in zip(cases, impls):
        if not c.get('valid') or im[1][0] in ('crash', 'hang'):
            continue
        c['coq_ops'] = {}
        for i, (res, log, oks) in im[3].items():
            if i >= len(c['parts']):
                continue
            content = c['parts'][i]['content']
            pw.append([11, min(c['cfg'][2], len(content) + 10), 'utf-8',
                       [[k, hid] for hid, k in enumerate(HANDLER_KEYS)], oks, c['exp_headers'][i], content,
                       [w_pop(o) for o in c['script'][i][1]]])
            pwhere.append((c, i))
    for (c, i), out in zip(pwhere, model.run_many(pw)):
        c['coq_ops'][i] = ([r_pres(v) for v in out[0]],
                           [(hid, common.wstr(ct), bytes(inp)) for hid, ct, inp in out[1]])
    owires, oidx = [], []
    for i, (c, im) in enumerate(zip(cases, impls)):
        if c.get('valid') and im[1][0] in ('done', 'failed'):
            owires.append([4, wires[i][1], wires[i][2], w_parts(c['parts']), [w_action(a) for a in c['script']],
                           w_observed(im[0], im[1])])
            oidx.append(i)
    oracles = dict(zip(oidx, model.run_many(owires)))
    ewires = [[2, wires[i][1], wires[i][2], w_parts(cases[i]['parts']), [w_action(a) for a in cases[i]['script']]]
              for i in oidx if not oracles[i][0]]
    exps = iter(model.run_many(ewires))
    for i in oidx:
        if not oracles[i][0]:
            cases[i]['expected'] = r_run(next(exps))
    for i, (c, im, mr) in enumerate(zip(cases, impls, mruns)):
        v = judge(ctx, which, c, im, mr, oracles.get(i))
        key = (tag, which, c['body'], repr(c['script']), repr(c['cfg']), repr(c.get('chunks') or c.get('sched')), c['cs'])
        ctx.note_case(key, bool(im[0]) or im[1][0] != 'done')
        ctx.count('%s-%s' % (which, tag))
        ctx.count('status:' + (im[1][0] + (':%s' % im[1][1] if im[1][0] == 'failed' else '')))
        if v:
            ctx.count('disagree-' + v)
    return impls


def corrupt(rng, base):
    """single-byte edits of a small valid body"""
    body = base['body']
    out = []
    for _ in range(3):
        i = rng.randrange(len(body))
        k = rng.choice(['replace', 'delete', 'insert'])
        byte = rng.choice([0x0d, 0x0a, 0x2d, 0x3a, 0x20, 0x61, 0x00, 0xff, 0x22, 0x3b])
        if k == 'replace':
            nb = body[:i] + bytes([byte]) + body[i + 1:]
        elif k == 'delete':
            nb = body[:i] + body[i + 1:]
        else:
            nb = body[:i] + bytes([byte]) + body[i:]
        if nb == body:
            continue
        c = {'boundary': base['boundary'], 'content_type': base['content_type'], 'body': nb, 'valid': False,
             'edit': [k, i, byte], 'nparts': len(base['parts'])}
        out.append(c)
    return out


def all_edits(base):
    """EVERY single-byte edit (delete; replace by / insert CR, LF, '-', 0xff) of a small valid body"""
    body = base['body']
    for i in range(len(body)):
        variants = [('delete', 0, body[:i] + body[i + 1:])]
        for byte in (0x0d, 0x0a, 0x2d, 0xff):
            variants.append(('replace', byte, body[:i] + bytes([byte]) + body[i + 1:]))
            variants.append(('insert', byte, body[:i] + bytes([byte]) + body[i:]))
        for k, byte, nb in variants:
            if nb != body:
                yield {'boundary': base['boundary'], 'content_type': base['content_type'], 'body': nb,
                       'valid': False, 'edit': [k, i, byte], 'nparts': len(base['parts'])}


def load_mods():
    from falcon.media.multipart import MultipartFormHandler, MultipartParseError
    from falcon.util.reader import BufferedReader as SR
    from falcon.asgi.reader import BufferedReader as AR
    from falcon.media.base import BaseHandler
    from falcon import HTTPUnsupportedMediaType
    return {'Handler': MultipartFormHandler, 'MPE': MultipartParseError, 'SR': SR, 'AR': AR,
            'BaseHandler': BaseHandler, 'Unsupported': HTTPUnsupportedMediaType}


def main(ctx):
    mods = load_mods()
    model = common.Model(ctx)
    for o in common.corpus('C13'):
        replay(ctx, o)
    quick = ctx.tier == 'quick'
    ctx.cov['rule'] = ('a case = (body, transport chunking/short reads, reader chunk size, consumption script, limits); '
                       'distinct cases only; non-trivial = at least one part was yielded or the parse failed')
    ctx.assumptions.append('name/filename/content_type of valid forms are compared with what the generator encoded '
                           '(falcon.util.mediatypes.parse_header itself is C11\'s subject)')
    n_forms = 1500 if quick else 15000
    bases = build_valid_cases(ctx, model, n_forms)
    for asyn in (False, True):
        cases = []
        for b in bases:
            cases.append(specialise(ctx.rng, b, asyn))
            if len(b['body']) < 400:
                cases.append(specialise(ctx.rng, b, asyn))
        run_batch(ctx, mods, model, cases, asyn, 'valid')
        bad = []
        for b in bases:
            if len(b['body']) < 300:
                for c in corrupt(ctx.rng, b):
                    bad.append(specialise(ctx.rng, c, asyn))
        run_batch(ctx, mods, model, bad, asyn, 'corrupted')
        small = [b for b in bases if 40 < len(b['body']) < 160 and b['parts']][: (3 if quick else 120)]
        edits = []
        for b in small:
            for c in all_edits(b):
                edits.append(specialise(ctx.rng, c, asyn))
        run_batch(ctx, mods, model, edits, asyn, 'every-single-byte-edit')
    e2e(ctx, mods, bases[: (40 if quick else 400)])
    flush_corr(ctx)
    ctx.sample({'content_type': bases[0]['content_type'], 'body': repr(bases[0]['body'][:200])})


def e2e_clients():
    import falcon
    import falcon.asgi
    from falcon import testing

    class Res:
        def on_post(self, req, resp):
            out = []
            for part in req.get_media():
                out.append([part.name, part.filename, part.content_type, part.stream.read().hex()])
            resp.media = out

    class ARes:
        async def on_post(self, req, resp):
            out = []
            async for part in await req.get_media():
                out.append([part.name, part.filename, part.content_type, (await part.stream.read()).hex()])
            resp.media = out

    app, aapp = falcon.App(), falcon.asgi.App()
    app.add_route('/f', Res())
    aapp.add_route('/f', ARes())
    return (('wsgi', testing.TestClient(app)), ('asgi', testing.TestClient(aapp)))


def e2e_one(ctx, which, cl, body, content_type, exp):
    """one request through a real app; exp = expected [[name, filename, content_type, hex]] or None for
    a damaged body (then only 200/400 are acceptable)"""
    r = cl.simulate_post('/f', body=body, headers={'Content-Type': content_type})
    ctx.note_case(('e2e', which, body, content_type), True)
    ctx.count('e2e-' + which)
    detail = {'parser': 'e2e-' + which, 'content_type': content_type,
              'case': jsonable({'body': body, 'content_type': content_type, 'expected': exp}),
              'status_code': r.status_code}
    if exp is not None:
        ok = r.status_code == 200 and r.json == exp
        if not ok:
            ctx.violation('e2e-multipart-roundtrip', dict(detail, got=r.text[:500], expected=exp),
                          key='e2e-%s-%s' % (which, r.status_code))
        return ok
    if r.status_code not in (200, 400):
        ctx.violation('e2e-truncated-body-not-400', dict(detail, got=r.text[:300]), key='e2e-400-' + which)
    return True


def e2e(ctx, mods, bases):
    """through real apps: req.get_media() on WSGI and ASGI, errors must become HTTP 400"""
    for which, cl in e2e_clients():
        for b in bases:
            exp = [[p['name'], p['filename'], expected_view(p)['content_type'], p['content'].hex()]
                   for p in b['parts']]
            if e2e_one(ctx, which, cl, b['body'], b['content_type'], exp):
                e2e_one(ctx, which, cl, b['body'][: max(0, len(b['body']) - 3)], b['content_type'], None)


def replay(ctx, obj):
    mods = load_mods()
    model = common.Model(ctx)
    if 'case' not in obj:
        return main(ctx)
    c = unjson(obj['case'])
    c['script'] = [tuple(a) for a in c['script']]
    c['valid'] = 'parts' in c
    if c.get('parts'):
        for p in c['parts']:
            p['headers'] = [[bytes(n), bytes(v)] for n, v in p['headers']]
    asyn = obj.get('parser') == 'async'
    if obj.get('parser', '').startswith('e2e'):
        for which, cl in e2e_clients():
            if obj['parser'] in ('e2e', 'e2e-' + which):
                e2e_one(ctx, which, cl, c['body'], c['content_type'], c.get('expected'))
        ctx.note_case('replay-pad', True)
        return
    c.setdefault('cs', None)
    if c['valid']:
        attach_coq_views(model, [c])
    if asyn:
        c.setdefault('chunks', [c['body']])
    else:
        c.setdefault('sched', [])
    run_batch(ctx, mods, model, [c], asyn, 'replay')
    ctx.note_case('replay-pad', True)
    if ctx.replay:
        flush_corr(ctx)
