"""C11 — content negotiation (falcon.mediatypes quality / best_match, req.client_accepts /
client_prefers) and media-handler resolution (falcon.media.Handlers) vs the Coq model
(coq/C11/Model.v), with the proved oracles of coq/C11/Spec.v evaluated on what the
implementation returned."""
import io
import itertools
import json
import math
import sys
from fractions import Fraction

import common

TYPES = ['text', 'application', 'image', '*', 'TEXT', 'x']
SUBTYPES = ['html', 'json', 'plain', '*', 'xml', 'vnd.api+json', 'JSON']
PARAMS = ['charset=utf-8', 'charset=UTF-8', 'level=1', 'level=2', 'version="1.0"', 'k="a;b"', 'k="a\\"b"', 'k=a',
          'Charset=utf-8', 'level = 1', 'k=""', 'k="x', 'flag', '=v', 'k="a\\\\"',
          'k="x,y"', 'k="x, text/html;q=0.9"', 'k="x\\",y"', 'k="x\\\\",y="z"', 'b="a,b', 'k=","', 'k="a\\,b"',
          'boundary="ab,cd"']
QVALS = ['0', '1', '0.5', '0.001', '1.000', '0.', '.5', '0.9999', '0.8', '0.80', '1.5', '-0.1', 'abc', '', '1e-1',
         'inf', 'nan', '0_1', '0.1234567890123456789', '٠.٥'.encode('utf-8').decode('latin-1'), ' 0.5 ',
         '+0.5', '-0', '0.3', '0.30000000000000004', '"0.7"', '1.', '00.5', '0.0']
BAD_MEMBERS = ['text', '', '/', 'a/b/c', ';q=1', '*', ' ', 'text/', '/html']


def gen_media_type(rng, with_q=False):
    r = rng.random()
    if r < 0.06:
        return rng.choice(BAD_MEMBERS)
    s = rng.choice(TYPES) + rng.choice(['/', '/', ' / ']) + rng.choice(SUBTYPES)
    for _ in range(rng.choice([0, 0, 0, 1, 1, 2])):
        s += rng.choice([';', '; ', ' ;']) + rng.choice(PARAMS)
    if with_q and rng.random() < 0.6:
        s += rng.choice([';', '; ']) + rng.choice(['q=', 'q=', 'Q=', 'q = ']) + rng.choice(QVALS)
        if rng.random() < 0.15:
            s += ';' + rng.choice(PARAMS)
    return s


def gen_header(rng):
    n = rng.choice([1, 1, 2, 2, 3, 4, 5])
    return rng.choice([',', ', ', ' , ']).join(gen_media_type(rng, True) for _ in range(n))


def cfg(table):
    """model configuration: the repaired (quote-aware) range-list splitting + the float() table"""
    return [True, table]


def float_oracle(s):
    try:
        v = float(s)
    except (TypeError, ValueError):
        return []
    if not math.isfinite(v):
        return []
    n, d = v.as_integer_ratio()
    return [[n, d]]


def oracle_table(mediatypes, strings):
    """q strings occurring in the given headers (found with the implementation's own parse_header,
    which is compared with the model separately) -> CPython's float() answer."""
    t = {}
    for h in strings:
        if h is None:
            continue
        members = set(h.split(','))
        if hasattr(mediatypes, '_split_media_ranges'):
            members |= set(mediatypes._split_media_ranges(h))
        for member in members:
            try:
                _, params = mediatypes.parse_header(member)
            except Exception:  # noqa: BLE001
                continue
            if 'q' in params:
                t[params['q']] = float_oracle(params['q'])
    return [[[k, v] for k, v in t.items()]]


def fq(v):
    n, d = float(v).as_integer_ratio()
    return [n, d]


def err_of(falcon, e):
    from falcon import errors
    if type(e) is errors.InvalidMediaRange:
        return 1
    if type(e) is errors.InvalidMediaType:
        return 0
    return 3


def m_res(v, f=lambda x: x):
    if v[0] == 0:
        return ('ok', f(v[1]))
    return ('err', v[1])


def q_float(v):
    return float(Fraction(v[0], v[1]))


disagreements = []


def disagree(key, detail):
    disagreements.append((key, detail))


# --------------------------------------------------------------------------- negotiation

TIE_QS = [None, '0', '0.2', '0.5', '0.9', '1', '0.20']


def with_q(member, q):
    return member if q is None else member + ';q=' + q


def levels_for(cand_main, cand_sub, cand_params):
    """Members that match the candidate, by specificity level (most specific first); several
    spellings per level so that duplicates need not be textually equal."""
    base = cand_main + '/' + cand_sub
    lv = []
    if cand_params:
        lv.append([base + ';' + cand_params, base + '; ' + cand_params, base + ' ;' + cand_params])
    lv.append([base, ' ' + base, base + ' '] if not cand_params else [base])
    lv.append([cand_main + '/*'])
    lv.append(['*/*', '*'])
    return lv


def tie_cases(rng, n_random):
    """Headers in which 2-3 members are EQUALLY specific for the candidate (at every specificity level:
    exact with parameters, exact bare, type/*, */*) with distinct q values in every order, q=0 first and
    last included; with and without less specific members around them and a competing candidate."""
    out = []
    cands_pool = [('text', 'html', ''), ('text', 'html', 'level=1'), ('application', 'json', 'charset=utf-8'),
                  ('image', 'png', '')]
    # exhaustive block: every level x every ordered pair of distinct q values
    for (m, sub, prm) in cands_pool:
        cand = m + '/' + sub + (';' + prm if prm else '')
        for lv in levels_for(m, sub, prm):
            for qa in TIE_QS:
                for qb in TIE_QS:
                    if qa == qb:
                        continue
                    a = with_q(lv[0], qa)
                    b = with_q(lv[-1] if len(lv) > 1 else lv[0], qb)
                    out.append((a + ', ' + b, [cand]))
                    out.append((a + ', text/plain;q=0.3, ' + b, ['text/plain', cand]))
    # random block: 2-3 tied members at one level, distractors at the other levels, competing candidates
    for _ in range(n_random):
        m, sub, prm = rng.choice(cands_pool)
        cand = m + '/' + sub + (';' + prm if prm else '')
        lvls = levels_for(m, sub, prm)
        li = rng.randrange(len(lvls))
        qs = rng.sample(TIE_QS, rng.choice([2, 3]))
        members = [with_q(rng.choice(lvls[li]), q) for q in qs]
        for lj, lv in enumerate(lvls):
            if lj != li and rng.random() < 0.5:
                members.insert(rng.randint(0, len(members)), with_q(rng.choice(lv), rng.choice(TIE_QS)))
        other = rng.choice(['text/plain', 'application/xml', 'text/html', 'image/*'])
        if rng.random() < 0.6:
            members.insert(rng.randint(0, len(members)), with_q(other, rng.choice(TIE_QS)))
        cands = [cand, other] if rng.random() < 0.5 else [other, cand]
        if rng.random() < 0.3:
            cands.append(m + '/' + sub)
        out.append((rng.choice([', ', ',', ' , ']).join(members), cands))
    return out


def check_negotiation(ctx, model, falcon, n):
    from falcon import mediatypes
    from falcon import testing
    rng = ctx.rng
    cases = []
    meta = []
    inputs = []
    for i in range(n):
        header = gen_header(rng)
        cands = [gen_media_type(rng) for _ in range(rng.choice([0, 1, 2, 3, 3, 4]))]
        if rng.random() < 0.3:
            cands = [c for c in ['application/json', 'text/html', 'text/plain; charset=utf-8', 'application/xml']
                     if rng.random() < 0.7]
        inputs.append((header, cands))
    inputs += tie_cases(rng, n // 2)
    for header, cands in inputs:
        table = oracle_table(mediatypes, [header])
        quals = []
        for c in cands:
            try:
                quals.append(('ok', mediatypes.quality(c, header)))
            except Exception as e:  # noqa: BLE001
                quals.append(('err', err_of(falcon, e), type(e).__name__))
        try:
            best = ('ok', mediatypes.best_match(cands, header) or None)
        except Exception as e:  # noqa: BLE001
            best = ('err', err_of(falcon, e), type(e).__name__)
        hdr_present = rng.random() < 0.9
        req = testing.create_req(headers={'Accept': header} if hdr_present else {})
        try:
            prefers = ('ok', req.client_prefers(cands))
        except Exception as e:  # noqa: BLE001
            prefers = ('err', 3, type(e).__name__)
        accepts = []
        for c in cands:
            try:
                accepts.append(('ok', req.client_accepts(c)))
            except Exception as e:  # noqa: BLE001
                accepts.append(('err', 3, type(e).__name__))
        idx0 = len(cases)
        for c in cands:
            cases.append([0, cfg(table), c, header])            # quality with the float oracle (exact)
            cases.append([0, cfg([]), c, header])               # quality with the decimal float model only
        cases.append([1, cfg(table), cands, header])
        # falcon.testing strips header values: the request sees header.strip()
        cases.append([3, cfg(table), [header.strip()] if hdr_present else [], cands])
        for c in cands:
            cases.append([2, cfg(table), [header.strip()] if hdr_present else [], c])
        # oracles on the implementation's values
        for c, qv in zip(cands, quals):
            if qv[0] == 'ok':
                cases.append([7, cfg(table), c, header, fq(qv[1])])
        if all(qv[0] == 'ok' for qv in quals) and best[0] == 'ok':
            cases.append([8, [[c, fq(qv[1])] for c, qv in zip(cands, quals)], [] if best[1] is None else [best[1]]])
        meta.append((idx0, header, cands, quals, best, prefers, accepts, hdr_present))
    outs = model.run_many(cases)
    for (idx0, header, cands, quals, best, prefers, accepts, hdr_present) in meta:
        k = idx0
        ctx.count('negotiation')
        nontrivial = any(q[0] == 'ok' and 0 < q[1] < 1 for q in quals)
        ctx.note_case(('neg', header, tuple(cands)), nontrivial)
        base = {'header': header, 'candidates': cands}
        for c, qv in zip(cands, quals):
            mo = m_res(outs[k])
            mdec = m_res(outs[k + 1])
            k += 2
            if qv[0] == 'err' and qv[1] == 3:
                ctx.violation('undocumented-exception',
                              dict(base, what='mediatypes.quality raised %s (documented: InvalidMediaType / '
                                              'InvalidMediaRange)' % qv[2], media_type=c), key='exc-quality')
                continue
            if mo[0] == 'err' and mo[1] == 2:
                disagree('oracle-keys', dict(base, what='model asked for a float oracle entry the harness did not '
                                                        'provide (parse_header differs?)', media_type=c))
                continue
            same = (qv[0] == mo[0]) and (qv[1] == mo[1] if qv[0] == 'err' else q_float(mo[1]) == qv[1])
            if not same:
                disagree('quality', dict(base, what='mediatypes.quality differs from the model', media_type=c,
                                         impl=repr(qv), model=repr(mo)))
            # the decimal model of float(): whenever it does not ask for the oracle it must agree
            if not (mdec[0] == 'err' and mdec[1] == 2):
                ctx.count('float-decimal-domain')
                same = (qv[0] == mdec[0]) and (qv[1] == mdec[1] if qv[0] == 'err' else q_float(mdec[1]) == qv[1])
                if not same:
                    disagree('float-model', dict(base, what='quality computed with the exact-decimal model of '
                                                            'float() differs from the implementation',
                                                 media_type=c, impl=repr(qv), model=repr(mdec)))
        mb = m_res(outs[k], lambda v: common.wopt(v, common.wstr))
        k += 1
        mp = m_res(outs[k], lambda v: common.wopt(v, common.wstr))
        k += 1
        if best[0] == 'err' and best[1] == 3:
            ctx.violation('undocumented-exception', dict(base, what='mediatypes.best_match raised %s' % best[2]),
                          key='exc-best')
        elif best[:2] != mb[:2]:
            disagree('best_match', dict(base, what='mediatypes.best_match differs from the model', impl=repr(best),
                                        model=repr(mb)))
        if prefers[0] == 'err':
            ctx.violation('undocumented-exception', dict(base, what='req.client_prefers raised %s' % prefers[2]),
                          key='exc-prefers')
        elif prefers[:2] != mp[:2]:
            disagree('client_prefers', dict(base, what='req.client_prefers differs from the model', impl=repr(prefers),
                                            model=repr(mp), accept_present=hdr_present))
        for c, a in zip(cands, accepts):
            ma = m_res(outs[k], bool)
            k += 1
            if a[0] == 'err':
                ctx.violation('undocumented-exception', dict(base, what='req.client_accepts raised %s' % a[2],
                                                             media_type=c), key='exc-accepts')
            elif a[:2] != ma[:2]:
                disagree('client_accepts', dict(base, what='req.client_accepts differs from the model', media_type=c,
                                                impl=repr(a), model=repr(ma), accept_present=hdr_present))
        for c, qv in zip(cands, quals):
            if qv[0] == 'ok':
                ok = outs[k]
                k += 1
                if ok == 0:
                    ctx.violation('quality-not-most-specific',
                                  dict(base, what='quality() is not the q of a most specific matching range (or 0 when '
                                                  'none matches)', media_type=c, impl=qv[1]), key='q-spec')
        if all(qv[0] == 'ok' for qv in quals) and best[0] == 'ok':
            ok = outs[k]
            k += 1
            if not ok:
                ctx.violation('best-match-not-first-maximal',
                              dict(base, what='best_match is not the first candidate of maximal positive quality',
                                   qualities=[qv[1] for qv in quals], impl=best[1]), key='best-spec')
    # second pass: judge best_match / client_prefers / client_accepts against the qualities the RULE
    # gives (the model's, proved by quality_spec), not against the implementation's own qualities
    cases2, meta2 = [], []
    for (idx0, header, cands, quals, best, prefers, accepts, hdr_present) in meta:
        mq = [m_res(outs[idx0 + 2 * j]) for j in range(len(cands))]
        if not cands or any(q[0] != 'ok' for q in mq):
            continue
        pairs = [[c, list(q[1])] for c, q in zip(cands, mq)]
        if best[0] == 'ok':
            cases2.append([8, pairs, [] if best[1] is None else [best[1]]])
            meta2.append(('best_match', header, cands, best[1], None))
        if prefers[0] == 'ok' and hdr_present and header.strip() not in ('', '*/*'):
            cases2.append([8, pairs, [] if prefers[1] is None else [prefers[1]]])
            meta2.append(('client_prefers', header, cands, prefers[1], None))
        if hdr_present and header.strip() not in ('', '*/*'):
            for c, q, a in zip(cands, mq, accepts):
                if a[0] == 'ok' and header.strip() != c:
                    want = q[1][0] != 0
                    if a[1] != want:
                        ctx.violation('client-accepts-differs-from-rule',
                                      {'what': 'req.client_accepts(%r) is %r but the quality the matching rule gives is '
                                               '%s/%s' % (c, a[1], q[1][0], q[1][1]), 'header': header,
                                       'candidates': cands}, key='accepts-rule')
    for (what, header, cands, got, _), ok in zip(meta2, model.run_many(cases2)):
        if not ok:
            ctx.violation('best-match-not-first-maximal',
                          {'what': '%s is not the first candidate of maximal positive quality under the matching rule'
                                   % what, 'header': header, 'candidates': cands, 'impl': got}, key='rule-' + what)
    ctx.sample({'header': meta[0][1], 'candidates': meta[0][2], 'best_match': repr(meta[0][4])})


def check_parse_header(ctx, model, falcon, quick):
    from falcon import mediatypes
    rng = ctx.rng
    vals = [''.join(t) for n in range(0, (5 if quick else 6) + 1) for t in itertools.product('a;="\\ ', repeat=n)]
    for _ in range(1500 if quick else 15000):
        vals.append(gen_media_type(rng, True))
    vals += ['text/html; k="a;b"; x=1', 'a/b;k="\\\\";z=1', 'A/B; K = V ;;; =x; y', ';', 'a;b=c=d', 'a; b="c"d"',
             'a;\xc0=\xc9', 'a;k="\\"";x="y']
    outs = model.run_many([[4, v] for v in vals])
    for v, out in zip(vals, outs):
        try:
            impl = mediatypes.parse_header(v)
        except Exception as e:  # noqa: BLE001
            ctx.violation('undocumented-exception', {'what': 'parse_header raised %s' % type(e).__name__, 'line': v},
                          key='exc-parse-header')
            continue
        mod = (common.wstr(out[0]), {common.wstr(k): common.wstr(x) for k, x in out[1]})
        ctx.count('parse_header')
        ctx.note_case(('ph', v), bool(impl[1]))
        if impl != mod:
            disagree('parse_header', {'what': 'parse_header differs from the model', 'line': v, 'impl': repr(impl),
                                      'model': repr(mod)})


def check_split(ctx, model, falcon, quick):
    """The splitting of the range list: all strings <= 6 (thorough 7) over `a , " \\ ;` plus generated
    headers, through the public `quality` (a/b against the header) and, when present, the helper."""
    from falcon import mediatypes
    rng = ctx.rng
    vals = [''.join(t) for n in range(0, (6 if quick else 7) + 1) for t in itertools.product('a,"\\;', repeat=n)]
    vals += [gen_header(rng) for _ in range(1000 if quick else 10000)]
    outs = model.run_many([[10, True, v] for v in vals])
    helper = getattr(mediatypes, '_split_media_ranges', None)
    for v, out in zip(vals, outs):
        mod = [common.wstr(x) for x in out]
        impl = helper(v) if helper else v.split(',')
        ctx.count('split')
        ctx.note_case(('split', v), len(mod) > 1 and '"' in v)
        if impl != mod:
            # judge by the spec: a member boundary inside a well-formed quoted string is the violation
            disagree('split_media_ranges', {'what': 'the range list is split differently from the model',
                                            'header': v, 'impl': impl, 'model': mod})


# --------------------------------------------------------------------------- handlers

KEYS = ['application/json', 'application/json; charset=utf-8', 'text/plain', 'text/*', '*/*', 'application/*',
        'application/x-www-form-urlencoded', 'multipart/form-data', 'APPLICATION/JSON', 'bad', 'text/html; level=1',
        'application/vnd.api+json']
RESOLVE = KEYS + ['application/json; charset=UTF-8', 'text/html', 'text/plain; q=0', 'text/plain;q=0.5', None, '',
                  'application/json, text/plain', 'text', 'multipart/form-data; boundary="a,b"', 'image/png',
                  'text/html;level=1', 'text/html;level=2', 'multipart/form-data; boundary=xyz', 'text/plain;q=abc',
                  'multipart/form-data; boundary="a\\",b"', 'text/plain; k="x, text/html', 'text/plain;k="a,b";q=0',
                  'application/json;k="\\\\", text/plain',
                  'text/xml;q=1e-1']
DEFAULTS = ['application/json', 'text/plain', 'image/png']


class World:
    """The real side: Handlers objects, handler identities as small integers."""

    def __init__(self, falcon):
        from falcon.media.base import BaseHandler
        self.falcon = falcon

        class H(BaseHandler):
            def __init__(self, hid):
                self.hid = hid

            def deserialize(self, stream, content_type, content_length):
                return ('handled-by', self.hid)

            def serialize(self, media, content_type):
                return b'h%d' % self.hid
        self.H = H
        self.ids = {}
        self.by_id = {}
        self.next_id = 1
        self.objs = []

    def handler(self, hid):
        if hid not in self.by_id:
            h = self.H(hid)
            self.by_id[hid] = h
            self.ids[id(h)] = hid
        return self.by_id[hid]

    def new_id(self):
        self.next_id += 1
        return self.next_id - 1

    def hid(self, obj):
        return None if obj is None else self.ids.get(id(obj), -1)

    def adopt(self, hobj, fresh, default_keys):
        """name handler objects created by the implementation itself (defaults of an empty mapping)"""
        for k, f in zip(default_keys, fresh):
            if k in hobj and id(hobj[k]) not in self.ids:
                self.ids[id(hobj[k])] = f
                self.by_id[f] = hobj[k]

    def items(self, i):
        return [[k, self.hid(v)] for k, v in self.objs[i].items()]


def real_resolve(world, hobj, mt, default, raise_nf, form):
    falcon = world.falcon
    try:
        if form == 0 and raise_nf:
            r = hobj._resolve(mt, default)
        elif form == 1:
            r = hobj._resolve(mt, default, raise_nf)
        else:
            r = hobj._resolve(mt, default, raise_not_found=raise_nf)
    except falcon.HTTPUnsupportedMediaType:
        return [2]
    except Exception as e:  # noqa: BLE001
        return [9, type(e).__name__]
    return [1] if r[0] is None else [0, world.hid(r[0])]


def public_resolve(world, hobj, mt, default):
    """Through the public API: req.get_media() with these handlers installed."""
    falcon = world.falcon
    opts = falcon.RequestOptions()
    opts.media_handlers = hobj
    opts.default_media_type = default
    env = {'REQUEST_METHOD': 'POST', 'PATH_INFO': '/', 'QUERY_STRING': '', 'SERVER_NAME': 'x', 'SERVER_PORT': '80',
           'SERVER_PROTOCOL': 'HTTP/1.1', 'wsgi.url_scheme': 'http', 'wsgi.input': io.BytesIO(b'{}'),
           'wsgi.errors': sys.stderr, 'CONTENT_LENGTH': '2', 'SCRIPT_NAME': ''}
    if mt is not None:
        env['CONTENT_TYPE'] = mt
    req = falcon.Request(env, options=opts)
    try:
        m = req.get_media()
    except falcon.HTTPUnsupportedMediaType:
        return [2]
    except Exception:  # noqa: BLE001 - a built-in handler (defaults of an empty mapping) parsing the dummy body
        return [8, 'builtin']
    if isinstance(m, tuple) and m and m[0] == 'handled-by':
        return [0, m[1]]
    return [8, repr(m)[:40]]     # a built-in handler (defaults of an empty mapping) did the work


def gen_hop(rng, world, n_objs, default_keys):
    """-> (python thunk description, wire op)"""
    i = rng.randrange(n_objs)
    r = rng.random()
    k = rng.choice(KEYS[:6] if rng.random() < 0.7 else KEYS)
    if r < 0.16:
        hid = rng.choice([1, 2, 3, world.new_id()])
        return i, ('set', k, hid), [0, k, hid]
    if r < 0.26:
        return i, ('del', k), [1, k]
    if r < 0.33:
        items = [(rng.choice(KEYS[:6]), rng.choice([1, 2, 3])) for _ in range(rng.randint(0, 3))]
        return i, ('update', items, rng.random() < 0.5), [2, [list(x) for x in items]]
    if r < 0.40:
        d = rng.choice([None, 7])
        return i, ('pop', k, d), [3, k, [] if d is None else [d]]
    if r < 0.44:
        return i, ('clear',), [4]
    if r < 0.50:
        hid = rng.choice([1, 2, 3])
        return i, ('setdefault', k, hid), [5, k, hid]
    if r < 0.56:
        fresh = [world.new_id() for _ in default_keys]
        return i, ('copy', fresh), [6, fresh]
    if r < 0.92:
        mt = rng.choice(RESOLVE)
        default = rng.choice(DEFAULTS)
        raise_nf = rng.random() < 0.7
        return i, ('resolve', mt, default, raise_nf, rng.randrange(3)), [7, [[] if mt is None else [mt], default, raise_nf]]
    if r < 0.96:
        return i, ('get', k), [8, k]
    return i, ('keys',), [9]


def apply_hop(world, i, o, default_keys):
    h = world.objs[i]
    k = o[0]
    try:
        if k == 'set':
            h[o[1]] = world.handler(o[2])
            return [0]
        if k == 'del':
            del h[o[1]]
            return [0]
        if k == 'update':
            pairs = [(a, world.handler(b)) for a, b in o[1]]
            h.update(dict(pairs) if o[2] and len({a for a, b in pairs}) == len(pairs) else pairs)
            return [0]
        if k == 'pop':
            v = h.pop(o[1]) if o[2] is None else h.pop(o[1], world.handler(o[2]))
            return [2, [world.hid(v)]]
        if k == 'clear':
            h.clear()
            return [0]
        if k == 'setdefault':
            v = h.setdefault(o[1], world.handler(o[2]))
            return [2, [world.hid(v)]]
        if k == 'copy':
            c = h.copy()
            world.adopt(c, o[1], default_keys)
            world.objs.append(c)
            return [4, len(world.objs) - 1]
        if k == 'resolve':
            return [3, real_resolve(world, h, o[1], o[2], o[3], o[4])]
        if k == 'get':
            return [2, [world.hid(h[o[1]])]]
        if k == 'keys':
            return [5, list(h)]
    except KeyError:
        return [1]
    raise AssertionError(o)


def m_obs(v):
    t = v[0]
    if t in (0, 1):
        return [t]
    if t == 2:
        return [2, list(v[1])]
    if t == 3:
        return [3, list(v[1])]
    if t == 4:
        return [4, v[1]]
    return [5, [common.wstr(x) for x in v[1]]]


def run_history(ctx, model, falcon, table, default_keys, hops_gen, initial):
    """Run one history on the implementation; -> (wire case, impl observations, spec cases)"""
    from falcon import media
    world = World(falcon)
    for hid in (1, 2, 3, 7):
        world.handler(hid)
    world.next_id = 10
    fresh0 = [world.new_id() for _ in default_keys]
    init_pairs = [(k, world.handler(h)) for k, h in initial]
    h0 = media.Handlers(dict(init_pairs))
    world.adopt(h0, fresh0, default_keys)
    world.objs.append(h0)
    wire_ops, impl_obs, spec_cases, spec_meta = [], [], [], []
    for step_no, (i, o, w) in enumerate(hops_gen(world)):
        if i >= len(world.objs):
            i = i % len(world.objs)
        before = [world.items(j) for j in range(len(world.objs))]
        ob = apply_hop(world, i, o, default_keys)
        wire_ops.append([i, w])
        impl_obs.append(ob)
        # binding (copy_independent): an operation on one mapping leaves every other mapping alone,
        # and a copy of a non-empty mapping holds the same items
        for j, items in enumerate(before):
            if j != i and world.items(j) != items:
                ctx.violation('copy-not-independent',
                              {'what': 'an operation on Handlers object %d changed object %d' % (i, j),
                               'history': json.loads(json.dumps(wire_ops)), 'initial': [list(x) for x in initial],
                               'before': items, 'after': world.items(j)}, key='copy-indep')
        if o[0] == 'copy' and before[i] and world.items(len(world.objs) - 1) != before[i]:
            ctx.violation('copy-not-independent',
                          {'what': 'the copy does not hold the items of its source',
                           'history': json.loads(json.dumps(wire_ops)), 'initial': [list(x) for x in initial],
                           'source': before[i], 'copy': world.items(len(world.objs) - 1)}, key='copy-items')
        if o[0] == 'resolve':
            # binding: what the CURRENT mapping designates (spec evaluated on the real items)
            key = [[] if o[1] is None else [o[1]], o[2], o[3]]
            spec_cases.append([6, cfg(table), world.items(i), key])
            pub = public_resolve(world, world.objs[i], o[1], o[2]) if o[3] else None
            spec_meta.append((step_no, i, o, ob[1], pub))
    case = [5, cfg(table), [[k, h] for k, h in initial], fresh0, wire_ops]
    return case, impl_obs, spec_cases, spec_meta, wire_ops


def check_handlers(ctx, model, falcon, quick):
    from falcon import media
    from falcon import mediatypes
    rng = ctx.rng
    default_keys = list(media.Handlers().keys())
    table = oracle_table(mediatypes, [r for r in RESOLVE if r] + DEFAULTS)
    hist = []

    def random_hops(n):
        def gen(world):
            for _ in range(n):
                yield gen_hop(rng, world, len(world.objs), default_keys)
        return gen

    for _ in range(700 if quick else 7000):
        initial = rng.choice([[], [('application/json', 1)], [('application/json', 1), ('text/*', 2)],
                              [('text/plain', 2), ('*/*', 3)]])
        hist.append(run_history(ctx, model, falcon, table, default_keys, random_hops(rng.randint(1, 40)), initial))
    # exhaustive short histories over 3 keys on one object (plus its copy)
    small_ops = []
    for k in ('application/json', 'text/*', 'text/plain'):
        small_ops += [(('set', k, 1), [0, k, 1]), (('set', k, 2), [0, k, 2]), (('del', k), [1, k])]
    small_ops += [(('clear',), [4]), (('pop', 'text/*', None), [3, 'text/*', []]),
                  (('update', [('text/plain', 3), ('application/json', 3)], False),
                   [2, [['text/plain', 3], ['application/json', 3]]]),
                  (('setdefault', 'text/*', 3), [5, 'text/*', 3])]
    probes = [('text/plain; charset=utf-8', 'application/json', True), ('application/json', 'text/plain', True),
              (None, 'text/plain', False)]
    depth = 3 if quick else 4
    for seq in itertools.product(range(len(small_ops)), repeat=depth):
        def gen(world, seq=seq):
            for j in seq:
                o, w = small_ops[j]
                yield 0, o, w
                for mt, d, rnf in probes:      # resolve after every mutation: fills the cache
                    yield 0, ('resolve', mt, d, rnf, 1), [7, [[] if mt is None else [mt], d, rnf]]
        hist.append(run_history(ctx, model, falcon, table, default_keys, gen, [('text/plain', 2)]))
    ctx.cov['handlers_exhaustive_depth'] = depth
    outs = model.run_many([h[0] for h in hist])
    all_spec = [c for h in hist for c in h[2]]
    spec_outs = model.run_many(all_spec)
    sp = 0
    for hi, ((case, impl_obs, spec_cases, spec_meta, wire_ops), out) in enumerate(zip(hist, outs)):
        mobs = [m_obs(v) for v in out[0]]
        ctx.count('handler-history')
        ctx.note_case(('hist', hi, ctx.seed), any(o[0] == 3 and o[1][0] == 0 for o in impl_obs))
        for (step_no, i, o, r, pub) in spec_meta:
            spec = list(spec_outs[sp])
            sp += 1
            detail = {'what': 'Handlers resolution differs from what the current mapping designates',
                      'history': json.loads(json.dumps(wire_ops[:step_no + 1])), 'initial': case[2], 'object': i,
                      'media_type': o[1], 'default': o[2], 'raise_not_found': o[3], 'impl': r, 'spec': spec}
            if r[0] == 9:
                ctx.violation('undocumented-exception', dict(detail, what='Handlers._resolve raised %s' % r[1]),
                              key='exc-resolve')
            elif spec != [3] and r != spec:
                ctx.violation('stale-or-wrong-handler', detail, key='stale-%s' % (r[0],))
            elif pub is not None and pub[0] != 8 and spec != [3] and pub != spec:
                ctx.violation('stale-or-wrong-handler',
                              dict(detail, what='req.get_media() used a handler other than the one the current mapping '
                                                'designates', impl=pub), key='stale-public')
        if impl_obs != mobs:
            j = next((x for x in range(min(len(impl_obs), len(mobs))) if impl_obs[x] != mobs[x]), 0)
            disagree('handlers', {'what': 'Handlers operation %d observed differently from the model' % j,
                                  'history': json.loads(json.dumps(wire_ops[:j + 1])), 'initial': case[2],
                                  'impl': impl_obs[j], 'model': mobs[j] if j < len(mobs) else None})
    ctx.sample({'handlers_history': hist[0][4][:5]})


# --------------------------------------------------------------------------- main

def main(ctx):
    import falcon
    model = common.Model(ctx)
    quick = ctx.tier == 'quick'
    ctx.assumptions += [
        'float() is modelled exactly on plain decimal literals of <= 15 digits (rationals; float is injective and '
        'monotone there); for any other q string CPython\'s float() answer is an oracle (exact value of the finite '
        'float or "rejected"), and when the oracle is supplied it is used for every q of that header',
        'header strings are latin-1; str.strip / str.lower are modelled on latin-1',
        'handler objects are truthy BaseHandler instances; `|=` and direct `.data` mutation are outside the '
        "property's quantifier and not generated",
    ]
    ctx.cov['rule'] = ('Accept headers from the media-range grammar (wildcards, parameters, quoted parameters incl. '
                       'semicolons/escapes, q in 29 spellings, duplicates, whitespace, invalid members) x candidate '
                       'lists: quality / best_match / client_accepts / client_prefers vs the model, and the oracles '
                       'quality_ok / best_relb on the implementation values; parse_header on all strings <= 5 over '
                       'a 6-letter alphabet + generated; Handlers: random histories (<= 40 ops, copies included) and '
                       'all histories of depth 3 (thorough 4) over 13 mutations with resolutions after every step, '
                       'each resolution judged against resolve_uncached of the CURRENT real items, also through '
                       'req.get_media(). non-trivial = a quality strictly between 0 and 1 / a handler was resolved')
    for o in common.corpus('C11'):
        pass
    check_negotiation(ctx, model, falcon, 2500 if quick else 25000)
    check_parse_header(ctx, model, falcon, quick)
    check_split(ctx, model, falcon, quick)
    check_handlers(ctx, model, falcon, quick)
    seen = set()
    for key, detail in disagreements:
        if key in seen:
            continue
        seen.add(key)
        ctx.violation('correspondence-broken', dict(detail, broken='C11.%s_corr' % key),
                      found_input=any(v['found_input'] for v in ctx.violations), key='corr-' + key)


def replay(ctx, obj):
    ctx.rng.seed(obj.get('seed', ctx.seed))
    main(ctx)
