"""C08: the boolean literal tables of falcon/request.py (sorted: they are frozensets)."""


def emit(A, nlist, strlit, strlist):
    from falcon import request
    A('(* falcon/request.py *)')
    A('Definition req_TRUE_STRINGS : list (list N) := %s.' % strlist(sorted(request.TRUE_STRINGS)))
    A('Definition req_FALSE_STRINGS : list (list N) := %s.' % strlist(sorted(request.FALSE_STRINGS)))
