"""Tables for coq/gen/ConstsC11.v, from the VALUES of the staged falcon modules / the runtime."""


def emit(A, nlist, strlit, strlist):
    import falcon.constants as constants
    from falcon.media.handlers import Handlers
    from falcon.util import mediatypes
    A('(* runtime: str.isspace over latin-1 (str.strip) *)')
    A('Definition c11_str_ws : list N := %s.' % nlist(c for c in range(256) if chr(c).isspace()))
    A('(* falcon/constants.py: keys of the default handler mapping, in Handlers.__init__ order *)')
    h = Handlers()
    A('Definition default_handler_keys : list (list N) := %s.' % strlist(list(h.keys())))
    A('Definition media_json : list N := %s.' % strlit(constants.MEDIA_JSON))
    A('(* falcon/media/handlers.py: size of the resolver LRU *)')
    A('Definition resolver_cache_size : nat := %d.' % h._resolve.cache_info().maxsize)
    nm = mediatypes._MediaRange._NOT_MATCHING
    assert nm[4] == 0.0
    A('(* falcon/util/mediatypes.py: _MediaRange._NOT_MATCHING (first four components; the fifth is 0.0) *)')
    A('Definition not_matching4 : list Z := [%s].' % '; '.join('(%d)%%Z' % int(x) for x in nm[:4]))
