"""setup_cmd: regenerate the tables, build every .vo (full build, no -vos) and every driver."""
import json
import os
import sys

sys.path.insert(0, os.path.dirname(os.path.abspath(__file__)))
import common  # noqa: E402


def main():
    ctx = common.Ctx('SETUP', 'quick', 0, None)
    ctx.stage = common.stage_sources()
    with common.BuildLock():
        common.regen_consts(ctx)
        if ctx.model_broken:
            print(ctx.model_broken)
            return 1
        common.ensure_makefile()
        code, out = common._run(['make', '-j16'], cwd=common.COQ, timeout=7200)
        print(out[-3000:])
        if code != 0:
            return 1
    man = json.load(open(os.path.join(common.VERIF, 'MANIFEST.json')))
    rc = 0
    for chk in man['checks']:
        c = common.Ctx(chk['property_id'], 'quick', 0, None)
        c.stage = ctx.stage
        common.build(c)
        if c.model_broken or c.proof_broken:
            print(chk['property_id'], 'BUILD PROBLEM', c.model_broken or c.proof_broken)
            rc = 1
        else:
            print(chk['property_id'], 'built; theorems:', len(c.theorems))
    bad = common.lint_coq()
    if bad:
        print('LINT', bad)
        rc = 1
    return rc


if __name__ == '__main__':
    sys.exit(main())
