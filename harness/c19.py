"""C19 — concurrent requests do not influence one another.

(threads) the REAL CompiledRouter / falcon.App with 2-3 threads stepped by a sys.settrace
line-level baton scheduler: only one managed thread runs at a time; it hands the baton back at
every executed line of falcon/routing/compiled.py whose source mentions a shared attribute
(computed from the staged source on every run), and `router._compile_lock` (an instance
attribute) is replaced by a cooperative lock whose acquire yields the baton while another
thread holds it.  SYSTEMATIC sweep of all schedules with <= 2 preemptions (quick) / <= 3
preemptions with 3 threads (thorough); each thread's result and the lookups made after the race
are compared with serial execution (binding).

(tasks) generated falcon.asgi.App (routes with fields and converters, middleware, media, errors):
2-3 requests, each an app coroutine stepped with send(None) in harness-chosen order, suspended at
every receive / send / explicit await; responses vs serial.

The extracted protocol model (coq/C19) is run next to it: its serial answers must be the real
serial answers, and the proved oracle judges (concurrent, serial) observation lists."""
import itertools
import json
import os
import re
import sys
import threading
import time

import common

SHARED_RX = re.compile(r'_find\b|\b_?return_values\b|\b_?patterns\b|\b_?converters\b|\b_ast\b|_finder_src|'
                       r'\b_roots\b|_compile_lock')


def preempt_lines(path):
    """executable-looking lines of compiled.py that mention a shared attribute"""
    out = set()
    with open(path, encoding='utf-8') as fh:
        for no, line in enumerate(fh, 1):
            s = line.strip()
            if not s or s.startswith('#'):
                continue
            if SHARED_RX.search(s.split('  # ')[0]):
                out.add(no)
    return out


# ------------------------------------------------------------------ generic explorer

class Deadlock(Exception):
    pass


def explore(run_schedule, max_preempt, limit=None, max_inner=None, novel=None, allow=None):
    """Stateless preemption-bounded exploration.  run_schedule(decisions) runs one execution
    that follows the default policy (keep running the current actor while it is enabled; at a
    forced switch take the lowest enabled actor) except at the step indices in `decisions`
    ({step: actor}); it returns the trace [(current, enabled tuple, chosen, inner?, point)] of
    its choice points (inner? = the point lies inside the bulk of the work, e.g. _generate_ast;
    point = (file, line) at which the current actor is paused).  Explores every schedule with at
    most max_preempt preemptions of which at most max_inner at inner points.  With
    novel = (counter dict, k) a preemption at a point that has already been used k times in this
    run is skipped (prioritises lines by novelty; the thorough tier passes None).
    Yields (decisions, payload)."""
    stack = [({}, 0, 0, 0)]       # decisions, first step index that may deviate, preemptions, inner ones
    seen = 0
    while stack:
        decisions, first, used, inner = stack.pop()
        trace, payload = run_schedule(decisions)
        seen += 1
        yield decisions, payload
        if limit is not None and seen >= limit:
            return
        for s in range(first, len(trace)):
            if allow is not None and not allow(trace, s):      # deviations only where the scenario permits
                continue
            cur, enabled, chosen = trace[s][:3]
            is_inner = bool(trace[s][3]) if len(trace[s]) > 3 else False
            point = trace[s][4] if len(trace[s]) > 4 else None
            for t in enabled:
                if t == chosen:
                    continue
                cost = 1 if (cur is not None and cur in enabled) else 0
                icost = cost if is_inner else 0
                if used + cost > max_preempt or (max_inner is not None and inner + icost > max_inner):
                    continue
                if cost and novel is not None and point is not None:
                    if novel[0].get(point, 0) >= novel[1]:
                        continue
                    novel[0][point] = novel[0].get(point, 0) + 1
                d = dict(decisions)
                d[s] = t
                stack.append((d, s + 1, used + cost, inner + icost))


def choose(decisions, step, cur, enabled):
    if step in decisions and decisions[step] in enabled:
        return decisions[step]
    if cur is not None and cur in enabled:
        return cur
    return min(enabled)


# ------------------------------------------------------------------ thread baton scheduler

class CoopLock:
    """Replacement for router._compile_lock: acquire hands the baton back while held."""

    def __init__(self, sched):
        self.sched = sched
        self.owner = None

    def __enter__(self):
        self.acquire()
        return self

    def __exit__(self, *a):
        self.release()

    def acquire(self, blocking=True, timeout=-1):
        tid = self.sched.current_tid()
        if tid is None:                       # unmanaged (serial) use
            self.owner = 'main'
            return True
        while self.owner is not None:
            self.sched.yield_baton(tid, blocked=True)
        self.owner = tid
        return True

    def release(self):
        self.owner = None


class ThreadSched:
    """Only the baton holder runs.  The scheduling decision is taken by the thread that reaches
    a preemption point (or finishes); when the decision is "keep running" no OS-level switch
    happens at all, which keeps a sweep of thousands of schedules cheap."""

    def __init__(self, filename, lines, lock_of, inner=frozenset(), more=None):
        self.filename = filename
        self.lines = lines
        self.inner = inner
        self.more = more or {}
        self._more_tracers = {fn: self._make_tracer(ls, fn) for fn, ls in self.more.items()}
        self.lock_of = lock_of                # () -> CoopLock
        self.local = threading.local()

    def current_tid(self):
        return getattr(self.local, 'tid', None)

    # -- inside managed threads
    def _global_trace(self, frame, event, arg):
        fn = frame.f_code.co_filename
        if fn == self.filename:
            return self._local_trace
        if fn in self.more:                   # further traced files: {filename: set of lines}
            return self._more_tracers[fn]
        return None

    def _local_trace(self, frame, event, arg):
        if event == 'line' and frame.f_lineno in self.lines:
            self.yield_baton(self.local.tid, line=frame.f_lineno)
        return self._local_trace

    def _make_tracer(self, lines, fn=None):
        def tr(frame, event, arg):
            if event == 'line' and frame.f_lineno in lines:
                self.yield_baton(self.local.tid, line=(fn, frame.f_lineno))
            return tr
        return tr

    def _decide(self, cur):
        """next thread to run (None: all done or deadlock); records the choice point"""
        n = len(self.done)
        if all(self.done):
            return None
        lock = self.lock_of()
        enabled = tuple(i for i in range(n) if not self.done[i]
                        and not (self.blocked[i] and lock is not None and lock.owner is not None))
        if not enabled:
            self.deadlock = True
            return None
        c = cur if cur is not None and not self.done[cur] else None
        nxt = choose(self.decisions, len(self.trace), c, enabled)
        self.trace.append((c, enabled, nxt, c is not None and self.at[c] in self.inner,
                           self.at[c] if c is not None else None))
        return nxt

    def yield_baton(self, tid, blocked=False, line=None):
        self.blocked[tid] = blocked
        self.at[tid] = line
        nxt = self._decide(tid)
        if nxt == tid:
            self.blocked[tid] = False
            return
        if nxt is None:                       # deadlock: give control back, stay parked
            self.ctl.release()
        else:
            self.sem[nxt].release()
        self.sem[tid].acquire()
        self.blocked[tid] = False

    def _body(self, tid, fn):
        self.local.tid = tid
        self.sem[tid].acquire()               # wait for the first baton
        sys.settrace(self._global_trace)
        try:
            self.results[tid] = ('ok', fn())
        except BaseException as e:  # noqa
            self.results[tid] = ('exc', type(e).__name__ + ': ' + str(e)[:160])
        finally:
            sys.settrace(None)
            self.done[tid] = True
            nxt = self._decide(tid)
            if nxt is None:
                self.ctl.release()
            else:
                self.sem[nxt].release()

    # -- controller
    def run(self, fns, decisions):
        n = len(fns)
        self.sem = [threading.Semaphore(0) for _ in range(n)]
        self.ctl = threading.Semaphore(0)
        self.done = [False] * n
        self.blocked = [False] * n
        self.at = [None] * n
        self.results = [None] * n
        self.trace = []
        self.decisions = decisions
        self.deadlock = False
        threads = [threading.Thread(target=self._body, args=(i, f), daemon=True) for i, f in enumerate(fns)]
        for t in threads:
            t.start()
        first = self._decide(None)
        self.sem[first].release()
        if not self.ctl.acquire(timeout=60):
            raise RuntimeError('managed threads did not finish')
        if self.deadlock:
            for i in range(n):
                if not self.done[i]:
                    self.results[i] = ('exc', 'Deadlock')
            raise Deadlock(self.trace)
        for t in threads:
            t.join(5)
        return self.trace, list(self.results)


# ------------------------------------------------------------------ thread half: route sets

TPL_SMALL = [
    ['/x/{a:int}', '/y/{p:path}'],
    ['/x/{a:int(2)}/c', '/x/{b}-{c:int}'],
    ['/i/{n:int}', '/i/{n:int}/k/{m:int(min=2)}'],
    ['/a/b', '/a/{x}', '/f/{p:path}'],
    ['/q/{a}.{e}', '/q/{n:int}', '/q/lit'],
    ['/{top}', '/{top}/s/{k:int}'],
    ["/it's/{n:int}", '/w/{p:path}'],
    ['/m/{a:int}-{b:int}', '/m/{s}'],
]
TPL_BIG = [
    ['/x/{a:int}', '/y/{p:path}', '/x/{a:int}/c', '/z/{u}-{v:int}', '/z/lit', '/z/{w}/{n:int(3)}'],
    ['/a', '/a/{b}', '/a/{b}/c', '/a/{b}/c/{d:int}', '/e/{f:path}', '/a/{g}.json'],
]
SUBST = ['12', 'q', '5', '123', 'q.r']


def paths_of(templates, rng, n):
    out = []
    for tpl in templates:
        for _ in range(2):
            out.append(re.sub(r'\{[^}]*\}', lambda m: rng.choice(SUBST), tpl))
        out.append(tpl.split('{')[0] + 'zz/yy')
    rng.shuffle(out)
    out = list(dict.fromkeys(out))
    return out[:max(n, 1)], out


class Res:
    def __init__(self, i):
        self.i = i

    def on_get(self, req, resp, **kw):
        resp.media = {'rid': self.i, 'kw': kw, 'ctx': getattr(req.context, 'tag', None),
                      'q': req.get_param('q')}


class TagMw:
    def process_request(self, req, resp):
        req.context.tag = req.get_header('X-Tag')

    def process_response(self, req, resp, resource, ok):
        resp.set_header('X-Echo', str(getattr(req.context, 'tag', None)))


def canon_find(x):
    if x is None:
        return None
    return (x[0].i, tuple(sorted((k, v if isinstance(v, (int, str)) else repr(v)) for k, v in x[2].items())), x[3])


def obs_wire(r):
    """('ok', canon_find) | ('exc', ..) -> wire obs for the extracted oracle"""
    if r[0] != 'ok':
        return [1]
    x = r[1]
    if x is None:
        return [0, []]
    return [0, [x[0], [[k, [1, v] if isinstance(v, int) and not isinstance(v, bool) else [0, str(v)]] for k, v in x[1]]]]


def make_router(compiled, templates):
    r = compiled.CompiledRouter()
    for i, t in enumerate(templates):
        r.add_route(t, Res(i))
    return r


def safe(fn):
    try:
        return ('ok', fn())
    except BaseException as e:  # noqa
        return ('exc', type(e).__name__ + ': ' + str(e)[:160])


def thread_sweep(ctx, model, templates, nthreads, max_preempt, limit, tag, decisions_only=None, paths=None,
                 max_inner=None, deadline=None):
    """all schedules with <= max_preempt preemptions of nthreads first-ever lookups on a fresh
    router; returns number of schedules run"""
    from falcon.routing import compiled
    fn = compiled.__file__
    lines = thread_sweep.lines
    if paths is None:
        tpaths, allpaths = paths_of(templates, ctx.rng, nthreads)
        while len(tpaths) < nthreads:
            tpaths.append(tpaths[0])
    else:
        tpaths, allpaths = paths[0], paths[1]
    ser_router = make_router(compiled, templates)
    serial = {p: safe(lambda p=p: canon_find(ser_router.find(p))) for p in allpaths + tpaths}
    state = {}

    def run_schedule(decisions):
        r = make_router(compiled, templates)
        sched = ThreadSched(fn, lines, lambda: state.get('lock'), thread_sweep.inner)
        lock = CoopLock(sched)
        state['lock'] = lock
        r._compile_lock = lock
        fns = [(lambda p=p: canon_find(r.find(p))) for p in tpaths]
        try:
            trace, res = sched.run(fns, decisions)
            dead = False
        except Deadlock as d:
            trace, res, dead = d.args[0], list(sched.results), True
        post = [safe(lambda p=p: canon_find(r.find(p))) for p in allpaths] if not dead else []
        return trace, (res, post, dead, len(trace))

    n = 0
    oracle_cases, metas = [], []
    it = [(decisions_only, run_schedule(decisions_only)[1])] if decisions_only is not None else \
        explore(run_schedule, max_preempt, limit, max_inner)
    for decisions, (res, post, dead, nsteps) in it:
        n += 1
        if deadline is not None and time.time() > deadline:
            ctx.count('sweeps-cut-by-deadline')
            break
        detail = {'mode': 'threads', 'templates': templates, 'thread_paths': tpaths, 'post_paths': allpaths,
                  'decisions': {str(k): v for k, v in decisions.items()}, 'tag': tag}
        if dead:
            ctx.violation('deadlock', dict(detail, what='no thread can run: the compile lock is never released'),
                          key='deadlock')
            continue
        want = [serial[p] for p in tpaths]
        wantpost = [serial[p] for p in allpaths]
        if res != want:
            i = next(i for i, (a, b) in enumerate(zip(res, want)) if a != b)
            ctx.violation('concurrent-lookup-differs',
                          dict(detail, thread=i, path=tpaths[i], concurrent=repr(res[i]), serial=repr(want[i])),
                          key='thr-lookup')
        elif post != wantpost:
            i = next(i for i, (a, b) in enumerate(zip(post, wantpost)) if a != b)
            ctx.violation('lookup-after-race-differs',
                          dict(detail, path=allpaths[i], after_race=repr(post[i]), serial=repr(wantpost[i])),
                          key='thr-post')
        if n % 40 == 1:
            oracle_cases.append([1, [obs_wire(r) for r in res + post], [obs_wire(r) for r in want + wantpost]])
            metas.append(detail)
        ctx.count('thread-schedules')
    # the extracted oracle on a sample of (concurrent, serial) observation lists; the model's
    # own serial answers must be the implementation's serial answers
    outs = model.run_many(oracle_cases)
    for o, d in zip(outs, metas):
        if o[0] != 1:
            ctx.violation('isolation-oracle-rejects', dict(d, broken='C19.isolation_oracle'), key='thr-oracle')
    model_check(ctx, model, templates, tpaths + allpaths, serial)
    ctx.note_case((tag, json.dumps(templates), nthreads, max_preempt), True)
    return n


def model_check(ctx, model, templates, paths, serial):
    import falcon
    from falcon.routing import compiled
    import c01
    tab, multi, usable = c01.conv_table(falcon, compiled, compiled.CompiledRouter(), templates)
    if not usable:
        return
    adds = [[t, i] for i, t in enumerate(templates)]
    n = len(paths)
    sched = [i for _ in range(80 + 6 * n) for i in range(n)]
    out = model.run([0, tab, multi, adds, paths, 1, 1, sched])
    if out[0] != 1:
        ctx.violation('model-tree-not-wf', {'broken': 'C19 hypothesis wf (C01_reachable_wf)', 'templates': templates},
                      found_input=False, key='m-wf')
    for p, (pcv, ser) in zip(paths, out[1]):
        real = serial[p]
        want_ser = None
        if ser[0] == 0:
            r = ser[1]
            want_ser = ('ok', None if not r else (r[0], tuple(sorted(
                (common.wstr(k), common.wstr(v[1]) if v[0] == 0 else v[1]) for k, v in r[1]))))
        got = None if real[0] != 'ok' else ('ok', None if real[1] is None else real[1][:2])
        if want_ser != got:
            ctx.violation('correspondence-broken', {'broken': 'C19.serial_corr (model serial answer vs router)',
                                                    'templates': templates, 'path': p, 'model': repr(want_ser),
                                                    'impl': repr(real)}, found_input=False, key='m-serial')
        if pcv[0] != 1 or pcv[1] != ser:
            ctx.violation('model-race-differs', {'broken': 'C19.compile_race_safe (extracted model)',
                                                 'templates': templates, 'path': p, 'model_state': pcv},
                          found_input=False, key='m-race')
    ctx.count('model-threads', n)


def app_sweep(ctx, templates, nthreads, max_preempt, limit, tag, deadline=None):
    """the same through falcon.App (WSGI): responders, middleware, per-request objects"""
    import falcon
    from falcon import testing
    from falcon.routing import compiled
    fn = compiled.__file__
    lines = thread_sweep.lines
    tpaths, allpaths = paths_of(templates, ctx.rng, nthreads)
    while len(tpaths) < nthreads:
        tpaths.append(tpaths[0])

    def make_app():
        router = compiled.CompiledRouter()
        app = falcon.App(router=router, middleware=[TagMw()])
        for i, t in enumerate(templates):
            app.add_route(t, Res(i))
        return app, router

    def request(app, k, p):
        r = testing.simulate_get(app, p, headers={'X-Tag': 't%d' % k}, params={'q': 'v%d' % k})
        return (r.status_code, r.headers.get('X-Echo'), r.text)

    app0, _ = make_app()
    serial = [safe(lambda k=k, p=p: request(app0, k, p)) for k, p in enumerate(tpaths)]
    # a second serial pass on the now-compiled app must agree (order independence)
    state = {}

    def run_schedule(decisions):
        app, router = make_app()
        sched = ThreadSched(fn, lines, lambda: state.get('lock'))
        lock = CoopLock(sched)
        state['lock'] = lock
        router._compile_lock = lock
        fns = [(lambda k=k, p=p: request(app, k, p)) for k, p in enumerate(tpaths)]
        try:
            trace, res = sched.run(fns, decisions)
            dead = False
        except Deadlock as d:
            trace, res, dead = d.args[0], list(sched.results), True
        post = [safe(lambda k=k, p=p: request(app, k, p)) for k, p in enumerate(tpaths)] if not dead else []
        return trace, (res, post, dead)

    n = 0
    for decisions, (res, post, dead) in explore(run_schedule, max_preempt, limit):
        n += 1
        if deadline is not None and time.time() > deadline:
            ctx.count('sweeps-cut-by-deadline')
            break
        detail = {'mode': 'wsgi-app', 'templates': templates, 'thread_paths': tpaths,
                  'decisions': {str(k): v for k, v in decisions.items()}, 'tag': tag}
        if dead:
            ctx.violation('deadlock', detail, key='deadlock')
        elif res != serial or post != serial:
            both = res if res != serial else post
            i = next(i for i, (a, b) in enumerate(zip(both, serial)) if a != b)
            ctx.violation('concurrent-response-differs',
                          dict(detail, request=i, concurrent=repr(both[i]), serial=repr(serial[i]),
                               phase='race' if res != serial else 'after-race'), key='app-resp')
        ctx.count('wsgi-app-schedules')
    ctx.note_case((tag, 'wsgi', json.dumps(templates)), True)
    return n


# ------------------------------------------------------------------ lookups in flight during add_route + recompile

INFLIGHT = [
    # (templates before, warm-up lookup or None, A's path, B's new template, B's path)
    (['/{name:slow}'], '/warm', '/bob', '/admin', '/admin'),
    (['/{name:slow}'], None, '/bob', '/admin', '/admin'),
    (['/u/{name:slow}', '/u/{n:int}-{m}', '/v'], '/u/x', '/u/bob', '/u/aaa', '/u/aaa'),
    (['/{a:slow}/x', '/zzz/y'], '/q/x', '/bob/x', '/admin/x', '/admin/x'),
    (['/p/{a:slow}-{b:int}', '/p/{c}'], '/p/k', '/p/bob-7', '/p/000', '/p/bob-x'),
]


def inflight_sweep(ctx, scenario, max_preempt, tag, deadline=None, decisions_only=None):
    """thread A: find() on a route whose converter parks inside convert(); thread B: add_route of a
    literal sibling that sorts in front + a lookup (forces the recompile); A's answer must be its
    serial answer (a finder keeps the tables it was compiled with: C19_compiled_tables_stable)"""
    from falcon.routing import compiled, converters
    before, warm, path_a, tpl_b, path_b = scenario
    holder = {}

    class Slow(converters.BaseConverter):
        def convert(self, value):
            sched = holder.get('sched')
            tid = sched.current_tid() if sched is not None else None
            if tid is not None:
                sched.yield_baton(tid, line=('convert', 0))      # parked inside the converter
            return value.upper()

    def make(with_b):
        r = compiled.CompiledRouter()
        r.options.converters['slow'] = Slow
        for i, t in enumerate(before):
            r.add_route(t, Res(i))
        if with_b:
            r.add_route(tpl_b, Res(99))
        return r

    holder['sched'] = None
    posts = [path_a, path_b] + [warm or '/warm']
    want_a = safe(lambda: canon_find(make(False).find(path_a)))
    r1 = make(True)
    want_b = safe(lambda: canon_find(r1.find(path_b)))
    want_post = [safe(lambda p=p: canon_find(r1.find(p))) for p in posts]
    state = {}

    def run_schedule(decisions):
        holder['sched'] = None
        r = make(False)
        if warm:
            r.find(warm)
        sched = ThreadSched(compiled.__file__, thread_sweep.lines, lambda: state.get('lock'), thread_sweep.inner)
        lock = CoopLock(sched)
        state['lock'] = lock
        r._compile_lock = lock
        holder['sched'] = sched

        def fa():
            return canon_find(r.find(path_a))

        def fb():
            r.add_route(tpl_b, Res(99))
            return canon_find(r.find(path_b))
        try:
            trace, res = sched.run([fa, fb], decisions)
            dead = False
        except Deadlock as d:
            trace, res, dead = d.args[0], list(sched.results), True
        holder['sched'] = None
        post = [safe(lambda p=p: canon_find(r.find(p))) for p in posts] if not dead else []
        return trace, (res, post, dead)

    n = 0
    def allow(trace, s):
        # the scenario starts once A is inside the compiled finder, parked in convert(): only from
        # there on may the schedule deviate (add_route racing with the *entry* of a lookup - find()
        # reading self._find and the tables one after the other, or a first compilation still in
        # progress - is outside the property: see notes/C19.md, "add_route while serving")
        return any(len(t) > 4 and t[0] == 0 and t[4] == ('convert', 0) for t in trace[:s + 1])

    it = [(decisions_only, run_schedule(decisions_only)[1])] if decisions_only is not None else \
        explore(run_schedule, max_preempt, None, allow=allow)
    for decisions, (res, post, dead) in it:
        n += 1
        if deadline is not None and time.time() > deadline:
            ctx.count('sweeps-cut-by-deadline')
            break
        detail = {'mode': 'inflight', 'scenario': list(scenario), 'decisions': {str(k): v for k, v in decisions.items()},
                  'tag': tag}
        if dead:
            ctx.violation('deadlock', detail, key='deadlock')
        elif res[0] != want_a:
            ctx.violation('concurrent-lookup-differs',
                          dict(detail, thread='A (lookup in flight while a route is added and the router recompiled)',
                               path=path_a, concurrent=repr(res[0]), serial=repr(want_a)), key='inflight-a')
        elif res[1] != want_b or post != want_post:
            ctx.violation('lookup-after-race-differs',
                          dict(detail, concurrent=repr((res[1], post)), serial=repr((want_b, want_post))), key='inflight-b')
        ctx.count('inflight-schedules')
    ctx.note_case((tag, 'inflight', json.dumps(list(scenario))), True)
    return n


# ------------------------------------------------------------------ ASGI half

class Suspend:
    def __await__(self):
        yield 'suspend'


def build_asgi_app(falcon, spec):
    import falcon.asgi

    class Boom(Exception):
        pass

    class Mw1:
        async def process_request(self, req, resp):
            req.context.rid = req.get_header('X-Rid')
            await Suspend()

        async def process_resource(self, req, resp, resource, params):
            await Suspend()
            req.context.params_seen = dict(params)

        async def process_response(self, req, resp, resource, ok):
            await Suspend()
            resp.set_header('X-Ctx', str(getattr(req.context, 'rid', None)))
            resp.set_header('X-Ok', str(ok))

    class Mw2:
        async def process_request(self, req, resp):
            resp.context.started = req.get_header('X-Rid')

        async def process_response(self, req, resp, resource, ok):
            resp.set_header('X-Started', str(getattr(resp.context, 'started', None)))
            await Suspend()

    class Item:
        async def on_get(self, req, resp, id):
            await Suspend()
            resp.media = {'id': id, 'q': req.get_param('q'), 'rid': req.context.rid,
                          'seen': getattr(req.context, 'params_seen', None),
                          'accept': req.accept}

        async def on_post(self, req, resp, id):
            m = await req.get_media()
            await Suspend()
            resp.media = {'id': id, 'echo': m, 'rid': req.context.rid}
            resp.status = falcon.HTTP_201

    class Files:
        async def on_get(self, req, resp, name, p):
            await Suspend()
            resp.text = 'name=%s p=%s rid=%s' % (name, p, req.context.rid)
            resp.set_header('X-Name', name)

    class Err:
        async def on_get(self, req, resp, code):
            await Suspend()
            if code == 400:
                raise falcon.HTTPBadRequest(title='bad', description='rid=%s' % req.context.rid)
            if code == 404:
                raise falcon.HTTPNotFound(description='rid=%s' % req.context.rid)
            raise Boom('rid=%s code=%s' % (req.context.rid, code))

    async def handle_boom(req, resp, ex, params):
        await Suspend()
        resp.status = falcon.HTTP_520
        resp.media = {'boom': str(ex), 'params': params, 'rid': getattr(req.context, 'rid', None)}

    async def sink(req, resp, **kw):
        await Suspend()
        resp.media = {'sink': kw, 'rid': req.context.rid, 'path': req.path}

    mws = [Mw1()] + ([Mw2()] if spec.get('mw2') else [])
    app = falcon.asgi.App(middleware=mws, independent_middleware=spec.get('independent', True))
    app.add_route('/items/{id:int}', Item())
    app.add_route('/u/{name}/f/{p:path}', Files())
    app.add_route('/err/{code:int}', Err())
    app.add_error_handler(Boom, handle_boom)
    if spec.get('sink'):
        app.add_sink(sink, r'/s/(?P<key>[^/]+)')
    return app


def asgi_scope(rq):
    headers = [(b'host', b'h'), (b'x-rid', rq['rid'].encode())]
    if rq.get('body') is not None:
        headers += [(b'content-type', b'application/json'), (b'content-length', str(len(rq['body'])).encode())]
    if rq.get('accept'):
        headers.append((b'accept', rq['accept'].encode()))
    if rq.get('cookie'):
        headers.append((b'cookie', rq['cookie'].encode()))
    return {'type': 'http', 'asgi': {'version': '3.0'}, 'http_version': '1.1', 'method': rq['method'],
            'scheme': 'http', 'path': rq['path'], 'raw_path': rq['path'].encode(),
            'query_string': rq.get('qs', '').encode(), 'headers': headers, 'server': ('h', 80),
            'client': ('c', 1), 'root_path': ''}


def asgi_call(app, rq):
    sent = []
    body = (rq.get('body') or '').encode()
    half = len(body) // 2
    chunks = ([{'type': 'http.request', 'body': body[:half], 'more_body': True},
               {'type': 'http.request', 'body': body[half:], 'more_body': False}]
              if rq.get('split') and body else [{'type': 'http.request', 'body': body, 'more_body': False}])

    async def receive():
        await Suspend()
        return chunks.pop(0) if chunks else {'type': 'http.disconnect'}

    async def send(ev):
        await Suspend()
        sent.append(ev)

    return app(asgi_scope(rq), receive, send), sent


def canon_sent(sent):
    status, headers, body = None, (), b''
    for ev in sent:
        if ev['type'] == 'http.response.start':
            status = ev['status']
            headers = tuple(sorted((k.decode('latin-1'), v.decode('latin-1')) for k, v in ev.get('headers', [])))
        elif ev['type'] == 'http.response.body':
            body += ev.get('body', b'')
    return (status, headers, body.decode('utf-8', 'replace'))


def gen_asgi_request(rng, k):
    rid = 'r%d' % k
    kind = rng.choice(['get', 'get', 'post', 'post', 'file', 'err400', 'err404', 'boom', 'missing', 'sink', 'badint'])
    n = rng.randint(1, 99)
    if kind == 'get':
        return {'method': 'GET', 'path': '/items/%d' % n, 'qs': 'q=%s' % rid, 'rid': rid,
                'accept': rng.choice([None, 'application/json', 'text/html;q=0.5, application/json'])}
    if kind == 'post':
        return {'method': 'POST', 'path': '/items/%d' % n, 'rid': rid, 'body': json.dumps({'k': rid, 'n': n}),
                'split': rng.random() < 0.5}
    if kind == 'file':
        return {'method': 'GET', 'path': '/u/%s/f/a/%s/b' % (rid, rid), 'rid': rid}
    if kind == 'err400':
        return {'method': 'GET', 'path': '/err/400', 'rid': rid}
    if kind == 'err404':
        return {'method': 'GET', 'path': '/err/404', 'rid': rid}
    if kind == 'boom':
        return {'method': 'GET', 'path': '/err/%d' % (500 + k), 'rid': rid}
    if kind == 'missing':
        return {'method': 'GET', 'path': '/nothing/%s' % rid, 'rid': rid}
    if kind == 'sink':
        return {'method': 'PUT', 'path': '/s/%s/x' % rid, 'rid': rid}
    return {'method': 'DELETE', 'path': '/items/%d' % n, 'rid': rid}


def asgi_sweep(ctx, spec, requests, max_preempt, limit, tag, decisions_only=None, deadline=None):
    import falcon

    def drive(app, rqs, decisions):
        coros, sents = [], []
        for rq in rqs:
            c, s = asgi_call(app, rq)
            coros.append(c)
            sents.append(s)
        done = [False] * len(coros)
        errs = [None] * len(coros)
        trace, cur, step = [], None, 0
        while not all(done):
            enabled = tuple(i for i in range(len(coros)) if not done[i])
            c = cur if cur is not None and not done[cur] else None
            nxt = choose(decisions, step, c, enabled)
            trace.append((c, enabled, nxt))
            step += 1
            cur = nxt
            try:
                coros[nxt].send(None)
            except StopIteration:
                done[nxt] = True
            except BaseException as e:  # noqa
                done[nxt] = True
                errs[nxt] = type(e).__name__ + ': ' + str(e)[:160]
        return trace, [('exc', errs[i]) if errs[i] else ('ok', canon_sent(sents[i])) for i in range(len(coros))]

    serial = []
    app0 = build_asgi_app(falcon, spec)
    for rq in requests:
        serial.append(drive(app0, [rq], {})[1][0])

    def run_schedule(decisions):
        app = build_asgi_app(falcon, spec)
        trace, res = drive(app, requests, decisions)
        return trace, res

    n = 0
    it = [(decisions_only, run_schedule(decisions_only)[1])] if decisions_only is not None else \
        explore(run_schedule, max_preempt, limit)
    for decisions, res in it:
        n += 1
        if deadline is not None and time.time() > deadline:
            ctx.count('sweeps-cut-by-deadline')
            break
        if res != serial:
            i = next(i for i, (a, b) in enumerate(zip(res, serial)) if a != b)
            ctx.violation('concurrent-response-differs',
                          {'mode': 'asgi', 'spec': spec, 'requests': requests,
                           'decisions': {str(k): v for k, v in decisions.items()}, 'request': i,
                           'concurrent': repr(res[i]), 'serial': repr(serial[i]), 'tag': tag}, key='asgi-resp')
        ctx.count('asgi-schedules')
    ctx.note_case((tag, 'asgi', json.dumps(spec), json.dumps(requests)), any(s[0] == 'ok' and s[1][0] in (200, 201)
                                                                             for s in serial))
    return n


# ------------------------------------------------------------------ marking apps
# Every per-request object the framework hands out is WRITTEN with a request-unique mark by
# middleware / responders / error handlers and READ back later in the same request; the response
# reports what was found.  Marks are unique per process, so a mark of any other request
# (concurrent, earlier on the same app, or earlier in the process) is a foreign mark.

MARK_RX = re.compile(r'(?i)mk(\d+)z')
_mark_no = itertools.count(1)


def new_mark():
    return 'mk%07dz' % next(_mark_no)          # fixed width: lengths (Content-Length) do not depend on the mark


class ErrA(Exception):
    pass


class ErrB(Exception):
    pass


class ErrC(ErrA):
    pass


def _keys(obj):
    try:
        return sorted(str(k) for k in obj.keys())
    except Exception:
        return sorted(vars(obj))


def mark_request(req, resp, asgi):
    m = req.get_header('X-Rid')
    setattr(req.context, 'c_' + m, m)
    setattr(resp.context, 'r_' + m, m)
    req.params['p_' + m] = m
    (req.scope if asgi else req.env)['x.' + m] = m
    h = req.headers
    h['X-INJ-' + m.upper()] = m
    c = req.cookies
    c['ck_' + m] = m
    resp.set_header('X-Mark-' + m, m)
    return m


def report(req, resp, kw, asgi, extra=None):
    out = {
        'kw': sorted((k, str(v)) for k, v in kw.items()),
        'params': sorted((k, str(v)) for k, v in req.params.items()),
        'ctx': _keys(req.context), 'rctx': _keys(resp.context),
        'env': sorted(k for k in (req.scope if asgi else req.env) if str(k).startswith('x.')),
        'hdr': sorted(k for k in req.headers if k.upper().startswith('X-INJ')),
        'cookies': sorted(req.cookies),
        'resp_hdr': sorted(k for k in resp.headers if k.lower().startswith('x-mark')),
        'q': req.get_param('q'), 'rid': req.get_header('X-Rid'),
    }
    if extra:
        out.update(extra)
    return out


def build_marking_app(falcon, asgi):
    import falcon.asgi

    if asgi:
        class Mw:
            async def process_request(self, req, resp):
                mark_request(req, resp, True)
                await Suspend()

            async def process_resource(self, req, resp, resource, params):
                m = req.get_header('X-Rid')
                params['inj_' + m] = m                  # inject a responder kwarg
                await Suspend()

            async def process_response(self, req, resp, resource, ok):
                await Suspend()
                resp.set_header('X-Ctx', ','.join(_keys(req.context)))
                resp.set_header('X-Rctx', ','.join(_keys(resp.context)))
                resp.set_header('X-Params', ','.join(sorted(req.params)))

        class Thing:
            async def on_get(self, req, resp, **kw):
                await Suspend()
                resp.media = report(req, resp, kw, True)

            async def on_post(self, req, resp, **kw):
                m = req.get_header('X-Rid')
                media = await req.get_media()
                media['w_' + m] = m
                await Suspend()
                again = await req.get_media()
                resp.media = report(req, resp, kw, True, {'media': sorted((k, str(v)) for k, v in again.items())})

        class Fail:
            async def on_get(self, req, resp, kind, **kw):
                m = req.get_header('X-Rid')
                await Suspend()
                if kind == 'a':
                    raise ErrA(m)
                if kind == 'b':
                    raise ErrB(m)
                if kind == 'c':
                    raise ErrC(m)
                raise falcon.HTTPTooManyRequests(title=m, description='d' + m, headers={'X-Err-' + m: m})

        def handler(tag, status):
            async def h(req, resp, ex, params):
                await Suspend()
                resp.status = status
                resp.media = report(req, resp, params, True, {'handler': tag, 'ex': str(ex)})
            return h
        app = falcon.asgi.App(middleware=[Mw()])
    else:
        class Mw:
            def process_request(self, req, resp):
                mark_request(req, resp, False)

            def process_resource(self, req, resp, resource, params):
                m = req.get_header('X-Rid')
                params['inj_' + m] = m

            def process_response(self, req, resp, resource, ok):
                resp.set_header('X-Ctx', ','.join(_keys(req.context)))
                resp.set_header('X-Rctx', ','.join(_keys(resp.context)))
                resp.set_header('X-Params', ','.join(sorted(req.params)))

        class Thing:
            def on_get(self, req, resp, **kw):
                resp.media = report(req, resp, kw, False)

            def on_post(self, req, resp, **kw):
                m = req.get_header('X-Rid')
                media = req.get_media()
                media['w_' + m] = m
                again = req.get_media()
                resp.media = report(req, resp, kw, False, {'media': sorted((k, str(v)) for k, v in again.items())})

        class Fail:
            def on_get(self, req, resp, kind, **kw):
                m = req.get_header('X-Rid')
                if kind == 'a':
                    raise ErrA(m)
                if kind == 'b':
                    raise ErrB(m)
                if kind == 'c':
                    raise ErrC(m)
                raise falcon.HTTPTooManyRequests(title=m, description='d' + m, headers={'X-Err-' + m: m})

        def handler(tag, status):
            def h(req, resp, ex, params):
                resp.status = status
                resp.media = report(req, resp, params, False, {'handler': tag, 'ex': str(ex)})
            return h
        from falcon.routing import compiled
        app = falcon.App(middleware=[Mw()], router=compiled.CompiledRouter())
    if asgi:
        async def sink(req, resp, **kw):
            await Suspend()
            resp.media = report(req, resp, kw, True, {'sink': True})
    else:
        def sink(req, resp, **kw):
            resp.media = report(req, resp, kw, False, {'sink': True})
    app.add_sink(sink, r'/sink/(?P<key>[^/]+)')
    app.add_static_route('/files', static_dir())
    app.add_sink(sink, r'/files/api/(?P<key>[^/]+)')
    thing = Thing()
    app.add_route('/static', thing)
    app.add_route('/static/deep', thing)
    app.add_route('/items/{id:int}', thing)
    app.add_route('/u/{name}/f/{p:path}', thing)
    app.add_route('/err/{kind}', Fail())
    app.add_error_handler(ErrA, handler('A', falcon.HTTP_429))
    app.add_error_handler(ErrB, handler('B', falcon.HTTP_503))

    # Every HTTPError (raised by a responder or by falcon itself: 404, 405, media errors ...) is
    # personalised by a handler -- description and headers of the exception object are written with
    # the request's mark and read back after a suspension point -- and then handed to falcon's own
    # handler for rendering.  An exception object (or its headers dict) shared between requests
    # shows as a foreign mark in the rendered error.
    def mark_error(req, ex):
        m = req.get_header('X-Rid') or 'none'
        ex.description = (ex.description or '') + '|' + m
        hdrs = ex.headers
        if not isinstance(hdrs, dict):
            hdrs = dict(hdrs or ())
        hdrs['X-ExMark-' + m] = m
        ex.headers = hdrs

    if asgi:
        async def http_error(req, resp, ex, params, **kw):
            mark_error(req, ex)
            await Suspend()
            resp.set_header('X-Ex-Seen', (ex.description or '') + ';' + ','.join(sorted(ex.headers or ())))
            await app._http_error_handler(req, resp, ex, params, **kw)
    else:
        def http_error(req, resp, ex, params):
            mark_error(req, ex)
            resp.set_header('X-Ex-Seen', (ex.description or '') + ';' + ','.join(sorted(ex.headers or ())))
            app._http_error_handler(req, resp, ex, params)
    app.add_error_handler(falcon.HTTPError, http_error)
    return app


_static = {}


def static_dir():
    """a directory with one file, for the static route of the marking apps (removed at exit)"""
    import atexit
    import shutil
    import tempfile
    if 'd' not in _static:
        d = tempfile.mkdtemp(prefix='c19-static.', dir='/dev/shm' if os.path.isdir('/dev/shm') else None)
        with open(os.path.join(d, 'a.txt'), 'w') as fh:
            fh.write('static file a')
        atexit.register(shutil.rmtree, d, True)
        _static['d'] = d
    return _static['d']


# requests answered by a sink, a static route, nothing, a route: the state consulted when the router
# finds no route is built lazily in some designs - the FIRST requests on a fresh app race on it
FIRST_REQUESTS = [
    {'method': 'GET', 'path': '/sink/k1/x'},
    {'method': 'GET', 'path': '/sink/k2', 'qs': 'q=2'},
    {'method': 'GET', 'path': '/files/a.txt'},
    {'method': 'GET', 'path': '/files/api/k3'},
    {'method': 'GET', 'path': '/nope'},
    {'method': 'GET', 'path': '/static'},
    {'method': 'GET', 'path': '/items/7'},
    {'method': 'GET', 'path': '/err/a'},
]

MARK_REQUESTS = [
    {'method': 'GET', 'path': '/static'},
    {'method': 'GET', 'path': '/static', 'qs': 'q=1'},
    {'method': 'GET', 'path': '/static/deep'},
    {'method': 'GET', 'path': '/items/7'},
    {'method': 'GET', 'path': '/items/7', 'qs': 'q=x&z=2'},
    {'method': 'POST', 'path': '/items/9', 'body': '{"k": 1}'},
    {'method': 'POST', 'path': '/static', 'body': '{"a": {"b": 2}}', 'qs': 'q=p'},
    {'method': 'GET', 'path': '/u/bob/f/a/b'},
    {'method': 'GET', 'path': '/err/a'},
    {'method': 'GET', 'path': '/err/b'},
    {'method': 'GET', 'path': '/err/c', 'qs': 'q=e'},
    {'method': 'GET', 'path': '/err/http'},
    {'method': 'GET', 'path': '/nope'},
    {'method': 'PUT', 'path': '/static'},
]


def pct(text):
    return ''.join('%%%02X' % ord(c) for c in text)


SHARED_REQUESTS = [
    # long percent-encoded query / form values (uri.decode's bytearray path: >= 8 escapes)
    {'method': 'GET', 'path': '/static', 'qs': 'q=' + pct('abcdefghijkl') + '&z=' + pct('one two')},
    {'method': 'GET', 'path': '/items/3', 'qs': 'q=' + pct('ZYXWVUTSRQPONM') + '&z=' + pct('3+4=7')},
    {'method': 'POST', 'path': '/static', 'ctype': 'application/x-www-form-urlencoded',
     'body': 'f=' + pct('form value number one') + '&g=' + pct('uno')},
    {'method': 'POST', 'path': '/items/4', 'ctype': 'application/x-www-form-urlencoded',
     'body': 'f=' + pct('FORM VALUE NUMBER TWO!') + '&g=' + pct('dos')},
    # parametrised content types (media handler resolution and its cache)
    {'method': 'POST', 'path': '/static', 'ctype': 'application/json; v=901', 'body': '{"k": 901}'},
    {'method': 'POST', 'path': '/items/5', 'ctype': 'application/json; v=902', 'body': '{"k": 902}'},
    # error rendering / content negotiation
    {'method': 'GET', 'path': '/err/http', 'qs': 'q=' + pct('negotiate')},
    {'method': 'GET', 'path': '/nope/' + 'x', 'qs': 'q=' + pct('not found!')},
]


def many_ctypes():
    """65 requests with distinct parametrised content types: fills every bounded cache keyed by it"""
    return [{'method': 'POST', 'path': '/static', 'ctype': 'application/json; v=%d' % i, 'body': '{"k": %d}' % i}
            for i in range(65)]


def with_marks(reqs):
    out = []
    for r in reqs:
        r = dict(r)
        r['rid'] = new_mark()
        out.append(r)
    return out


def normalize(text, marks):
    """replace the scenario's own marks by their request index; whatever mark remains is foreign"""
    idx = {MARK_RX.match(m).group(1): i for i, m in enumerate(marks)}
    return MARK_RX.sub(lambda mo: '@%d@' % idx[mo.group(1)] if mo.group(1) in idx else mo.group(0), text)


def wsgi_call(testing, app, rq):
    hdrs = {'X-Rid': rq['rid'], 'Cookie': 'sess=%s' % rq['rid']}
    if rq.get('body') is not None:
        hdrs['Content-Type'] = rq.get('ctype') or 'application/json'
    r = testing.simulate_request(app, method=rq['method'], path=rq['path'], query_string=rq.get('qs', ''),
                                 headers=hdrs, body=rq.get('body'))
    return json.dumps([r.status_code, sorted((k.lower(), v) for k, v in r.headers.items()), r.text])


def asgi_mark_call(app, rq):
    rq2 = dict(rq)
    coro, sent = asgi_call(app, rq2)
    return coro, sent


def own_only(text, k):
    """the response of request k may only mention request k"""
    return set(re.findall(r'@(\d+)@', text)) <= {str(k)}


def judge_marks(ctx, detail, results, reference, marks, where):
    """results/reference: raw response texts per request.  Binding: no foreign mark, only the own
    mark, and equality with the isolated reference after normalisation."""
    for k, (got, want) in enumerate(zip(results, reference)):
        g = normalize(got, marks)
        if MARK_RX.search(g):
            ctx.violation('foreign-mark', dict(detail, request=k, where=where, response=g[:1500],
                                               what='the response shows a mark of a request outside this scenario '
                                                    '(state kept from an earlier request)'), key='mark-foreign')
            return False
        if not own_only(g, k):
            ctx.violation('foreign-mark', dict(detail, request=k, where=where, response=g[:1500],
                                               what='the response shows the mark of another request'),
                          key='mark-other')
            return False
        if want is not None and g != want:
            ctx.violation('concurrent-response-differs', dict(detail, request=k, where=where, concurrent=g[:1500],
                                                               serial=want[:1500]), key='mark-differs')
            return False
    return True


def isolated_reference(falcon, testing, reqs, asgi):
    """each request alone on its own fresh app, normalised (None when that already leaks)"""
    marks = [r['rid'] for r in reqs]
    out = []
    for k, rq in enumerate(reqs):
        app = build_marking_app(falcon, asgi)
        if asgi:
            coro, sent = asgi_call(app, asgi_req(rq))
            try:
                while True:
                    coro.send(None)
            except StopIteration:
                pass
            raw = json.dumps(canon_sent(sent))
        else:
            raw = wsgi_call(testing, app, rq)
        out.append(normalize(raw, marks))
    return out


def asgi_req(rq):
    return {'method': rq['method'], 'path': rq['path'], 'qs': rq.get('qs', ''), 'rid': rq['rid'],
            'body': rq.get('body'), 'split': False, 'cookie': 'sess=%s' % rq['rid']}


def consecutive_check(ctx, asgi, reqs, tag):
    """request k on an app that has already served requests 0..k-1 (and the same URIs before)"""
    import falcon
    from falcon import testing
    reqs = with_marks(reqs)
    marks = [r['rid'] for r in reqs]
    ref = isolated_reference(falcon, testing, reqs, asgi)
    app = build_marking_app(falcon, asgi)
    res = []
    for rq in reqs:
        if asgi:
            coro, sent = asgi_call(app, asgi_req(rq))
            try:
                while True:
                    coro.send(None)
            except StopIteration:
                pass
            res.append(json.dumps(canon_sent(sent)))
        else:
            res.append(wsgi_call(testing, app, rq))
    detail = {'mode': 'marks-consecutive', 'asgi': asgi, 'requests': [dict(r, rid=None) for r in reqs], 'tag': tag}
    # the isolated references themselves must be clean too (process-wide leaks)
    ok = judge_marks(ctx, detail, [r for r in ref], [None] * len(ref), [], 'isolated') if False else True
    for k, r in enumerate(ref):
        if MARK_RX.search(r) or not own_only(r, k):
            ctx.violation('foreign-mark', dict(detail, request=k, where='isolated fresh app', response=r[:1500]),
                          key='mark-foreign')
            ok = False
            break
    if ok:
        judge_marks(ctx, detail, res, ref, marks, 'consecutive')
    ctx.count('consecutive-requests', len(reqs))
    ctx.note_case((tag, 'consecutive', asgi, json.dumps([(r['method'], r['path'], r.get('qs')) for r in reqs])), True)


def mark_thread_sweep(ctx, reqs, max_preempt, limit, tag, deadline=None, warm=None, decisions_only=None,
                      lines=None, novel=None, warm_fn=None):
    """2-3 WSGI requests on one marking app in managed threads; preemption at every executed line
    of app.py / compiled.py that mentions `self._`"""
    import falcon
    from falcon import testing
    from falcon.routing import compiled
    reqs = with_marks(reqs)
    marks = [r['rid'] for r in reqs]
    ref = isolated_reference(falcon, testing, reqs, False)
    state = {}
    warm = warm or []

    def run_schedule(decisions):
        app = build_marking_app(falcon, False)
        for w in with_marks(warm):                      # earlier traffic: compiles the router, fills caches
            wsgi_call(testing, app, w)
        if warm_fn is not None:
            for w in with_marks(warm_fn()):
                wsgi_call(testing, app, w)
        ld = lines if lines is not None else mark_thread_sweep.lines
        sched = ThreadSched(compiled.__file__, ld.get(compiled.__file__, set()),
                            lambda: state.get('lock'), more={k: v for k, v in ld.items()
                                                             if k != compiled.__file__})
        lock = CoopLock(sched)
        state['lock'] = lock
        app._router._compile_lock = lock
        fns = [(lambda rq=rq: wsgi_call(testing, app, rq)) for rq in reqs]
        try:
            trace, res = sched.run(fns, decisions)
            dead = False
        except Deadlock as d:
            trace, res, dead = d.args[0], list(sched.results), True
        post = []
        if not dead:                                    # the same requests again, after the race
            for rq in reqs:
                rq2 = dict(rq, rid=new_mark())
                post.append((rq2['rid'], safe(lambda rq2=rq2: wsgi_call(testing, app, rq2))))
        return trace, (res, dead, post)

    n = 0
    it = [(decisions_only, run_schedule(decisions_only)[1])] if decisions_only is not None else \
        explore(run_schedule, max_preempt, limit, novel=novel)
    for decisions, (res, dead, post) in it:
        n += 1
        if deadline is not None and time.time() > deadline:
            ctx.count('sweeps-cut-by-deadline')
            break
        detail = {'mode': 'marks-threads', 'requests': [dict(r, rid=None) for r in reqs], 'warm': warm,
                  'decisions': {str(k): v for k, v in decisions.items()}, 'tag': tag,
                  'lines': 'shared-state' if lines is not None else 'self._', 'warm_ctypes': warm_fn is not None}
        if dead:
            ctx.violation('deadlock', detail, key='deadlock')
            continue
        texts = [r[1] if r[0] == 'ok' else json.dumps(['exception', r[1]]) for r in res]
        if judge_marks(ctx, detail, texts, ref, marks, 'threads'):
            for k, (mk, r) in enumerate(post):
                t = r[1] if r[0] == 'ok' else json.dumps(['exception', r[1]])
                g = normalize(t, [mk]).replace('@0@', '@%d@' % k)
                if g != ref[k]:
                    ctx.violation('response-after-race-differs',
                                  dict(detail, request=k, after_race=g[:1500], serial=ref[k][:1500]), key='mark-post')
                    break
        ctx.count('mark-thread-schedules')
    ctx.note_case((tag, 'mark-threads', json.dumps([(r['method'], r['path'], r.get('qs')) for r in reqs])), True)
    return n


def mark_asgi_sweep(ctx, reqs, max_preempt, limit, tag, deadline=None, warm=None, decisions_only=None):
    import falcon
    from falcon import testing
    reqs = with_marks(reqs)
    marks = [r['rid'] for r in reqs]
    ref = isolated_reference(falcon, testing, reqs, True)
    warm = warm or []

    def run_schedule(decisions):
        app = build_marking_app(falcon, True)
        for w in with_marks(warm):
            c, _ = asgi_call(app, asgi_req(w))
            try:
                while True:
                    c.send(None)
            except StopIteration:
                pass
        coros, sents = [], []
        for rq in reqs:
            c, sn = asgi_call(app, asgi_req(rq))
            coros.append(c)
            sents.append(sn)
        done = [False] * len(coros)
        errs = [None] * len(coros)
        trace, cur, step = [], None, 0
        while not all(done):
            enabled = tuple(i for i in range(len(coros)) if not done[i])
            c = cur if cur is not None and not done[cur] else None
            nxt = choose(decisions, step, c, enabled)
            trace.append((c, enabled, nxt))
            step += 1
            cur = nxt
            try:
                coros[nxt].send(None)
            except StopIteration:
                done[nxt] = True
            except BaseException as e:  # noqa
                done[nxt] = True
                errs[nxt] = type(e).__name__ + ': ' + str(e)[:160]
        return trace, [json.dumps(['exception', errs[i]]) if errs[i] else json.dumps(canon_sent(sents[i]))
                       for i in range(len(coros))]

    n = 0
    it = [(decisions_only, run_schedule(decisions_only)[1])] if decisions_only is not None else \
        explore(run_schedule, max_preempt, limit)
    for decisions, texts in it:
        n += 1
        if deadline is not None and time.time() > deadline:
            ctx.count('sweeps-cut-by-deadline')
            break
        detail = {'mode': 'marks-asgi', 'requests': [dict(r, rid=None) for r in reqs], 'warm': warm,
                  'decisions': {str(k): v for k, v in decisions.items()}, 'tag': tag}
        judge_marks(ctx, detail, texts, ref, marks, 'asgi tasks')
        ctx.count('mark-asgi-schedules')
    ctx.note_case((tag, 'mark-asgi', json.dumps([(r['method'], r['path'], r.get('qs')) for r in reqs])), True)
    return n


MUTABLE_CALLS = {'bytearray', 'list', 'dict', 'set', 'defaultdict', 'OrderedDict', 'deque', 'Counter',
                 'WeakKeyDictionary', 'WeakValueDictionary', 'Lock', 'RLock', 'local'}
LONG_LIVED_CLASS = re.compile(r'(App|Router|Options|Handler|Handlers|Middleware|Route|Converter|Dict|Inspector|'
                              r'Client|Cache|Registry)$')


def _is_mutable(node):
    import ast
    if isinstance(node, (ast.List, ast.Dict, ast.Set, ast.ListComp, ast.DictComp, ast.SetComp)):
        return True
    if isinstance(node, ast.Call):
        f = node.func
        name = f.id if isinstance(f, ast.Name) else f.attr if isinstance(f, ast.Attribute) else None
        return name in MUTABLE_CALLS
    return False


def shared_state_lines(root):
    """Syntactic over-approximation, from the staged source, of the code that reads or writes
    state outliving a call: for every module of falcon/ the lines of every function that
      - mentions a module-level name bound to a mutable object,
      - has a mutable default argument (the `kwarg cache` idiom),
      - is a method of a long-lived class (App, Router, Handlers, Options, Middleware ...) touching self.<attr>,
      - is a closure over the locals of an enclosing function (e.g. the media resolver and its cache),
      - is wrapped by a cache decorator.
    Returns ({filename: set(lines)}, {reason: number of functions})."""
    import ast
    out, why = {}, {}
    for dp, dn, fns in os.walk(root):
        dn[:] = [d for d in dn if d not in ('__pycache__', 'bench', 'cmd', 'testing', 'cyutil')]
        for f in fns:
            if not f.endswith('.py'):
                continue
            path = os.path.join(dp, f)
            try:
                with open(path, encoding='utf-8') as fh:
                    tree = ast.parse(fh.read())
            except SyntaxError:
                continue
            modmut = set()
            for st in tree.body:
                if isinstance(st, ast.Assign) and _is_mutable(st.value):
                    modmut.update(t.id for t in st.targets if isinstance(t, ast.Name))
                elif isinstance(st, ast.AnnAssign) and st.value is not None and _is_mutable(st.value) \
                        and isinstance(st.target, ast.Name):
                    modmut.add(st.target.id)
            lines = set()

            def locals_of(fn):
                names = {a.arg for a in fn.args.args + fn.args.kwonlyargs}
                for n in ast.walk(fn):
                    if isinstance(n, ast.Name) and isinstance(n.ctx, ast.Store):
                        names.add(n.id)
                return names

            def visit(node, cls, outer):
                for ch in ast.iter_child_nodes(node):
                    if isinstance(ch, ast.ClassDef):
                        visit(ch, ch.name, outer)
                    elif isinstance(ch, (ast.FunctionDef, ast.AsyncFunctionDef)):
                        reasons = []
                        if any(_is_mutable(d) for d in ch.args.defaults + [k for k in ch.args.kw_defaults if k]):
                            reasons.append('mutable-default')
                        names = {n.id for n in ast.walk(ch) if isinstance(n, ast.Name)}
                        if names & modmut:
                            reasons.append('module-mutable')
                        if cls and LONG_LIVED_CLASS.search(cls) and ch.args.args and ch.args.args[0].arg == 'self' \
                                and any(isinstance(n, ast.Attribute) and isinstance(n.value, ast.Name)
                                        and n.value.id == 'self' for n in ast.walk(ch)):
                            reasons.append('long-lived-self')
                        if outer is not None and (names - {a.arg for a in ch.args.args}) & outer:
                            reasons.append('closure')
                        if any('cache' in ast.dump(d).lower() for d in ch.decorator_list):
                            reasons.append('cache-decorator')
                        if reasons:
                            lines.update(range(ch.lineno, (ch.end_lineno or ch.lineno) + 1))
                            for r in reasons:
                                why[r] = why.get(r, 0) + 1
                        visit(ch, None, locals_of(ch))
                    else:
                        visit(ch, cls, outer)

            visit(tree, None, None)
            if lines:
                out[path] = lines
    return out, why


def setup_app_lines():
    """executed-line candidates beyond the router: every line of falcon/app.py, falcon/asgi/app.py and
    routing/compiled.py that mentions `self._` (recomputed from the staged source on every run)"""
    import falcon.app
    import falcon.asgi.app
    from falcon.routing import compiled
    out = {}
    for mod in (falcon.app, falcon.asgi.app, compiled):
        ls = set()
        with open(mod.__file__, encoding='utf-8') as fh:
            for no, line in enumerate(fh, 1):
                t = line.strip()
                if t and not t.startswith('#') and 'self._' in t.split('  # ')[0]:
                    ls.add(no)
        out[mod.__file__] = ls
    mark_thread_sweep.lines = out
    return out


# ------------------------------------------------------------------ entry points

def setup_lines():
    from falcon.routing import compiled
    fn = compiled.__file__
    lines = preempt_lines(fn)
    # the _Cx* classes only format source text: their template strings mention the names but
    # touch no shared state
    with open(fn, encoding='utf-8') as fh:
        src = fh.read().split('\n')
    first_cx = next((i + 1 for i, l in enumerate(src) if l.startswith('class _Cx')), len(src) + 1)
    thread_sweep.lines = {l for l in lines if l < first_cx}
    # "inner" points: the bulk of the compilation (_generate_ast, _generate_conversion_ast), as
    # opposed to the protocol around it (find, _compile_and_find, the resets and the slot write)
    def span(name):
        a = next(i + 1 for i, l in enumerate(src) if l.startswith('    def %s(' % name))
        b = next((i + 1 for i in range(a, len(src)) if src[i].startswith('    def ')), len(src))
        return range(a, b)
    thread_sweep.inner = frozenset(l for l in thread_sweep.lines
                                   if l in span('_generate_ast') or l in span('_generate_conversion_ast'))
    return thread_sweep.lines


def main(ctx):
    model = common.Model(ctx)
    lines = setup_lines()
    ctx.cov['rule'] = ('one case = one (route set / app, set of 2-3 concurrent requests) swept over ALL schedules with '
                       '<= k preemptions (threads: line-level baton scheduler inside compiled.py, k=2 quick / 3 thorough; '
                       'ASGI: coroutines stepped at every receive/send/await, k=2 / 3); `evaluations` counts cases, the '
                       'input distribution counts schedules. non-trivial = at least one request matched a route.')
    ctx.cov['preemption_lines'] = sorted(lines)
    ctx.assumptions += [
        'GIL: every modelled statement of the compile protocol is atomic; the line-level scheduler preempts only at '
        'traced lines of compiled.py that mention a shared attribute',
        'serial reference = the same requests one at a time on a fresh router / app (generated apps keep no '
        'cross-request state, so the serial order does not matter)',
        'the framework-wide frame property (no other shared mutable state) is explored differentially, not proved',
    ]
    quick = ctx.tier == 'quick'
    for o in common.corpus('C19'):
        replay(ctx, o)
    rng = ctx.rng
    sets = list(TPL_SMALL)
    rng.shuffle(sets)
    # wall-clock allotments (seconds) per part; the quick tier must stay below 3 minutes also on a
    # loaded machine, so a sweep that overruns its allotment is cut (counted in the distribution)
    T = (lambda q, t: time.time() + (q if quick else t))
    # --- threads, router level: all schedules with <= 2 preemptions
    dl = T(30, 500)
    for tpls in sets[:2 if quick else len(sets)]:
        thread_sweep(ctx, model, tpls, 2, 2, None, 'thr2', deadline=dl)
    # deeper along the protocol: <= 3 preemptions of which at most one inside _generate_ast
    dl = T(40, 900)
    for tpls in ([['/x/{a:int}']] if quick else [['/x/{a:int}']] + [t[:2] for t in sets[:3]]):
        thread_sweep(ctx, model, tpls, 2, 3, None if quick else 40000, 'thr2-proto3', max_inner=1, deadline=dl)
    dl = T(14, 400)
    for tpls in (TPL_BIG[:1] if quick else TPL_BIG):
        thread_sweep(ctx, model, tpls, 2, 1, None, 'thr2-big', deadline=dl)
        thread_sweep(ctx, model, tpls, 3, 1 if quick else 2, 300 if quick else 4000, 'thr3-big', deadline=dl)
    if not quick:
        dl = T(0, 500)
        for tpls in sets[:3]:
            thread_sweep(ctx, model, tpls, 3, 3, 6000, 'thr3', deadline=dl)
    # --- a lookup in flight (parked inside a converter) while another thread adds a route and recompiles
    dl = T(8, 200)
    for sc in INFLIGHT:
        inflight_sweep(ctx, sc, 2 if quick else 3, 'inflight', deadline=dl)
    # --- threads, through falcon.App
    dl = T(10, 300)
    for tpls in (sets[:1] if quick else sets[:4]):
        app_sweep(ctx, tpls, 2, 1 if quick else 2, 150 if quick else 3000, 'app2', deadline=dl)
    if not quick:
        app_sweep(ctx, sets[0], 3, 2, 3000, 'app3', deadline=T(0, 200))
    # --- marking apps: every per-request object written and read back, unique marks
    setup_app_lines()
    R = MARK_REQUESTS
    seqs = [R, rng.sample(R, len(R)) + rng.sample(R, len(R))]
    for asgi in (False, True):
        for i, sq in enumerate(seqs if quick else seqs + [rng.sample(R * 3, len(R) * 3)]):
            consecutive_check(ctx, asgi, sq, 'cons%d' % i)
    pairs = [([R[8], R[9]], [R[0]]), ([R[10], R[9]], []), ([R[0], R[0]], [R[0]]), ([R[4], R[3]], [R[3]]),
             ([R[5], R[1]], []), ([R[11], R[8]], [R[8]]), ([R[2], R[7]], [R[2]])]
    dl = T(25, 400)
    for reqs, warm in pairs:
        mark_thread_sweep(ctx, reqs, 1 if quick else 2, None if quick else 4000, 'mthr2', deadline=dl, warm=warm)
    if not quick:
        mark_thread_sweep(ctx, [R[8], R[9], R[10]], 2, 4000, 'mthr3', deadline=T(0, 200), warm=[R[0]])
        for _ in range(6):
            mark_thread_sweep(ctx, rng.sample(R, 2), 1, None, 'mthr2r', deadline=T(0, 60), warm=rng.sample(R, 1))
    # threads preempted anywhere state outlives a call, in ANY falcon module (syntactic line set)
    import falcon as _f
    shared, why = shared_state_lines(os.path.dirname(_f.__file__))
    ctx.cov['shared_state_lines'] = {'files': len(shared), 'lines': sum(len(v) for v in shared.values()),
                                     'functions_by_reason': why}
    S = SHARED_REQUESTS
    novel = ({}, 1) if quick else None          # quick: every line is used as a preemption point once
    dl = T(28, 700)
    spairs = [([S[0], S[1]], [R[0]], None), ([S[2], S[3]], [R[0]], None), ([S[4], S[5]], [R[0]], many_ctypes),
              ([S[6], S[7]], [R[0]], None), ([S[0], S[3]], [], None), ([R[8], R[9]], [R[0]], None),
              ([R[5], S[4]], [R[5]], None)]
    for reqs, warm, wf in spairs:
        mark_thread_sweep(ctx, reqs, 1, None if quick else 6000, 'mshared', deadline=dl, warm=warm, lines=shared,
                          novel=novel, warm_fn=wf)
    # BOTH requests are the first ever on a fresh app (fresh app per schedule, nothing warmed up):
    # lazily built app state outside the router (fallback tables, middleware stacks, caches)
    F = FIRST_REQUESTS
    first_lines = {k: v for k, v in shared.items() if k.endswith(os.sep + 'app.py') or (os.sep + 'routing' + os.sep) in k}
    fpairs = [[F[0], F[1]], [F[0], F[2]], [F[2], F[4]], [F[3], F[5]], [F[4], F[4]], [F[0], F[6]], [F[2], F[3]],
              [F[5], F[6]], [F[7], F[1]]]
    dl = T(14, 400)
    for reqs in fpairs:
        mark_thread_sweep(ctx, reqs, 1, None if quick else 6000, 'mfirst', deadline=dl, warm=[], lines=first_lines,
                          novel=({}, 1) if quick else None)
    if not quick:
        for a in range(len(F)):
            for b in range(a, len(F)):
                mark_thread_sweep(ctx, [F[a], F[b]], 1, 3000, 'mfirst-all', deadline=T(0, 500), warm=[],
                                  lines=first_lines)
    dl = T(20, 400)
    apairs = [([R[0], R[0]], [R[0]]), ([R[0], R[2]], []), ([R[4], R[3]], []), ([R[8], R[9]], []), ([R[5], R[6]], []),
              ([R[11], R[10]], [R[2]]), ([R[7], R[0]], [R[7]])]
    for reqs, warm in apairs:
        mark_asgi_sweep(ctx, reqs, 2 if quick else 3, 1200 if quick else 8000, 'masgi2', deadline=dl, warm=warm)
    if not quick:
        for _ in range(10):
            mark_asgi_sweep(ctx, rng.sample(R, 3), 2, 6000, 'masgi3', deadline=T(0, 300), warm=rng.sample(R, 1))
    # --- ASGI, generated apps
    dl = T(15, 500)
    n_apps = 12 if quick else 120
    for i in range(n_apps):
        if time.time() > dl:
            break
        spec = {'mw2': rng.random() < 0.6, 'independent': rng.random() < 0.7, 'sink': rng.random() < 0.7}
        k = 2 if (quick or i % 3) else 3
        reqs = [gen_asgi_request(rng, j) for j in range(k)]
        asgi_sweep(ctx, spec, reqs, 2 if quick or k == 3 else 3, 1500 if quick else 8000, 'asgi%d' % k, deadline=dl)
        if i < 2:
            ctx.sample({'asgi': reqs})


def replay(ctx, obj):
    model = common.Model(ctx)
    setup_lines()
    mode = obj.get('mode')
    dec = {int(k): v for k, v in (obj.get('decisions') or {}).items()}
    if mode == 'threads':
        thread_sweep(ctx, model, obj['templates'], len(obj['thread_paths']), 0, None, 'replay',
                     decisions_only=dec, paths=(obj['thread_paths'], obj['post_paths']))
    elif mode == 'asgi':
        asgi_sweep(ctx, obj['spec'], obj['requests'], 0, None, 'replay', decisions_only=dec)
    elif mode == 'inflight':
        inflight_sweep(ctx, tuple(obj['scenario']), 0, 'replay', decisions_only=dec)
    elif mode == 'marks-threads':
        setup_app_lines()
        import falcon as _f
        ls = shared_state_lines(os.path.dirname(_f.__file__))[0] if obj.get('lines') == 'shared-state' else None
        if ls is not None and str(obj.get('tag', '')).startswith('mfirst'):
            ls = {k: v for k, v in ls.items() if k.endswith(os.sep + 'app.py') or (os.sep + 'routing' + os.sep) in k}
        mark_thread_sweep(ctx, obj['requests'], 0, None, 'replay', warm=obj.get('warm'), decisions_only=dec, lines=ls,
                          warm_fn=many_ctypes if obj.get('warm_ctypes') else None)
    elif mode == 'marks-asgi':
        mark_asgi_sweep(ctx, obj['requests'], 0, None, 'replay', warm=obj.get('warm'), decisions_only=dec)
    elif mode == 'marks-consecutive':
        consecutive_check(ctx, obj['asgi'], obj['requests'], 'replay')
    else:
        main(ctx)
