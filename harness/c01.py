"""C01 — compiled router: correspondence of falcon.routing.compiled.CompiledRouter with the
Coq model (coq/C01/Model.v) and evaluation of the proved oracles (coq/C01/Spec.v).

Ties (all binding unless said otherwise):
  1 add_route accept / reject (exception class) vs model, over generated histories
  2 translation validation: router.finder_src parsed into the cx AST == gen_level of the
    model tree (then C01_compile_correct covers the *actual* finder for all paths)
  3 router.find(path) vs the depth-first walk (find_oracle) on all paths up to depth+1 over a
    representative segment set of the route set; lookups must not raise
  4 impl vs impl: the router with the full history (rejected templates, compile flags,
    interleaved lookups) answers like a fresh router given only the accepted templates
  5 scanners vs `re`: parse_seg vs _FIELD_PATTERN.finditer, match_pieces vs the compiled
    segment pattern, int_convert vs IntConverter.convert — exhaustive on short strings
"""
import ast
import itertools
import json
import re

import common

ERR_NAMES = {10: 'bad-responders', 0: 'ok', 1: 'whitespace', 2: 'identifier', 3: 'duplicate', 4: 'missing-converter',
             5: 'unknown-converter', 6: 'cannot-instantiate', 7: 'no-children', 8: 'conflict',
             9: 'complex-multi'}

LITS = ['a', 'b', 'foo', "it's", 'a\\b', 'x.y', 'q(1)', 'ü', 'a+b', 'v', '', 'a}b', '12', '$', 'A']
INT_ARGS = ['', '(2)', '(min=5)', '(num_digits=1, max=7)', '(3, max=500)',
            # bounds at zero, negative, positive, equal; positional and keyword forms
            '(min=0)', '(max=0)', '(min=0, max=0)', '(min=-5, max=-2)', '(min=3, max=7)', '(min=4, max=4)',
            '(num_digits=1, max=0)', '(2, min=0)', '(min=-5)', '(max=-2)', '(None, 0, 0)', '(None, -1, 1)',
            '(num_digits=2, min=0, max=10)', '(1, 0)']
FLOAT_ARGS = ['', '(min=0)', '(max=0)', '(min=0.0, max=0.0)', '(min=-1.5, max=2.5)', '(finite=False)',
              '(min=0, finite=False)', '(max=0, finite=False)', '(min=1.5, max=1.5)', '(0, 0)', '(max=-0.5)',
              '(min=0.5)']
OTHER_CONV = ['uuid', 'dt', 'dt("%Y-%m-%d")', 'path']
CONVS = ['int' + a for a in INT_ARGS] + ['float' + a for a in FLOAT_ARGS] + OTHER_CONV
SIMPLE = ['{x}', '{y}', '{id}', '{p:path}', '{z:path}'] + ['{n:%s}' % c for c in CONVS if c != 'path']
BAD = ['{x:nope}', '{x:}', '{x:int(0)}', '{class}', '{1x}', '{x\n}', '{x }', 'a b', '{}', '{x:int(q=1)}',
       '{x:(2)}', 'a\tb', '{a}-{b\n}', '{x:int(}', '{p:path}.x', 'r{p:path}', '{a}-{a}', '{f:float(1, 2, 3, 4)}',
       '{u:uuid(1)}']
CPLX = ['{x}.json', '{a}-{b}', '{a}.{b}', 'v{a}', '{a}v', '{a}{b}', 'pre{x}', '{y}.json', '{c}-{d}', '({x})',
        '{x}.{y}.json', '{x}}', '{i:int}.{j:int}', '{a}.{b}.{c:int}'] + \
       ['{n:%s}-{m}' % c for c in CONVS if c != 'path'] + \
       ['{a}_{k:%s}' % c for c in CONVS[:31:3]] + ['v{n:%s}' % c for c in CONVS[1:31:4]] + \
       ['{i:int(min=0)}.{f:float(max=0)}', '{u:uuid}.{e}', '{d:dt("%Y-%m-%d")}T{h:int(2)}']

UUIDS = ['12345678-1234-5678-1234-567812345678', '12345678123456781234567812345678',
         '{12345678-1234-5678-1234-567812345678}', 'urn:uuid:12345678-1234-5678-1234-567812345678',
         '12345678-1234-5678-1234-56781234567', 'zz']
DTS = ['2020-01-02T03:04:05Z', '2020-01-02T03:04:05+0100', '2020-01-02', '2020-13-02', '2020', 'q']


def probes(cname, arg):
    """probe strings for a converter field: just below / at / above every bound, zero in its
    spellings, digit counts around num_digits, and non-numeric text"""
    nums = [float(x) for x in re.findall(r'-?\d+(?:\.\d+)?', arg or '')]
    if cname == 'int':
        out = ['0', '-0', '+0', '00', '-1', '1', '5', '12', '123', 'q', ' 1', '1_0']
        for b in nums:
            b = int(b)
            out += [str(b - 1), str(b), str(b + 1)]
        return out
    if cname == 'float':
        out = ['0', '-0.0', '+0', '00', '.5', '-.5', '1e0', 'nan', 'inf', '-inf', '1_0', '-1', '1.5', 'q', '5', '1e400']
        for b in nums:
            out += [repr(b - 0.5), repr(b), repr(b + 0.5), str(int(b))]
        return out
    if cname == 'uuid':
        return UUIDS
    if cname == 'dt':
        return DTS
    if cname == 'path':
        return ['q', 'a.b', '']
    return ['q', '12', '5']


FIELD_RX = re.compile(r'\{([^}:]*)(?::([^}(]*)(?:\(([^}]*)\))?)?\}')


def seg_candidates(seg, rng, n):
    """n strings a template segment might be asked to match (accepting and rejecting)"""
    if '{' not in seg:
        return [seg]
    out = []
    for _ in range(n):
        def sub(m):
            cname, arg = m.group(2), m.group(3)
            if not cname:
                return rng.choice(['q', '12', '5', 'x', 'a-b'])
            return rng.choice(probes(cname, arg))
        out.append(FIELD_RX.sub(sub, seg))
    return out


PATH_EXTRA = ['q', '12', '5', '123', '-3', '07', ' 1', 'q\n', '', 'a.json', 'a-b', 'a-b-c', 'a.b', '12-z', '12x',
              'va', 'ab', 'prex', '1.2.3', '9-12', '(q)', 'q.r.json', '1.2', 'x}', 'zz']


class Res:
    def __init__(self, i):
        self.i = i

    def on_get(self, req, resp):
        pass


class AsyncRes:
    """coroutine responders: what an ASGI router requires and a WSGI router refuses (TypeError)"""

    def __init__(self, i):
        self.i = i

    async def on_get(self, req, resp):
        pass

    async def on_post(self, req, resp):
        pass


# ------------------------------------------------------------------ generators

NAMES = ['a', 'b', 'c', 'x', 'y', 'n', 'm', 'k', 'id']


def rename(seg, rng):
    """give the fields of a menu segment fresh names (keeps them distinct within the segment)"""
    names = rng.sample(NAMES, len(NAMES))
    it = iter(names)
    return re.sub(r'\{([A-Za-z_]\w*)(?=[:}])', lambda m: '{' + next(it), seg)


def gen_segment(rng, bad_p=0.08):
    r = rng.random()
    if r < bad_p:
        return rng.choice(BAD)
    if r < 0.40:
        return rng.choice(LITS)
    if r < 0.52:
        return rename('{x}', rng)
    if r < 0.72:
        return rename(rng.choice(SIMPLE), rng)
    return rename(rng.choice(CPLX), rng)


def gen_template(rng, pool):
    # reuse prefixes of earlier templates often, so that trees branch
    if pool and rng.random() < 0.6:
        base = rng.choice(pool)
        keep = rng.randint(0, len(base))
        segs = base[:keep]
    else:
        segs = []
    # sometimes exactly a (strict) prefix of, or the same as, an earlier template: the new route
    # then ends on an existing intermediate node / overrides a resource without extending the tree
    n = 0 if (segs and rng.random() < 0.2) else rng.randint(1, 3)
    segs = segs + [gen_segment(rng) for _ in range(n)]
    segs = segs[:5]
    pool.append(segs)
    lead = rng.choice(['/', '/', '/', '', '//'])
    return lead + '/'.join(segs)


def gen_history(rng, n_add):
    """['add', template, rid, compile, responders_ok] | ['find', uri]; about one add in eight carries a
    resource whose responders are of the wrong kind for the router (refused with TypeError), half of
    those for a template that is already registered"""
    pool, ops, rid = [], [], 0
    for _ in range(n_add):
        rok = rng.random() > 0.12
        prev = [o[1] for o in ops if o[0] == 'add']
        if not rok and prev and rng.random() < 0.5:
            tpl = rng.choice(prev)
        else:
            tpl = gen_template(rng, pool)
        ops.append(['add', tpl, rid, rng.random() < 0.3, rok])
        rid += 1
        if rng.random() < 0.3:
            ops.append(['find', None])       # path chosen once the representatives are known
    return ops


# ------------------------------------------------------------------ real router

def field_specs(compiled, tpl):
    out = []
    for m in compiled._FIELD_PATTERN.finditer(tpl):
        if m.group('cname'):
            out.append((m.group('cname'), m.group('argstr')))
    return out


def other_repr(v):
    """canonical text of a converted value the model does not compute itself"""
    import datetime
    import uuid
    if isinstance(v, float):
        return 'float:' + repr(v)
    if isinstance(v, uuid.UUID):
        return 'uuid:' + str(v)
    if isinstance(v, datetime.datetime):
        return 'dt:' + v.isoformat()
    return 'other:' + repr(v)


def rat(v):
    if v is None:
        return []
    n, d = float(v).as_integer_ratio()
    return [n, d]


def float_oracle(strings):
    """graph of float() on the candidate strings: exact rational / infinity / nan, with the
    canonical text of the resulting value"""
    import math
    out = []
    for st in strings:
        try:
            x = float(st)
        except ValueError:
            continue
        if math.isnan(x):
            out.append([st, [2, other_repr(x)]])
        elif math.isinf(x):
            out.append([st, [1, 1 if x < 0 else 0, other_repr(x)]])
        else:
            n, d = x.as_integer_ratio()
            out.append([st, [0, n, d, other_repr(x)]])
    return out


def substrings(strings, templates=(), compiled=None):
    """the strings a converter can be handed: whole path segments (single-field nodes) and the
    group texts of every multi-field template segment matched against every path segment (the
    segment pattern is matched once; a converter veto does not re-split)"""
    out = set(strings)
    out.add('')
    if compiled is not None:
        for tpl in templates:
            for seg in tpl.lstrip('/').split('/'):
                if seg.count('{') == 0 or (seg.startswith('{') and seg.endswith('}') and seg.count('{') == 1):
                    continue
                try:
                    node = compiled.CompiledRouterNode(seg)
                except Exception:
                    continue
                if node.var_pattern is None:
                    continue
                for st in strings:
                    m = node.var_pattern.match(st)
                    if m:
                        out.update(v for v in m.groupdict().values() if v is not None)
    return sorted(out)


def conv_table(falcon, compiled, router, templates, strings=()):
    """oracle for eval('Klass(argstr)'): per (cname, argstr) occurring in the templates.  Int and
    path converters are modelled; float is modelled on top of an oracle for float(); every other
    converter is an oracle: the graph of its convert() on `strings` (all substrings of the path
    segments that will be looked up).  Returns (table, multi, usable)."""
    from falcon.routing import converters
    tab, seen, usable = [], set(), True
    cmap = router.options.converters
    subs = None
    for tpl in templates:
        for seg in tpl.split('/'):
            for cname, arg in field_specs(compiled, seg):
                if (cname, arg) in seen:
                    continue
                seen.add((cname, arg))
                a = [] if arg is None else [arg]
                if cname not in cmap:
                    tab.append([cname, a, [0]])
                    continue
                try:
                    obj = router._instantiate_converter(cmap[cname], arg)
                except Exception:
                    tab.append([cname, a, [1]])
                    continue
                if type(obj) is converters.IntConverter:
                    vals = [obj._num_digits, obj._min, obj._max]
                    if any(v is not None and type(v) is not int for v in vals):
                        usable = False
                    tab.append([cname, a, [2] + [[] if v is None else [v] for v in vals]])
                elif type(obj) is converters.PathConverter:
                    tab.append([cname, a, [3]])
                elif type(obj) is converters.FloatConverter:
                    if subs is None:
                        subs = substrings(strings, templates, compiled)
                    if any(v is not None and type(v) not in (int, float) for v in (obj._min, obj._max)):
                        usable = False
                        continue
                    tab.append([cname, a, [4, rat(obj._min), rat(obj._max), 1 if obj._finite else 0,
                                           float_oracle(subs)]])
                elif converters._consumes_multiple_segments(obj):
                    usable = False
                else:
                    if subs is None:
                        subs = substrings(strings, templates, compiled)
                    graph = []
                    # the oracle for the built-in converters is the stdlib function they are
                    # documented to apply (ValueError = veto), not their own convert()
                    if type(obj) is converters.UUIDConverter:
                        import uuid as _uuid
                        oracle = _uuid.UUID
                    elif type(obj) is converters.DateTimeConverter:
                        import datetime as _dt
                        oracle = (lambda st, f=obj._format_string: _dt.datetime.strptime(st, f))
                    else:
                        oracle = None
                    for st in subs:
                        try:
                            if oracle is not None:
                                try:
                                    v = oracle(st)
                                except ValueError:
                                    v = None
                            else:
                                v = obj.convert(st)
                        except Exception:          # a converter that raises is outside the model
                            usable = False
                            break
                        if v is not None:
                            graph.append([st, [1, v] if type(v) is int else [0, v] if type(v) is str
                                          else [2, other_repr(v)]])
                    tab.append([cname, a, [5, graph]])
    multi = [n for n, k in cmap.items() if converters._consumes_multiple_segments(k)]
    return tab, multi, usable


def canon_find(res):
    """router.find() result -> wire observation: [] | [rid, [[k, [tag, v]]...]]"""
    if res is None:
        return []
    resource, method_map, params, tpl = res
    ps = []
    for k in sorted(params):
        v = params[k]
        if type(v) is int:
            ps.append([k, [1, v]])
        elif type(v) is str:
            ps.append([k, [0, v]])
        else:
            ps.append([k, [2, other_repr(v)]])
    return [resource.i, ps]


def canon_model(v):
    if not v:
        return []
    rid, ps = v
    out = []
    for k, val in ps:
        out.append([common.wstr(k), [val[0], val[1] if val[0] == 1 else common.wstr(val[1])]])
    return [rid, sorted(out)]


def real_find(router, path):
    try:
        return ('ok', canon_find(router.find(path)))
    except Exception as e:  # noqa
        return ('crash', type(e).__name__ + ': ' + str(e)[:120])


def real_add(compiled, router, tpl, rid, comp, resources, asgi=False, rok=True):
    """asgi: the router is used the way falcon.asgi.App uses it (add_route(..., _asgi=True))"""
    try:
        good = AsyncRes if asgi else Res
        bad = Res if asgi else AsyncRes
        res = resources.setdefault(rid, (good if rok else bad)(rid))
        kw = {}
        if comp:
            kw['compile'] = True
        if asgi:
            kw['_asgi'] = True
        router.add_route(tpl, res, **kw)
        return 'ok'
    except compiled.UnacceptableRouteError as e:
        return 'reject'
    except Exception as e:  # noqa
        return 'other:' + type(e).__name__


def rok_of(o):
    return o[4] if len(o) > 4 else True


def model_class(code):
    return 'ok' if code == 0 else 'other:TypeError' if code == 10 else 'reject'


# ------------------------------------------------------------------ finder_src -> cx

RX = [
    (re.compile(r'if path_len (>|==) (\d+):$'), lambda m: [0, 1 if m.group(1) == '>' else 0, int(m.group(2))]),
    (re.compile(r'fragment = groups\.pop\((.*)\)$', re.S), lambda m: [4, ast.literal_eval(m.group(1))]),
    (re.compile(r'fragment = path\[(\d+)\]$'), lambda m: [5, int(m.group(1))]),
    (re.compile(r'fragment = path\[(\d+):\]$'), lambda m: [6, int(m.group(1))]),
    (re.compile(r'dict_match_(\d+) = match\.groupdict\(\)$'), lambda m: [7, int(m.group(1))]),
    (re.compile(r'dict_groups_(\d+) = groups$'), lambda m: [8, int(m.group(1))]),
    (re.compile(r'groups = match\.groupdict\(\)$'), lambda m: [9]),
    (re.compile(r'return None$'), lambda m: [10]),
    (re.compile(r'return return_values\[(\d+)\]$'), lambda m: [11, int(m.group(1))]),
    (re.compile(r'params\[(.*)\] = path\[(\d+)\]$', re.S), lambda m: [12, ast.literal_eval(m.group(1)), int(m.group(2))]),
    (re.compile(r'params\[(.*)\] = field_value_(\d+)$', re.S), lambda m: [13, ast.literal_eval(m.group(1)), int(m.group(2))]),
    (re.compile(r'params\.update\(dict_groups_(\d+)\)$'), lambda m: [14, 1, int(m.group(1))]),
    (re.compile(r'params\.update\(dict_match_(\d+)\)$'), lambda m: [14, 0, int(m.group(1))]),
]
RX_LIT = re.compile(r'if path\[(\d+)\] == (.*):$', re.S)
RX_PAT = re.compile(r'match = patterns\[(\d+)\]\.match\(path\[(\d+)\]\)  # (.*)$', re.S)
RX_CONV = re.compile(r'field_value_(\d+) = converters\[(\d+)\]\.convert\(fragment\)$')


class SrcError(Exception):
    pass


def parse_src(src):
    """The generated finder (a tiny Python subset) -> (cx list in the wire shape of
    Extract.v_cx, {pattern index: pattern text})."""
    lines = src.split('\n')
    if lines[0] != 'def find(path, return_values, patterns, converters, params):' or \
            lines[1] != '    path_len = len(path)' or lines[-1] != '    return None':
        raise SrcError('frame')
    body = [l for l in lines[2:-1]]
    items = []
    for l in body:
        if l.strip() == '':
            items.append((None, ''))
            continue
        ind = len(l) - len(l.lstrip(' '))
        if ind % 4:
            raise SrcError('indent ' + l)
        items.append((ind // 4, l[ind:]))
    pats = {}
    pos = [0]

    def block(level):
        out = []
        while pos[0] < len(items):
            ind, txt = items[pos[0]]
            if ind is None:
                pos[0] += 1
                continue
            if ind < level:
                break
            if ind > level:
                raise SrcError('unexpected indent: ' + txt)
            pos[0] += 1
            m = RX_LIT.match(txt)
            if m:
                try:
                    lit = ast.literal_eval(m.group(2))
                except Exception:
                    raise SrcError('literal ' + txt)
                if not isinstance(lit, str):
                    raise SrcError('literal ' + txt)
                out.append([1, int(m.group(1)), lit, block(level + 1)])
                continue
            m = RX_PAT.match(txt)
            if m:
                pats[int(m.group(1))] = m.group(3)
                nxt = items[pos[0]] if pos[0] < len(items) else (None, '')
                if nxt != (level, 'if match is not None:'):
                    raise SrcError('after match: %r' % (nxt,))
                pos[0] += 1
                out.append([2, int(m.group(2)), int(m.group(1)), block(level + 1)])
                continue
            m = RX_CONV.match(txt)
            if m:
                nxt = items[pos[0]] if pos[0] < len(items) else (None, '')
                if nxt != (level, 'if field_value_%s is not None:' % m.group(1)):
                    raise SrcError('after convert: %r' % (nxt,))
                pos[0] += 1
                out.append([3, int(m.group(1)), int(m.group(2)), block(level + 1)])
                continue
            for rx, f in RX:
                m = rx.match(txt)
                if m:
                    try:
                        node = f(m)
                    except Exception:
                        raise SrcError('name ' + txt)
                    if node[0] == 0:
                        node.append(block(level + 1))
                    out.append(node)
                    break
            else:
                raise SrcError('unknown statement: ' + txt)
        return out

    res = block(1)
    if pos[0] != len(items):
        raise SrcError('trailing')
    return res, pats


def canon_cx(v):
    """wire output of v_cx -> the shape parse_src produces (strings decoded)."""
    out = []
    for c in v:
        t = c[0]
        if t == 0:
            out.append([0, c[1], c[2], canon_cx(c[3])])
        elif t == 1:
            out.append([1, c[1], common.wstr(c[2]), canon_cx(c[3])])
        elif t in (2, 3):
            out.append([t, c[1], c[2], canon_cx(c[3])])
        elif t == 4:
            out.append([4, common.wstr(c[1])])
        elif t in (12, 13):
            out.append([t, common.wstr(c[1]), c[2]])
        else:
            out.append(list(c))
    return out


# ------------------------------------------------------------------ representatives

def representatives(templates, limit=16, rng=None):
    reps = []

    def add(s):
        if s not in reps:
            reps.append(s)
    import random
    r = rng or random.Random(0)
    for tpl in templates:
        for seg in tpl.lstrip('/').split('/'):
            for c in seg_candidates(seg, r, 3):
                add(c)
    for s in ('q', '12', '', 'q\n', '5', '-3', 'a.json', '123', '0'):
        add(s)
    if len(reps) > limit and rng is not None:
        head = reps[:4]
        rest = reps[4:]
        rng.shuffle(rest)
        reps = head + rest[:limit - 4]
    return reps


def paths_for(templates, rng, max_paths):
    depth = max((len(t.lstrip('/').split('/')) for t in templates), default=1)
    reps = representatives(templates, rng=rng)
    paths = []
    total = sum(len(reps) ** k for k in range(1, depth + 2))
    if total <= max_paths:
        for k in range(1, depth + 2):
            for combo in itertools.product(reps, repeat=k):
                paths.append('/' + '/'.join(combo))
    else:
        seen = set()
        # guided: walk every template with probe values for its converter fields (just below /
        # at / above each bound, zero spellings ...), truncated and extended; plus random paths
        for tpl in templates:
            segs = tpl.lstrip('/').split('/')
            for _ in range(max(12, min(40, max_paths // (2 * len(templates) + 1)))):
                p = []
                for seg in segs:
                    if rng.random() < 0.9:
                        p.append(seg_candidates(seg, rng, 1)[0])
                    else:
                        p.append(rng.choice(reps))
                if rng.random() < 0.25:
                    p.append(rng.choice(reps))
                if rng.random() < 0.15 and p:
                    p.pop()
                seen.add('/' + '/'.join(p))
        while len(seen) < max_paths:
            k = rng.randint(1, depth + 1)
            seen.add('/' + '/'.join(rng.choice(reps) for _ in range(k)))
        paths = sorted(seen)
    return paths


# ------------------------------------------------------------------ one history

def check_history(ctx, model, ops, paths=None, max_paths=400, tag='gen', asgi=False):
    """ops: ['add', tpl, rid, compile] | ['find', uri-or-None].  Returns True when clean."""
    import falcon
    from falcon.routing import compiled
    rng = ctx.rng
    templates = [o[1] for o in ops if o[0] == 'add']
    A = compiled.CompiledRouter()
    if paths is None:
        paths = paths_for(templates, rng, max_paths)
    for o in ops:
        if o[0] == 'find' and o[1] is None:
            o[1] = rng.choice(paths)
    segs = {sg for p in list(paths) + [o[1] for o in ops if o[0] == 'find'] for sg in p.lstrip('/').split('/')}
    tab, multi, usable = conv_table(falcon, compiled, A, templates, strings=segs)
    if not usable:
        ctx.count('skipped-unmodelled-converter')
        return True
    resources = {}
    real_ops, wire_ops, accepted = [], [], []
    for o in ops:
        if o[0] == 'add':
            r = real_add(compiled, A, o[1], o[2], o[3], resources, asgi, rok_of(o))
            real_ops.append(r)
            wire_ops.append([0, o[1], o[2], 1 if o[3] else 0, 1 if rok_of(o) else 0])
            if r == 'ok':
                accepted.append(o)
        else:
            if o[1] is None:
                o[1] = rng.choice(paths)
            real_ops.append(real_find(A, o[1]))
            wire_ops.append([1, o[1]])
    try:
        src = A.finder_src
        src_err = None
    except Exception as e:  # noqa
        src, src_err = None, type(e).__name__ + ': ' + str(e)[:100]
    real_paths = [real_find(A, p) for p in paths]
    # the reference router: templates judged against the accepted ones only (a template the
    # full-history router rejected is tried on a fresh router built from the accepted
    # templates, so that nothing a rejection might leave behind can influence it); no compile
    # flags, no interleaved lookups
    def rebuild(acc):
        r = compiled.CompiledRouter()
        for o in acc:
            real_add(compiled, r, o[1], o[2], False, resources, asgi, rok_of(o))
        return r
    B, acc = compiled.CompiledRouter(), []
    for o, r in zip(ops, real_ops):
        if o[0] != 'add':
            continue
        if r == 'ok':
            if real_add(compiled, B, o[1], o[2], False, resources, asgi, rok_of(o)) == 'ok':
                acc.append(o)
            else:
                B = rebuild(acc)
        else:
            trial = rebuild(acc)
            if real_add(compiled, trial, o[1], o[2], False, resources, asgi, rok_of(o)) == 'ok':
                acc.append(o)
                B = trial
    ref_paths = [real_find(B, p) for p in paths]

    n_hist = len(wire_ops)
    wire_ops.append([2])
    for p, rp in zip(paths, real_paths):
        wire_ops.append([1, p])
        wire_ops.append([3, p, rp[1] if rp[0] == 'ok' else []])
    outs = model.run([3, tab, multi, wire_ops])
    hist = {'history': [list(o) for o in ops], 'tag': tag, 'asgi': asgi}
    clean = True
    found = False

    def viol(kind, detail, key, found_input=True):
        nonlocal clean, found
        clean = False
        found = found or found_input
        ctx.violation(kind, dict(hist, **detail), found_input=found_input, key=key)

    # --- binding, implementation only: lookups never raise; rejected templates / laziness are invisible
    for o, r in zip(ops, real_ops):
        if o[0] == 'find' and r[0] == 'crash':
            viol('lookup-internal-error', {'path': o[1], 'impl': r[1], 'paths': [o[1]]}, 'crash')
    for p, ra, rb in zip(paths, real_paths, ref_paths):
        if ra[0] == 'crash':
            viol('lookup-internal-error', {'path': p, 'impl': ra[1], 'paths': [p]}, 'crash')
        elif ra != rb:
            rejected = [o[1] for o, r in zip(ops, real_ops) if o[0] == 'add' and r != 'ok']
            viol('history-changes-lookup',
                 {'path': p, 'impl': ra, 'reference_router_without_rejected': rb, 'rejected': rejected,
                  'paths': [p], 'what': 'router with rejected templates / compile flags / interleaved lookups '
                                        'answers differently from a fresh router given only the accepted templates'},
                 'history-changes-lookup')
    # --- tie 1: accept / reject
    mismatch = False
    for i, (o, r, m) in enumerate(zip(ops, real_ops, outs[:n_hist])):
        if o[0] == 'add':
            mres = model_class(m[1])
            ctx.count('add-' + (r if r in ('ok', 'reject') else 'other'))
            if mres != r:
                mismatch = True
                ctx.advisory.append({'add_route': o[1], 'impl': r, 'model': ERR_NAMES.get(m[1])})
                if r.startswith('other:'):
                    # an internal error out of add_route is not an orderly rejection
                    viol('add-route-internal-error', {'template': o[1], 'impl': r, 'model': ERR_NAMES.get(m[1]),
                                                      'broken': 'C01.add_route_corr'}, 'add-other', found_input=False)
    if mismatch:
        if not found:
            first = next((o, r, m) for o, r, m in zip(ops, real_ops, outs[:n_hist])
                         if o[0] == 'add' and model_class(m[1]) != r)
            viol('correspondence-broken',
                 {'broken': 'C01.add_route_corr', 'template': first[0][1], 'impl': first[1],
                  'model': ERR_NAMES.get(first[2][1])}, 'corr-add', found_input=False)
        return False
    # --- interleaved lookups vs the walk of the tree as it was then
    for o, r, m in zip(ops, real_ops, outs[:n_hist]):
        if o[0] == 'find' and r[0] == 'ok':
            want = canon_model(m[2])
            if r[1] != want:
                viol('lookup-differs-from-tree-walk', {'path': o[1], 'impl': r[1], 'tree_walk': want,
                                                       'paths': [o[1]], 'when': 'interleaved'}, 'dfs')
            mf = m[1]
            if mf[0] != 0 or canon_model(mf[1]) != want:
                viol('model-find-differs-from-dfs', {'path': o[1], 'model_find': mf, 'tree_walk': want,
                                                     'broken': 'C01.compile_correct'}, 'model-cc', found_input=False)
    # --- tie 3: every path, judged by the proved oracle
    dump = outs[n_hist]
    nontriv = 0
    for j, (p, rp) in enumerate(zip(paths, real_paths)):
        m_find = outs[n_hist + 1 + 2 * j]
        verdict = outs[n_hist + 2 + 2 * j]
        want = canon_model(m_find[2])
        if rp[0] == 'ok':
            if verdict[1] != 1:
                viol('lookup-differs-from-tree-walk', {'path': p, 'impl': rp[1], 'tree_walk': want, 'paths': [p]}, 'dfs')
            elif rp[1] != want:       # the Python-side comparison must agree with the extracted oracle
                viol('harness-oracle-disagree', {'path': p, 'impl': rp[1], 'tree_walk': want,
                                                 'broken': 'C01.find_oracle encoding'}, 'enc', found_input=False)
        mf = m_find[1]
        if dump[4] == 1 and (mf[0] != 0 or canon_model(mf[1]) != want):
            viol('model-find-differs-from-dfs', {'path': p, 'model_find': mf, 'tree_walk': want,
                                                 'broken': 'C01.compile_correct'}, 'model-cc', found_input=False)
        if want:
            nontriv += 1
    # --- the model tree of an accepted history is well-formed (C01_reachable_wf)
    if dump[4] != 1:
        viol('model-tree-not-wf', {'broken': 'C01.reachable_wf', 'tree': dump[3]}, 'wf', found_input=False)
    # --- ... and its finder compiles (C01_wf_compiles, executed)
    if dump[5] != 1:
        viol('model-finder-does-not-compile', {'broken': 'C01.compiles_ok', 'tree': dump[3]}, 'cok', found_input=False)
    # --- tie 2: translation validation of the generated finder
    if src is None:
        if not found:
            viol('lookup-internal-error', {'path': '/', 'impl': src_err, 'paths': ['/']}, 'crash')
    else:
        try:
            real_ast, pats = parse_src(src)
            model_ast = canon_cx(dump[1])
            if real_ast != model_ast:
                ctx.count('ast-mismatch')
                viol('correspondence-broken',
                     {'broken': 'C01.gen_ast_corr (finder_src differs from the model generator)',
                      'finder_src': src, 'model_ast': model_ast, 'impl_ast': real_ast},
                     'corr-ast', found_input=found)
            else:
                ctx.count('ast-equal')
            # the pattern texts (public, in the source comments) against match_pieces
            check_patterns(ctx, model, pats, templates, paths, viol)
        except SrcError as e:
            viol('correspondence-broken', {'broken': 'C01.gen_ast_corr (finder_src not in the generated subset)',
                                           'error': str(e), 'finder_src': src}, 'corr-src', found_input=found)
    ctx.note_case((tag, json.dumps([o[:4] for o in ops if o[0] == 'add'])), nontriv > 0)
    ctx.count('lookups', len(paths))
    ctx.count('lookups-matched', nontriv)
    return clean


_pat_seen = {}


def check_patterns(ctx, model, pats, templates, paths, viol):
    """each pattern text of the finder (comment in finder_src) must be the pattern of one of
    the route set's complex segments, and behave like match_pieces on the path segments"""
    from falcon.routing import compiled
    segs = sorted({s for t in templates for s in t.lstrip('/').split('/') if '{' in s})
    by_text = {}
    for s in segs:
        try:
            n = compiled.CompiledRouterNode(s)
        except Exception:
            continue
        if n.var_pattern is not None:
            by_text[n.var_pattern.pattern] = s
    strings = sorted({s for p in paths for s in p.lstrip('/').split('/')})
    cases, meta = [], []
    for idx, text in pats.items():
        rawseg = by_text.get(text)
        if rawseg is None:
            viol('correspondence-broken', {'broken': 'C01.pattern_corr', 'pattern': text}, 'corr-pat', found_input=False)
            continue
        if '\\' in rawseg:
            continue
        key = (text, rawseg)
        todo = [s for s in strings if (key, s) not in _pat_seen]
        rx = re.compile(text)
        for s in todo:
            _pat_seen[(key, s)] = True
            m = rx.match(s)
            cases.append([1, rawseg, s])
            meta.append((rawseg, text, s, None if m is None else m.groupdict()))
    if cases:
        outs = model.run_many(cases)
        for (rawseg, text, s, want), o in zip(meta, outs):
            got = None if not o[1] else {common.wstr(k): common.wstr(v) for k, v in o[1][0]}
            if got != want:
                viol('correspondence-broken', {'broken': 'C01.seg_match_corr', 'segment': rawseg, 'pattern': text,
                                               'string': s, 're': want, 'model': got}, 'corr-segmatch', found_input=False)


# ------------------------------------------------------------------ scanners vs re (tie 5)

def lib_corr(ctx, model):
    from falcon.routing import compiled, converters
    viol = lambda kind, d, key: ctx.violation(kind, d, found_input=False, key=key)  # noqa
    # parse_seg vs _FIELD_PATTERN.finditer
    alpha = ['{', '}', ':', '(', ')', 'a']
    maxlen = 6 if ctx.tier == 'quick' else 7
    strs = ['']
    for k in range(1, maxlen + 1):
        strs += [''.join(t) for t in itertools.product(alpha, repeat=k)]
    strs += ['{x:int(2)}', '{a}-{b:int(min=1, max=2)}.x', 'a{b:c(d)e}', '{a:b(c)}{d}', '/{a/b}', '{x:y(z})}', '{{x}}',
             '{x:int(})', 'é{ü}', '{x:(}', '{a\n}', '{:}', '{:(})}']
    outs = model.run_many([[0, s] for s in strs])
    n_bad = 0
    for s, o in zip(strs, outs):
        want, pos = [], 0
        for m in compiled._FIELD_PATTERN.finditer(s):
            want += [[0, ord(c)] for c in s[pos:m.start()]]
            cn = m.group('cname')
            if m.group('cname_sep') is None:
                cn = None
            want.append([1, m.group('fname'), cn, m.group('argstr')])
            pos = m.end()
        want += [[0, ord(c)] for c in s[pos:]]
        got = []
        for p in o[1]:
            if p[0] == 0:
                got.append([0, p[1]])
            else:
                got.append([1, common.wstr(p[1]), common.wopt(p[2], common.wstr), common.wopt(p[3], common.wstr)])
        if got != want and n_bad < 3:
            n_bad += 1
            viol('correspondence-broken', {'broken': 'C01.parse_seg_corr', 'string': s, 're': want, 'model': got}, 'corr-parse')
    ctx.count('parse_seg-vs-re', len(strs))
    for i in range(0, len(strs), 97):
        ctx.note_case(('parse', strs[i]), '{' in strs[i])
    # match_pieces vs the compiled segment pattern
    raws = ['{x}.json', '{a}-{b}', '{a}.{b}', 'x{a}', '{a}x', '{a}{b}', 'a{x}a', '{a}-{b}-{c}', '{a}.-{b}', '-{a}',
            '{a}a{b}', '.{a}.', '{x}}', '({x})', '{x}$', '{a}+{b}', '{a}|x', '[{a}]', '{a}?', '{a}*{b}', '^{a}']
    alpha2 = ['a', '.', '-', '\n', 'x']
    maxl = 5 if ctx.tier == 'quick' else 6
    ss = ['']
    for k in range(1, maxl + 1):
        ss += [''.join(t) for t in itertools.product(alpha2, repeat=k)]
    ss += ['(a)', 'a$', 'a+a', 'a|x', '[a]', 'a?', 'a*a', '^a', 'a}', 'aa\n', 'a\n\n']
    cases, meta = [], []
    for rw in raws:
        node = compiled.CompiledRouterNode(rw)
        rx = node.var_pattern
        for s in ss:
            m = rx.match(s)
            cases.append([1, rw, s])
            meta.append((rw, s, None if m is None else m.groupdict()))
    outs = model.run_many(cases)
    n_bad = 0
    for (rw, s, want), o in zip(meta, outs):
        got = None if not o[1] else {common.wstr(k): common.wstr(v) for k, v in o[1][0]}
        if got != want and n_bad < 3:
            n_bad += 1
            viol('correspondence-broken', {'broken': 'C01.seg_match_corr', 'segment': rw, 'string': s, 're': want,
                                           'model': got}, 'corr-segmatch')
    ctx.count('seg_match-vs-re', len(cases))
    for i in range(0, len(cases), 997):
        ctx.note_case(('segmatch', i), meta[i][2] is not None)
    # int_convert vs IntConverter.convert
    cfgs = [(None, None, None), (2, None, None), (None, 5, None), (1, None, 7), (3, None, 500), (None, -3, 3),
            (None, 0, None), (None, None, 0), (None, 0, 0), (1, 0, None), (2, None, 0), (None, -1, 0), (None, 0, 1)]
    alpha3 = ['0', '1', '9', '_', '+', '-', ' ', 'a', '\n']
    ss = ['']
    for k in range(1, 5):
        ss += [''.join(t) for t in itertools.product(alpha3, repeat=k)]
    ss += ['123', '0123', '1_000', '500', '501', '\t1', '1\x0b', '1 ', '12345678901234567890123', '-0', '+-1']
    cases, meta = [], []
    o_ = lambda v: [] if v is None else [v]  # noqa
    for nd, mn, mx in cfgs:
        c = converters.IntConverter(nd, mn, mx)
        for s in ss:
            cases.append([2, o_(nd), o_(mn), o_(mx), s])
            meta.append(((nd, mn, mx), s, c.convert(s)))
    outs = model.run_many(cases)
    n_bad = 0
    for (cfg, s, want), o in zip(meta, outs):
        got = o[1][0] if o[1] else None
        if got != want and n_bad < 3:
            n_bad += 1
            viol('correspondence-broken', {'broken': 'C01.int_convert_corr', 'cfg': cfg, 'string': s, 'impl': want,
                                           'model': got}, 'corr-int')
    ctx.count('int_convert-vs-impl', len(cases))
    for i in range(0, len(cases), 997):
        ctx.note_case(('int', i), meta[i][2] is not None)


def float_corr(ctx, model):
    """float_convert (bounds / finite / strip modelled, float() an oracle) vs FloatConverter.convert"""
    from falcon.routing import converters
    viol = lambda kind, d, key: ctx.violation(kind, d, found_input=False, key=key)  # noqa
    cfgs = [(None, None, True), (0, None, True), (None, 0, True), (0.0, 0.0, True), (-1.5, 2.5, True),
            (None, None, False), (0, None, False), (None, 0, False), (1.5, 1.5, True), (0.5, None, True),
            (None, -0.5, True), (-0.0, None, True)]
    alpha = ['0', '1', '5', '.', '-', '+', 'e', ' ', 'n', 'a', 'i', 'f', '_']
    ss = ['']
    for k in range(1, 4):
        ss += [''.join(t) for t in itertools.product(alpha, repeat=k)]
    ss += ['-0.0', '+0.0', '0.5', '-0.5', '1.5', '2.5', '2.6', '-1.5', '-1.6', 'nan', '-nan', 'inf', '-inf', 'infinity',
           '1e400', '-1e400', '1e-400', '0.49999999999999994', '1_0', ' 1', '1 ', '\t1', '1\n', '00', '0x1', '1e0',
           '.5', '5.', '٣', 'Infinity', 'NaN']
    tbl = float_oracle(ss)
    cases, n_bad = [], 0
    for mn, mx, fin in cfgs:
        c = converters.FloatConverter(mn, mx, fin)
        out = model.run([4, rat(mn), rat(mx), 1 if fin else 0, tbl, ss])
        for st, o in zip(ss, out[1]):
            v = c.convert(st)
            want = None if v is None else other_repr(v)
            got = common.wstr(o[0][1]) if o else None
            cases.append(want)
            if got != want and n_bad < 3:
                n_bad += 1
                viol('correspondence-broken', {'broken': 'C01.float_convert_corr', 'cfg': (mn, mx, fin), 'string': st,
                                               'impl': want, 'model': got}, 'corr-float')
    meta = [(None, None, w) for w in cases]
    ctx.count('float_convert-vs-impl', len(cases))
    for i in range(0, len(cases), 997):
        ctx.note_case(('float', i), meta[i][2] is not None)


# ------------------------------------------------------------------ entry points

FIXED_RESOURCE_HISTORIES = [
    # add_route refused because of the RESOURCE (responders of the wrong kind for the router): for an
    # existing template (must not override), for a new one (must not become routable), before and after
    # compilation, with and without the compile flag
    [['add', '/a', 0, False, True], ['find', '/a'], ['add', '/a', 1, False, False], ['find', '/a'],
     ['add', '/b', 2, False, False], ['find', '/b'], ['add', '/c', 3, True, True], ['find', '/b'], ['find', '/a']],
    [['add', '/u/{id}', 0, True, True], ['add', '/u/{id}', 1, True, False], ['add', '/u/{id}/x', 2, False, False],
     ['find', '/u/7'], ['find', '/u/7/x'], ['add', '/u/{id}/y', 3, False, True], ['find', '/u/7/x'], ['find', '/u/7']],
    [['add', '/n/{k:int}', 0, False, False], ['add', '/n/{name}', 1, False, True], ['find', '/n/5'],
     ['add', '/n/{name}', 2, False, False], ['find', '/n/q']],
]

FIXED_HISTORIES = [
    # a route added after compilation that ends on an existing intermediate node
    [['add', '/users/{id}/posts', 0, False], ['find', '/users/7/posts'], ['add', '/users/{id}', 1, False],
     ['find', '/users/7'], ['add', '/users', 2, False], ['find', '/users'], ['add', '/users/{id}', 3, False],
     ['find', '/users/8']],
    # converter bounds at zero: the veto must send the walk on to the single-field sibling
    [['add', '/v/{n:int(max=0)}-{m}', 0, False], ['add', '/v/{name}', 1, False], ['find', '/v/5-x'], ['find', '/v/0-x'],
     ['find', '/v/-1-x'], ['find', '/v/-0-x']],
    [['add', '/pages/{n:int(min=0)}', 0, False], ['add', '/pages/{n:int(min=0)}/x', 1, True], ['add', '/{a}/{b}', 2, False],
     ['find', '/pages/-1'], ['find', '/pages/0'], ['find', '/pages/-0'], ['find', '/pages/-1/x']],
    [['add', '/f/{x:float(min=0)}', 0, False], ['add', '/f/{y:float(max=0)}/neg', 1, False], ['add', '/f/{s}/neg', 2, False],
     ['find', '/f/-0.5'], ['find', '/f/0.5/neg'], ['find', '/f/-0.5/neg'], ['find', '/f/-0.0/neg'], ['find', '/f/nan']],
    [['add', '/{x:float(min=0.0, max=0.0)}-{r}', 0, False], ['add', '/{i:int(min=0, max=0)}', 1, False], ['add', '/{any}', 2, False],
     ['find', '/0-a'], ['find', '/1-a'], ['find', '/-1-a'], ['find', '/0'], ['find', '/1'], ['find', '/00']],
    # every built-in converter vetoes and the walk backtracks
    [['add', '/o/{u:uuid}', 0, False], ['add', '/o/{d:dt}', 1, False], ['add', '/o/{f:float}', 2, False],
     ['add', '/o/{u:uuid}/x', 3, False], ['add', '/o/{p:path}', 4, False], ['find', '/o/' + UUIDS[0]], ['find', '/o/zz'],
     ['find', '/o/' + UUIDS[1] + '/x'], ['find', '/o/zz/x']],
    [['add', '/e/{d:dt(\"%Y-%m-%d\")}/{rest}', 0, False], ['add', '/e/{name}/{n:int(2)}', 1, False],
     ['find', '/e/2020-01-02/07'], ['find', '/e/2020-13-02/07'], ['find', '/e/2020-13-02/7']],
    # defect candidates of DESIGN.md section 10 and their neighbours
    [['add', "/it's", 0, False], ['find', "/it's"], ['find', '/x']],
    [['add', '/a\\b', 0, False], ['find', '/a\\b']],
    [['add', '/{y}/{x:path}/b', 0, False], ['add', '/{z}/foo', 1, False], ['find', '/q/foo']],
    [['add', '/new/{x:path}.json', 0, False], ['add', '/new', 1, True], ['find', '/new']],
    [['add', '/{a\n}', 0, False], ['find', '/x']],
    [['add', '/{a}-{b\n}', 0, False], ['find', '/x-y']],
    [['add', '/a/{x}/c', 0, True], ['add', '/a/{y}/d', 1, False], ['find', '/a/q/c'], ['find', '/a/q/d']],
    [['add', '/a/b', 0, False], ['add', '/a/c', 1, False], ['add', '/a/{x}/d', 2, True], ['find', '/a/b/d']],
    [['add', '/{x}.json', 0, False], ['add', '/{y}.json', 1, False], ['add', '/{x}.{e}', 2, False], ['find', '/a.json']],
    [['add', '/f/{p:path}', 0, False], ['add', '/f/{p:path}/x', 1, False], ['add', '/f/a/b', 2, False],
     ['find', '/f/a/b'], ['find', '/f/a/c'], ['find', '/f']],
    [['add', '/{n:int(2)}', 0, False], ['add', '/{n:int(2)}/x', 1, False], ['add', '/{a}-{b}', 2, False],
     ['add', '/{n:int}-{m}/x', 3, False], ['find', '/12'], ['find', '/1-2/x'], ['find', '/q-2/x']],
    [['add', '/a', 0, False], ['add', '/a', 1, False], ['find', '/a']],
    [['add', '/a/{x}', 0, False], ['add', '/a/{x}/b', 1, False], ['add', '/a/c/b', 2, False], ['find', '/a/c'],
     ['find', '/a/c/b'], ['find', '/a/c/x']],
]


def main(ctx):
    model = common.Model(ctx)
    ctx.cov['rule'] = ('one case = one generated history of add_route calls (accepted and rejected, compile flag, '
                       'interleaved lookups) checked on all paths up to depth+1 over its representative segment set '
                       '(or a guided sample when that exceeds the per-history budget): accept/reject vs model, '
                       'finder_src == model generator output, every lookup vs the proved tree-walk oracle, and vs a '
                       'fresh router with only the accepted templates. non-trivial = at least one lookup of the '
                       'history matched a route. Plus scanner-vs-re cases (sampled into the count).')
    ctx.assumptions += [
        'converter instantiation eval("Klass(argstr)") is an oracle: the harness instantiates the real class and '
        'passes (num_digits, min, max) of IntConverter / the identity of PathConverter to the model',
        'Python re semantics for the generated segment patterns = match_pieces (cross-checked exhaustively on short strings)',
        'converters other than int and path (uuid, dt, float, custom) are parameters of the theorems; not generated',
        'a backslash inside a multi-field segment is outside the modelled domain of match_pieces',
    ]
    for o in common.corpus('C01'):
        replay(ctx, o)
    lib_corr(ctx, model)
    float_corr(ctx, model)
    for h in FIXED_HISTORIES:
        check_history(ctx, model, [list(o) for o in h], tag='fixed')
    for h in FIXED_RESOURCE_HISTORIES:
        for asgi in (False, True):
            check_history(ctx, model, [list(o) for o in h], tag='fixed-resource', asgi=asgi)
    n_hist = 260 if ctx.tier == 'quick' else 2600
    budget = 120 if ctx.tier == 'quick' else 900
    done = 0
    for i in range(n_hist):
        if ctx.time_left(budget) < 0:
            break
        n_add = ctx.rng.choice([2, 3, 4, 5, 6, 8, 12] if i % 10 else [20, 30])
        ops = gen_history(ctx.rng, n_add)
        check_history(ctx, model, ops, max_paths=300 if ctx.tier == 'quick' else 600, asgi=(i % 3 == 2))
        done += 1
        if i < 2:
            ctx.sample({'history': [o[:4] for o in ops if o[0] == 'add'][:6]})
    ctx.count('histories', done)


def replay(ctx, obj):
    model = common.Model(ctx)
    if 'history' not in obj:
        return main(ctx)
    ops = [list(o) for o in obj['history']]
    paths = obj.get('paths')
    extra = [o[1] for o in ops if o[0] == 'find' and o[1] is not None]
    if paths is not None:
        paths = list(dict.fromkeys(list(paths) + extra + ['/']))
    check_history(ctx, model, ops, paths=paths, tag='replay:' + str(obj.get('_file', '')), asgi=bool(obj.get('asgi')))
