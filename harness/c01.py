def main(ctx):
    pass
