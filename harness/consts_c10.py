"""C10: tables of falcon/util/uri.py that coq/gen/Consts.v does not carry: the _HEX_TO_BYTE
dictionary (key bytes -> value bytes, in dict order) and which token joiner decode() uses."""


def emit(A, nlist, strlit, strlist):
    from falcon.util import uri
    A('(* falcon/util/uri.py:_HEX_TO_BYTE  (key bytes, value bytes) *)')
    items = ['(%s, %s)' % (nlist(k), nlist(v)) for k, v in uri._HEX_TO_BYTE.items()]
    A('Definition uri_HEX_TO_BYTE : list (list N * list N) := [%s].' % '; '.join(items))
    A('')
    A('(* decode() hands long inputs to _join_tokens_bytearray (CPython) *)')
    A('Definition uri_join_is_bytearray : bool := %s.'
      % ('true' if uri._join_tokens is uri._join_tokens_bytearray else 'false'))
