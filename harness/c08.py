"""C08 — query-string parsing, request getters and to_query_str against the extracted Coq model
(coq/C08/Model.v) and the reference reading / reference getters of coq/C08/Spec.v."""
import datetime
import itertools
import json
import uuid

import common
from c10 import FastModel, load_cy_uri

ALPHABET = ['&', '=', ',', '+', '%', '4', '1', 'a', 'f', 'G', '\x00', '\xe9']
OPTS = [(False, False), (False, True), (True, False), (True, True)]   # (keep_blank, csv)
SENTINEL = object()


def short_strings(alphabet, maxlen):
    for n in range(maxlen + 1):
        for t in itertools.product(alphabet, repeat=n):
            yield ''.join(t)


def canon_params(d):
    """dict from the implementation -> [(key, value)] in insertion order"""
    return [(k, list(v) if isinstance(v, list) else v) for k, v in d.items()]


def m_params(v):
    out = []
    for k, pv in v:
        if pv[0] == 0:
            out.append((common.wstr(k), common.wstr(pv[1])))
        else:
            out.append((common.wstr(k), [common.wstr(x) for x in pv[1]]))
    return out


def w_params(ps):
    return [[k, [1, list(v)] if isinstance(v, list) else [0, v]] for k, v in ps]


def int_domain(s):
    """int() is modelled on its ASCII grammar: a non-ASCII digit or space is outside the model"""
    return all(ord(c) < 128 or not (c.isspace() or c.isdecimal() or c.isdigit() or c.isnumeric()) for c in s)


def history_part(ctx, uri, model):
    """parse_query_string / decode are pure: fresh strings, every option setting in a random order, repeated
    and interleaved; every result must equal the model's whatever was called before"""
    rng = ctx.rng
    seeds = ['a=1,2&a=%2C', 'k=%41+b&k', 'x=%zz&=&y', 'caf%C3%A9=1&caf\xe9=2', 'a=,&a=,', 't=1&t=,1,4,,5', '%41=%41&%2541=%2541']
    strings = [rng.choice(seeds) + '&h%d=%d' % (i, i) for i in range(600 if ctx.tier == 'quick' else 4000)]
    calls = []
    for s_ in strings:
        per = [('p', kb, csv) for kb, csv in OPTS] + [('d', True), ('d', False)]
        rng.shuffle(per)
        per += [rng.choice(per) for _ in range(2)]
        calls += [(s_, c) for c in per]
    for i in range(0, len(calls), 48):
        blk = calls[i:i + 48]
        rng.shuffle(blk)
        calls[i:i + 48] = blk
    uniq = sorted({(s_, c) for s_, c in calls if c[0] == 'p'}, key=repr)
    exp = dict(zip(uniq, (m_params(o[1]) for o in model.run_many([[0, s_, c[1], c[2]] for s_, c in uniq]))))
    seen = {}
    for i, (s_, c) in enumerate(calls):
        r = canon_params(uri.parse_query_string(s_, keep_blank=c[1], csv=c[2])) if c[0] == 'p' else uri.decode(s_, c[1])
        ctx.count('history')
        ctx.note_case(('hist', i), True)
        first = seen.setdefault((s_, c), r)
        if r != first or (c[0] == 'p' and r != exp[(s_, c)]):
            ctx.violation('result-depends-on-call-history',
                          {'fn': 'parse_query_string' if c[0] == 'p' else 'decode', 'input': s_, 'call': list(map(str, c)),
                           'impl': r, 'reference': exp.get((s_, c)), 'first_result_of_same_call': first,
                           'earlier_calls_on_this_string': [list(map(str, cc)) for ss, cc in calls[:i] if ss == s_],
                           'clause': 'parsing is a function of the query string and the options only'},
                          key='history-' + c[0])


def long_component_queries(ctx):
    """C10's long-path families inside query strings: a component with seven valid escapes plus a
    malformed / truncated / odd escape (1 hex digit, hex+space, '+' inside, non-hex, lone '%', '%%',
    non-ASCII) at the end or in the middle, as a name and as a value, alone, repeated, and in a
    comma list."""
    shapes = ['%', '%%', '%1', '%a', '%g', '%1g', '%g1', '%+1', '%1+', '%a+', '% 1', '%1 ', '%4', '%41', '%4G', '%zz',
              '%\xe9', '%1\xe9', '%e2%82', '%E2%82%AC', '%ff', '%c3%a9', '%2C', '%2c', '%26', '%3D', '%25', '%0', '%00']
    if ctx.tier != 'quick':
        shapes += ['%' + t for t in short_strings(['%', '+', '4', 'a', 'g', ' ', ','], 3)]
    pre7, pre3, post4 = '%41' * 7, '%41' * 3, '%42' * 4
    comps = []
    for sh in shapes:
        comps += [pre7 + sh, pre3 + sh + post4, sh + pre7, pre7 + sh + 'x']
    out = []
    for c in comps:
        out += [c + '=v', 'k=' + c, 'k=' + c + ',' + c, 'k=1&k=' + c, c + '=' + c, 'a=1&' + c + '&b=' + c]
    return out


def random_queries(ctx, n):
    rng = ctx.rng
    names = ['a', 'b', 'id', 'x%20y', 'caf%C3%A9', '', 'a+b', '%', 'q', 'G', '\xe9', 'a%3Db', '\u2660', 'k\u20ac']
    vals = ['1', '42', '-7', '+5', ' 8 ', 'true', 'false', 'yes', 'off', 'T', '', 'a,b', ',', ',,', '1,2,3', '%2C', 'x%2Cy,z',
            '%41', '%4', '%zz', '%', '+', 'caf%C3%A9', '%E2%82%AC', '%FF', '1_0', '0x1f', '1e3', '1.5', 'nan', 'a=b', '==',
            '12345678901234567890123', '\x00', '%00', '4 1', 'on', 'n', '0', 'True', 'False', 'f', 't', 'y', 'no',
            '\u2660', '%41\u2660', '\u20ac,\xe9', 'caf\xe9', '\U0001F600+%F0%9F%98%80']
    out = []
    for _ in range(n):
        k = rng.choice([1, 2, 3, 5, 9, 40])
        parts = []
        for _ in range(k):
            r = rng.random()
            nm = rng.choice(names if r < 0.8 else names[:3])
            if r < 0.1:
                parts.append(nm)
            else:
                parts.append(nm + '=' + rng.choice(vals))
        sep = '&' if rng.random() < 0.9 else '&&'
        out.append(sep.join(parts))
    # a few long ones (several KB)
    for _ in range(max(2, n // 50)):
        out.append('&'.join('%s=%s' % (rng.choice(names), rng.choice(vals)) for _ in range(600)))
    return out


# ------------------------------------------------------------------ main

def main(ctx):
    import falcon  # noqa: F401
    from falcon import uri
    model = FastModel(ctx)
    ctx.cov['rule'] = ('key = (function, options, input); every case runs the real function and the extracted model '
                       'and is judged by the Spec (ref_parse / reference getters / round trip); non-trivial = the '
                       'mapping is non-empty (parse), a value was found or a 400 raised (getters), or the rendered '
                       'string is non-empty (to_query_str)')
    ctx.assumptions.append('int() modelled on its ASCII grammar (values with non-ASCII digits/spaces are skipped for the int getter)')
    ctx.assumptions.append('float(), uuid.UUID, strptime, json handler are oracles: only falcon\'s wrapping is checked')
    for o in common.corpus('C08'):
        replay(ctx, o)
    history_part(ctx, uri, model)
    maxlen = 4 if ctx.tier == 'quick' else 5
    strings = list(short_strings(ALPHABET, maxlen))
    ctx.cov['exhaustive_short'] = 'all %d strings of length <= %d over %r x 4 option settings' % (
        len(strings), maxlen, ''.join(ALPHABET))
    rnd = random_queries(ctx, 1000 if ctx.tier == 'quick' else 6000)
    longc = long_component_queries(ctx)
    ctx.cov['long_components'] = ('%d queries whose name or value has >= 8 percent tokens (decode()\'s '
                                  '_join_tokens path) with every malformed-escape shape in the middle / at the end'
                                  % len(longc))
    parse_part(ctx, uri, model, strings + longc + rnd)
    req_strings = list(short_strings(ALPHABET, 4)) + longc + rnd
    if ctx.tier != 'quick':
        req_strings += ctx.rng.sample(strings, 80000)
    request_part(ctx, model, req_strings)
    bounds_part(ctx, model)
    converter_part(ctx, model)
    to_qs_part(ctx, uri, model)


def parse_part(ctx, uri, model, strings):
    corr = None
    cy = load_cy_uri()
    ctx.cov['cython_twin_parse'] = 'cross-checked' if cy else 'no built artifact in VERIF_REPO'
    for kb, csv in OPTS:
        outs = model.run_many([[0, s, kb, csv] for s in strings])
        for s, o in zip(strings, outs):
            try:
                r = canon_params(uri.parse_query_string(s, keep_blank=kb, csv=csv))
            except Exception as e:  # noqa: BLE001
                ctx.violation('parse-raised', {'fn': 'parse_query_string', 'input': s, 'keep_blank': kb, 'csv': csv,
                                               'impl': type(e).__name__, 'clause': 'parsing never fails'},
                              key='parse-raised')
                continue
            ref = m_params(o[1])
            ctx.count('parse')
            if cy is not None:
                try:
                    rc = canon_params(cy.parse_query_string(s, kb, csv))
                except Exception as e:  # noqa: BLE001
                    rc = type(e).__name__
                ctx.count('cy-parse')
                if rc != ref:
                    ctx.violation('parse-not-reference',
                                  {'fn': 'cyutil.uri.parse_query_string', 'input': s, 'keep_blank': kb, 'csv': csv,
                                   'impl': rc, 'reference': ref,
                                   'clause': 'mapping equals the form-urlencoded reference reading (Cython twin)'},
                                  key='cy-parse-ref')
            ctx.note_case(('p', s, kb, csv), bool(r))
            if r != ref:
                ctx.violation('parse-not-reference',
                              {'fn': 'parse_query_string', 'input': s, 'keep_blank': kb, 'csv': csv, 'impl': r,
                               'reference': ref, 'clause': 'mapping equals the form-urlencoded reference reading'},
                              key='parse-ref')
            elif (o[0][0] != 1 or m_params(o[0][1]) != r) and corr is None:
                corr = {'fn': 'parse_query_string', 'input': s, 'keep_blank': kb, 'csv': csv, 'impl': r,
                        'model': o[0]}
    ctx.sample({'parse_query_string': 'a=1,2&b=%E2%82%AC&a=+x', 'csv': True,
                'impl': uri.parse_query_string('a=1,2&b=%E2%82%AC&a=+x', csv=True)})
    if corr:
        ctx.violation('correspondence-broken', dict(corr, broken='C08.parse_corr'),
                      found_input=bool(ctx.violations), key='parse-corr')


# ---- getters

def observe(falcon, fn, name, **kw):
    """-> wire-comparable outcome: [0, v] found (and stored), [1] default returned, [2] missing,
    [3] invalid, ['exc', class] anything else"""
    store = {}
    try:
        v = fn(name, store=store, default=SENTINEL, **kw)
    except falcon.HTTPMissingParam:
        return [2] if not store else ['inconsistent', 'stored although raising']
    except falcon.HTTPInvalidParam:
        return [3] if not store else ['inconsistent', 'stored although raising']
    except falcon.HTTPBadRequest as e:
        return ['exc400', type(e).__name__]
    except Exception as e:  # noqa: BLE001
        return ['exc', type(e).__name__]
    if v is SENTINEL:
        return [1] if not store else ['inconsistent', 'stored although default returned']
    if store != {name: v}:
        return ['inconsistent', 'value returned but store is %r' % (store,)]
    return [0, v]


def dec_outcome(o, f=lambda x: x):
    return [0, f(o[1])] if o[0] == 0 else [o[0]]


def via(get_outcome, conv, lo=None, hi=None):
    """falcon's wrapping around a converter oracle (Model.get_param_conv / get_param_via):
    found -> convert (ValueError = invalid), then bounds"""
    if get_outcome[0] != 0:
        return get_outcome
    try:
        x = conv(get_outcome[1])
    except ValueError:
        return [3]
    if lo is not None and x < lo:
        return [3]
    if hi is not None and hi < x:
        return [3]
    return [0, x]


def same(a, b):
    if a[0] == 0 and b[0] == 0:
        x, y = a[1], b[1]
        if isinstance(x, float) and isinstance(y, float):
            return repr(x) == repr(y)
        return type(x) is type(y) and x == y
    return a == b


def request_part(ctx, model, strings):
    import falcon
    from falcon import testing
    corr = None
    rng = ctx.rng
    jobs = []
    # every option setting for the shortest strings, a seeded one for the rest
    plan = [(s, o) for s in strings if len(s) <= 2 for o in OPTS] + [(s, rng.choice(OPTS)) for s in strings if len(s) > 2]
    for s, (kb, csv) in plan:
        req_flag = rng.random() < 0.3
        mn = rng.choice([None, None, 0, -1, 1, 4, 5, 41])
        mx = rng.choice([None, None, 0, -1, 1, 3, 4, 41])
        bat = rng.random() < 0.7
        if s.isascii():
            transports = [rng.choice(TRANSPORTS[:2])]
        else:
            # a literal non-ASCII character: every way the str reaches a Request
            transports = TRANSPORTS
        for tr in transports:
            jobs.append((s, kb, csv, tr, req_flag, mn, mx, bat))
    reqs, cases = [], []
    for (s, kb, csv, tr, req_flag, mn, mx, bat) in jobs:
        opts = falcon.RequestOptions()
        opts.keep_blank_qs_values = kb
        opts.auto_parse_qs_csv = csv
        try:
            req = make_request(testing, s, tr, opts)
        except Exception as e:  # noqa: BLE001
            ctx.violation('request-raised', {'fn': 'Request', 'query_string': s, 'keep_blank': kb, 'csv': csv,
                                             'transport': tr, 'impl': type(e).__name__,
                                             'clause': 'parsing never fails'}, key='request-raised')
            reqs.append(None)
            cases.append([0, '', kb, csv])
            continue
        reqs.append(req)
        names = list(req.params.keys())[:6] + ['zz', 'a']
        # the model / reference read the ORIGINAL str, whatever bytes or tunnelled str carried it
        cases.append([1, s, kb, csv, True, names, req_flag,
                      [] if mn is None else [mn], [] if mx is None else [mx], bat])
    outs = model.run_many(cases)
    # for the PEP 3333 transport: what a str-level reading of the tunnelled text gives (known finding)
    tun_ref = {}
    tun = sorted({(j[0], j[1], j[2]) for j in jobs if j[3] == 'wsgi-pep3333'})
    for (s, kb, csv), o in zip(tun, model.run_many([[0, tunnel(s), kb, csv] for (s, kb, csv) in tun])):
        tun_ref[(s, kb, csv)] = m_params(o[1])
    for job, req, case, o in zip(jobs, reqs, cases, outs):
        if req is None:
            continue
        (s, kb, csv, tr, req_flag, mn, mx, bat) = job
        base = {'query_string': s, 'keep_blank': kb, 'csv': csv, 'transport': tr, 'asgi': tr == 'asgi'}
        r = canon_params(req.params)
        ctx.count('request-' + tr)
        ctx.note_case(('r', s, kb, csv, tr), bool(r))
        if o[0] != 1:
            if corr is None:
                corr = dict(base, what='model crashed', impl=r)
            continue
        refp = m_params(o[2])
        if r != refp:
            explained = None
            if tr == 'wsgi-pep3333' and r == tun_ref.get((s, kb, csv)):
                explained = 'wsgi-reads-tunnelled-utf8-as-latin1'
            ctx.violation('params-not-reference',
                          dict(base, fn='req.params', impl=r, reference=refp, explained_by=explained,
                               clause='names and values are decoded as UTF-8: mapping equals the reference reading '
                                      'of the query string'),
                          key='req-params-ref-' + tr)
            continue
        if m_params(o[1]) != r and corr is None:
            corr = dict(base, fn='req.params', impl=r, model=m_params(o[1]))
        names = case[5]
        for name, (mg, sg) in zip(names, o[3]):
            check_getters(ctx, falcon, req, base, name, req_flag, mn, mx, bat, mg, sg)
    if corr:
        ctx.violation('correspondence-broken', dict(corr, broken='C08.request_corr'),
                      found_input=bool(ctx.violations), key='req-corr')


# how a query string (a str) reaches a Request object:
#  'wsgi'          QUERY_STRING = the str itself (what falcon.testing.create_environ builds)
#  'asgi'          scope['query_string'] = the str as UTF-8 bytes (ASGI spec)
#  'wsgi-pep3333'  QUERY_STRING = the UTF-8 bytes decoded as latin-1 (what a PEP 3333 server hands over)
TRANSPORTS = ['wsgi', 'asgi', 'wsgi-pep3333']


def tunnel(s):
    return s.encode('utf-8').decode('latin-1')


def make_request(testing, s, transport, opts):
    if transport == 'asgi':
        return testing.create_asgi_req(query_string=s, options=opts)
    if transport == 'wsgi-pep3333':
        return testing.create_req(query_string=tunnel(s), options=opts)
    return testing.create_req(query_string=s, options=opts)


def check_getters(ctx, falcon, req, base, name, required, mn, mx, bat, mg, sg):
    """mg / sg: model / spec getter outcomes [get_param, int, bool, list, list(int), has_param]"""
    spec_get = dec_outcome(sg[0], common.wstr)
    state = {'params': canon_params(req.params)}
    obs = {}

    def call(fn, thunk, spec, mod):
        """run one getter, then require the parameter mapping to be what it was (getters may only
        write into the store= dict)"""
        obs[fn] = (thunk(), spec, mod)
        now = canon_params(req.params)
        if now != state['params']:
            ctx.violation('getter-mutated-params',
                          dict(base, fn=fn, name=name, required=required, params_before=state['params'],
                               params_after=now,
                               clause='the parameter mapping equals the reference reading (also after a getter ran)'),
                          key='mutated-' + fn)
            state['params'] = now       # report the getter that wrote, not the ones after it

    wl = lambda l: [common.wstr(x) for x in l]  # noqa: E731
    call('get_param', lambda: observe(falcon, req.get_param, name, required=required), spec_get,
         dec_outcome(mg[0], common.wstr))
    call('get_param_as_bool', lambda: observe(falcon, req.get_param_as_bool, name, required=required, blank_as_true=bat),
         dec_outcome(sg[2], bool), dec_outcome(mg[2], bool))
    call('get_param_as_list', lambda: observe(falcon, req.get_param_as_list, name, required=required),
         dec_outcome(sg[3], wl), dec_outcome(mg[3], wl))
    vals = req.params.get(name)
    vals = vals if isinstance(vals, list) else ([] if vals is None else [vals])
    if all(int_domain(v) for v in vals):
        call('get_param_as_int', lambda: observe(falcon, req.get_param_as_int, name, required=required, min_value=mn,
                                                 max_value=mx), dec_outcome(sg[1]), dec_outcome(mg[1]))
        call('get_param_as_list(int)', lambda: observe(falcon, req.get_param_as_list, name, required=required,
                                                       transform=int), dec_outcome(sg[4]), dec_outcome(mg[4]))
    else:
        ctx.count('int-out-of-domain')
    # converter oracles: falcon's wrapping only (proved: Model.get_param_conv factors through get_param)
    fl = (None if mn is None else float(mn), None if mx is None else float(mx))
    call('get_param_as_float', lambda: observe(falcon, req.get_param_as_float, name, required=required,
                                               min_value=fl[0], max_value=fl[1]), via(spec_get, float, fl[0], fl[1]), None)
    call('get_param_as_uuid', lambda: observe(falcon, req.get_param_as_uuid, name, required=required),
         via(spec_get, uuid.UUID), None)
    call('get_param_as_datetime', lambda: observe(falcon, req.get_param_as_datetime, name, required=required,
                                                  format_string='%Y'),
         via(spec_get, lambda s: datetime.datetime.strptime(s, '%Y')), None)
    call('get_param_as_date', lambda: observe(falcon, req.get_param_as_date, name, required=required, format_string='%Y'),
         via(spec_get, lambda s: datetime.datetime.strptime(s, '%Y').date()), None)
    call('get_param_as_json', lambda: observe(falcon, req.get_param_as_json, name, required=required),
         via(spec_get, json_conv), None)
    hp = req.has_param(name)
    if canon_params(req.params) != state['params']:
        ctx.violation('getter-mutated-params', dict(base, fn='has_param', name=name, params_before=state['params'],
                                                    params_after=canon_params(req.params)), key='mutated-has_param')
    if hp != bool(sg[5]):
        ctx.violation('getter-clause-violated', dict(base, fn='has_param', name=name, impl=hp, reference=bool(sg[5])),
                      key='has_param')
    for fn, (impl, spec, mod) in obs.items():
        ctx.count(fn)
        ctx.note_case((fn, base['query_string'], base['keep_blank'], base['csv'], base['asgi'], name, required),
                      impl[0] != 1)
        if not same(impl, spec):
            if impl[0] in ('exc', 'inconsistent'):
                clause = 'getter returns a value or raises the documented 400-class error'
            else:
                clause = 'getter returns the reference conversion of the last occurrence / honours required, default, store, min, max'
            ctx.violation('getter-clause-violated',
                          dict(base, fn=fn, name=name, required=required, min_value=mn, max_value=mx,
                               blank_as_true=bat, impl=impl, reference=spec, clause=clause),
                          key='getter-%s-%s' % (fn, impl[0]))
        elif mod is not None and not same(impl, mod):
            ctx.violation('correspondence-broken', dict(base, fn=fn, name=name, impl=impl, model=mod,
                                                        broken='C08.getter_corr'), found_input=False, key='getter-corr')


def bounds_part(ctx, model):
    """min_value / max_value systematically: every pair over {absent, 0, -1, 1, v, v-1, v+1} around the
    value v, for the int getter (judged by the extracted reference getter, and the model) and the
    float getter (reference get_param composed with float() and the bounds), on WSGI and ASGI."""
    import falcon
    from falcon import testing
    ints = ['0', '1', '-1', '2', '-2', '5', '41', '42', ' 7 ', '+3', '007', '-0']
    floats = ['0.0', '0.5', '-0.5', '1.0', '-1.0', '2.5', '1e1', '-0.0', '3']
    jobs = []
    for text in ints + floats:
        try:
            v = int(text)
        except ValueError:
            v = None
        fv = float(text)
        base_b = [None, 0, -1, 1]
        ib = base_b + ([v, v - 1, v + 1] if v is not None else [])
        fb = base_b + [fv, fv - 1, fv + 1, fv - 0.5, fv + 0.5]
        for tr in TRANSPORTS[:2]:
            jobs.append((text, tr, ib, fb, v is not None))
    cases, meta = [], []
    for text, tr, ib, fb, is_int in jobs:
        qs = 'n=' + text.replace(' ', '+').replace('+3', '%2B3') + '&m=x'
        if is_int:
            for mn in ib:
                for mx in ib:
                    cases.append([2, w_params([('n', text.replace('+3', '+3')), ('m', 'x')]), True, 'n', False,
                                  [] if mn is None else [mn], [] if mx is None else [mx], True])
                    meta.append((qs, tr, mn, mx))
    outs = model.run_many(cases)
    reqs = {}
    for (qs, tr, mn, mx), o in zip(meta, outs):
        req = reqs.get((qs, tr))
        if req is None:
            req = reqs[(qs, tr)] = make_request(testing, qs, tr, falcon.RequestOptions())
        impl = observe(falcon, req.get_param_as_int, 'n', min_value=mn, max_value=mx)
        spec, mod = dec_outcome(o[1][1]), dec_outcome(o[0][1])
        ctx.count('int-bounds')
        ctx.note_case(('ib', qs, tr, mn, mx), impl[0] == 0)
        base = {'query_string': qs, 'keep_blank': True, 'csv': False, 'transport': tr, 'asgi': tr == 'asgi'}
        if not same(impl, spec):
            ctx.violation('getter-clause-violated',
                          dict(base, fn='get_param_as_int', name='n', required=False, min_value=mn, max_value=mx,
                               impl=impl, reference=spec, clause='min_value / max_value are honoured exactly'),
                          key='int-bounds-%s' % impl[0])
        elif not same(impl, mod):
            ctx.violation('correspondence-broken', dict(base, fn='get_param_as_int', impl=impl, model=mod,
                                                        broken='C08.getter_corr'), found_input=False, key='getter-corr')
    for text, tr, ib, fb, is_int in jobs:
        qs = 'n=' + text.replace(' ', '+').replace('+3', '%2B3') + '&m=x'
        req = reqs.get((qs, tr)) or make_request(testing, qs, tr, falcon.RequestOptions())
        got = req.get_param('n')
        for mn in fb:
            for mx in fb:
                impl = observe(falcon, req.get_param_as_float, 'n', min_value=mn, max_value=mx)
                spec = via([0, got], float, mn, mx)
                ctx.count('float-bounds')
                ctx.note_case(('fb', qs, tr, mn, mx), impl[0] == 0)
                if not same(impl, spec):
                    ctx.violation('getter-clause-violated',
                                  {'query_string': qs, 'keep_blank': True, 'csv': False, 'transport': tr,
                                   'fn': 'get_param_as_float', 'name': 'n', 'required': False, 'min_value': mn,
                                   'max_value': mx, 'impl': impl, 'reference': spec,
                                   'clause': 'min_value / max_value are honoured exactly'},
                                  key='float-bounds-%s' % impl[0])


def converter_values(ctx):
    """for every oracle-backed getter: the accepted language of its reference converter, produced by
    mutating valid values, plus near misses"""
    rng = ctx.rng
    u = '12345678-1234-5678-9abc-def012345678'
    h = u.replace('-', '')
    uuids = [u, h, u.upper(), h.upper(), '{' + u + '}', '{' + h + '}', 'urn:uuid:' + u, 'URN:UUID:' + u, 'urn:uuid:' + h,
             '{urn:uuid:' + u + '}', h[:4] + '-' + h[4:], '-'.join(h[i:i + 4] for i in range(0, 32, 4)), '-' + h, h + '-',
             '-'.join(h), ' ' + u, u + ' ', '\t' + h, u[:-1], u + '0', h[:-1] + 'g', '{' + u, u + '}', '{{' + u + '}}',
             'uuid:' + u, 'urn:' + h, h[:16] + '_' + h[17:], '0x' + h[2:], '+' + h[1:], '', 'x', h.replace('1', '\u0661'),
             u.replace('-', '\u2010')]
    for _ in range(40):
        x = list(rng.choice([u, h, '{' + u + '}', 'urn:uuid:' + u]))
        for _ in range(rng.randint(1, 3)):
            i = rng.randrange(len(x) + 1)
            r = rng.random()
            if r < 0.4:
                x.insert(i, rng.choice('-{}:aA0 g'))
            elif r < 0.7 and x:
                del x[min(i, len(x) - 1)]
            elif x:
                j = min(i, len(x) - 1)
                x[j] = x[j].swapcase()
        uuids.append(''.join(x))
    floats = ['1', '1.5', ' 1.5 ', '\t-2.25\n', '1e3', '1E3', '1e-3', '+.5', '-.5', '5.', '.', 'inf', '-inf', '+Infinity', 'INF',
              'nan', 'NaN', '-nan', '1_0', '1__0', '_1', '1_', '1_0.0_1', '0x10', '1e', 'e1', '1e400', '-1e400', '1e-400', '-0.0',
              '1,5', '1 5', '', ' ', '\uff11.\uff15', '\u0661\u0662', '1\xa0', '\xa01', '1\u20095', 'infinity1', '++1', '1.5.2', '0b1']
    dts = {'%Y-%m-%dT%H:%M:%S%z': ['2020-02-29T23:59:59Z', '2020-02-29T23:59:59+00:00', '2021-02-29T00:00:00Z',
                                   '0001-01-01T00:00:00+0000', '9999-12-31T23:59:59-2359', '2020-1-2T3:4:5Z', '2020-01-02t03:04:05z',
                                   '2020-01-02T03:04:05', '2020-01-02T03:04:05+05:30', '2020-01-02T03:04:05+0530',
                                   '2020-01-02T03:04:05+05:30:15', '2020-01-02T24:00:00Z', '2020-01-02T03:04:60Z',
                                   '2020-01-02T03:04:61Z', '2020-13-01T00:00:00Z', '2020-00-10T00:00:00Z', ' 2020-01-02T03:04:05Z',
                                   '2020-01-02T03:04:05Z ', '2020-01-02 03:04:05Z', '20200102T030405Z', '', 'x'],
           '%Y-%m-%d': ['2020-02-29', '2021-02-29', '1900-02-29', '2000-02-29', '0001-01-01', '9999-12-31', '2020-1-2',
                        '2020-01-32', '2020-04-31', '0000-01-01', '10000-01-01', '2020-01-02 ', ' 2020-01-02', '2020-01-02x',
                        '2020/01/02', '\uff12\uff10\uff12\uff10-01-02', '', '2020-01'],
           '%Y': ['1', '0001', '1994', '9999', '0000', '19945', ' 1994', '1994 ', 'abcd', ''],
           '%d %b %Y %H:%M': ['15 Nov 1994 12:45', '15 nov 1994 12:45', '5 NOV 1994 2:5', '15  Nov 1994 12:45', '31 Nov 1994 00:00',
                              '15 Nov 1994 24:00', '15 November 1994 12:45']}
    jsons = ['1', '-0', '1e5', '1.5', 'true', 'false', 'null', '"x"', '""', '[]', '{}', '[1, 2.5, true, null, "x"]',
             '{"a": {"b": [1, {"c": null}]}}', ' 1 ', '\n[1]\n', '"\xe9"', '"\u20ac"', '"\U0001f600"', '"ab\xe9"', '"\xe9ab"',
             '{"\xe9": 1}', '{"k\u20ac": "v\U0001f600"}', '["\xe9", "\u20ac", "\U0001f600"]', '{"a": "\U0001f600"}',
             '"\\u00e9"', '"\\ud83d\\ude00"', '"\xe9\xe9\xe9\xe9"', '[1, "\U0001f600\U0001f600"]', '"\u20ac" ',
             '1\xe9', '"\xe9', '\xe9', '"\xe9"x', '[1,]', '{', '"unterminated', 'NaN', 'Infinity', '-Infinity', 'nan', "'x'",
             '', ' ', '01', '1 2', '[1]\u20ac', '{"a":1}\xe9\xe9', '"x\xe9"]', '[1]x\U0001f600']
    return uuids, floats, dts, jsons


def converter_part(ctx, model):
    """float / uuid / datetime / date / json getters against their reference converter over its whole
    accepted language: getter == converter(last occurrence), 400 iff the converter raises ValueError"""
    import falcon
    import falcon.media
    from falcon import testing, uri
    rng = ctx.rng
    uuids, floats, dts, jsons = converter_values(ctx)

    def conv_outcome(conv, v):
        try:
            return [0, conv(v)]
        except ValueError:
            return [3]

    def requests_for(v, handler_mode=0):
        """the value as the last occurrence of p, percent-encoded and (when possible) literal, on WSGI/ASGI"""
        forms = ['p=zzz&p=' + uri.encode_value(v)]
        if v and not any(c in v for c in '&=+%#') and v == v.strip() and '\n' not in v and '\t' not in v:
            forms.append('q=1&p=' + v)
        for qs in forms:
            for tr in TRANSPORTS[:2]:
                opts = falcon.RequestOptions()
                if handler_mode == 1:
                    opts.media_handlers[falcon.MEDIA_JSON] = falcon.media.JSONHandler(loads=json.loads, dumps=json.dumps)
                elif handler_mode == 2:
                    del opts.media_handlers[falcon.MEDIA_JSON]
                try:
                    yield qs, tr, make_request(testing, qs, tr, opts)
                except Exception as e:  # noqa: BLE001
                    ctx.violation('request-raised', {'fn': 'Request', 'query_string': qs, 'transport': tr,
                                                     'impl': type(e).__name__}, key='request-raised')

    def judge(fn, qs, tr, v, impl, spec, req, extra=None):
        ctx.count('conv-' + fn)
        ctx.note_case(('conv', fn, qs, tr, json.dumps(extra, default=repr)), impl[0] == 0)
        if req.get_param('p') != v:
            return      # the transport did not deliver the value (covered by the parsing clauses)
        if not same(impl, spec):
            d = {'query_string': qs, 'keep_blank': True, 'csv': False, 'transport': tr, 'fn': fn, 'name': 'p',
                 'required': False, 'value': v, 'impl': impl, 'reference': spec,
                 'clause': 'the getter returns what the reference conversion gives for the last occurrence '
                           '(400 iff the conversion raises ValueError)'}
            d.update(extra or {})
            ctx.violation('getter-clause-violated', d, key='conv-%s-%s' % (fn, impl[0]))

    for v in uuids:
        for qs, tr, req in requests_for(v):
            judge('get_param_as_uuid', qs, tr, v, observe(falcon, req.get_param_as_uuid, 'p'), conv_outcome(uuid.UUID, v), req)
    for v in floats:
        for qs, tr, req in requests_for(v):
            judge('get_param_as_float', qs, tr, v, observe(falcon, req.get_param_as_float, 'p'), conv_outcome(float, v), req)
    for fmt, vals in dts.items():
        for v in vals:
            for qs, tr, req in requests_for(v):
                kw = {} if fmt == '%Y-%m-%dT%H:%M:%S%z' and rng.random() < 0.5 else {'format_string': fmt}
                if fmt != '%Y-%m-%d' or 'format_string' in kw:
                    judge('get_param_as_datetime', qs, tr, v, observe(falcon, req.get_param_as_datetime, 'p', **kw),
                          conv_outcome(lambda s: datetime.datetime.strptime(s, fmt), v), req, {'format_string': fmt})
                if fmt != '%Y-%m-%dT%H:%M:%S%z':
                    kw = {} if fmt == '%Y-%m-%d' and rng.random() < 0.5 else {'format_string': fmt}
                    judge('get_param_as_date', qs, tr, v, observe(falcon, req.get_param_as_date, 'p', **kw),
                          conv_outcome(lambda s: datetime.datetime.strptime(s, fmt).date(), v), req, {'format_string': fmt})
    for v in jsons:
        for mode in (0, 1, 2):
            for qs, tr, req in requests_for(v, mode):
                judge('get_param_as_json', qs, tr, v, observe(falcon, req.get_param_as_json, 'p'), conv_outcome(json_conv, v),
                      req, {'json_handler': ['default options', 'custom JSONHandler', 'no handler registered'][mode]})


def json_conv(s):
    if s == '':
        raise ValueError('empty')
    return json.loads(s)


# ---- to_query_str

def w_item(x):
    if isinstance(x, bool):
        return [0, x]
    return [1, str(x)]


def w_mapping(m):
    return [[k, [1, [w_item(i) for i in v]] if isinstance(v, list) else [0, w_item(v)]] for k, v in m.items()]


def mappings(ctx):
    rng = ctx.rng
    keys = ['a', 'b', '', 'b c', '\xe9', 'a&b', 'k=', '%41', ',', 'x+y', 'id', '€', '?', 'a.b-c_d~']
    scal = ['', '1', 'x y', 'a,b', ',', '%2C', '&', '=', '+', '%', 'caf\xe9', '\U0001F600', 'true', 'a=b&c', ' ', 'A-._~',
            '\x00']
    out = [{}, {'a': []}, {'a': ['x']}, {'a': ['', '']}, {'': ''}, {'': 'x'}, {'': ['', '']}, {'a': True}, {'a': False},
           {'a': [True, False]}, {'a': [True, 'x']}, {'a': 5}, {'a': [1, 2]}, {'a': 1.5}, {'a': None}]
    for k in keys:
        for v in scal:
            out.append({k: v})
    for k in keys[:6]:
        for v1 in scal:
            for v2 in scal[:8]:
                out.append({k: [v1, v2]})
    n = 1500 if ctx.tier == 'quick' else 20000
    for _ in range(n):
        m = {}
        for _ in range(rng.choice([1, 2, 3, 4])):
            k = rng.choice(keys)
            r = rng.random()
            if r < 0.45:
                m[k] = rng.choice(scal)
            elif r < 0.9:
                m[k] = [rng.choice(scal) for _ in range(rng.choice([0, 1, 2, 2, 3, 5]))]
            elif r < 0.95:
                m[k] = rng.choice([True, False, 7])
            else:
                m[k] = [rng.choice([True, False, 'x', 3]) for _ in range(rng.choice([2, 3]))]
        out.append(m)
    return out


def to_qs_part(ctx, uri, model):
    import falcon
    ms = mappings(ctx)
    corr = None
    for cdl in (True, False):
        for prefix in (True, False):
            outs = model.run_many([[3, w_mapping(m), cdl, prefix] for m in ms])
            for m, o in zip(ms, outs):
                try:
                    r = falcon.to_query_str(m, comma_delimited_lists=cdl, prefix=prefix)
                except Exception as e:  # noqa: BLE001
                    ctx.violation('to_query_str-raised', {'fn': 'to_query_str', 'params': m, 'impl': type(e).__name__},
                                  key='toqs-raised')
                    continue
                ctx.count('to_query_str')
                ctx.note_case(('t', json.dumps(m, default=repr), cdl, prefix), bool(r))
                canonical = bool(o[1])
                if canonical:
                    expected = m_params(o[2])
                    for csv in ((True,) if cdl else (True, False)):
                        back = canon_params(uri.parse_query_string(r[1:] if prefix else r, keep_blank=True, csv=csv))
                        ctx.count('roundtrip')
                        if back != expected:
                            ctx.violation('roundtrip-broken',
                                          {'fn': 'to_query_str', 'params': m, 'comma_delimited_lists': cdl,
                                           'prefix': prefix, 'csv': csv, 'rendered': r, 'parsed_back': back,
                                           'clause': 'a mapping rendered with to_query_str parses back to itself'},
                                          key='roundtrip')
                mod = common.wstr(o[0][1]) if o[0][0] == 1 else None
                if mod != r and corr is None:
                    corr = {'fn': 'to_query_str', 'params': m, 'comma_delimited_lists': cdl, 'prefix': prefix,
                            'impl': r, 'model': mod}
    ctx.sample({'to_query_str': {'a': ['x y', 'b,c'], 'q': 'caf\xe9'},
                'impl': falcon.to_query_str({'a': ['x y', 'b,c'], 'q': 'caf\xe9'})})
    if corr:
        ctx.violation('correspondence-broken', dict(corr, broken='C08.to_query_str_corr'),
                      found_input=bool(ctx.violations), key='toqs-corr')


# ---- replay

def replay(ctx, obj):
    import falcon
    from falcon import testing, uri
    model = FastModel(ctx)
    fn = obj.get('fn')
    ctx.note_case(('replay', json.dumps(obj, default=repr)[:200]), True)
    if fn == 'parse_query_string':
        parse_part(ctx, uri, model, [obj['input']])
    elif fn == 'to_query_str' or 'params' in obj:
        main(ctx)
    elif 'query_string' in obj:
        s, kb, csv = obj['query_string'], obj['keep_blank'], obj['csv']
        if 'transport' in obj:
            trs = [obj['transport']]
        elif 'asgi' in obj:
            trs = ['asgi' if obj['asgi'] else 'wsgi']
        else:
            trs = TRANSPORTS[:2]
        for tr in trs:
            opts = falcon.RequestOptions()
            opts.keep_blank_qs_values = kb
            opts.auto_parse_qs_csv = csv
            req = make_request(testing, s, tr, opts)
            names = [obj['name']] if 'name' in obj else list(req.params.keys()) + ['zz']
            mn, mx = obj.get('min_value'), obj.get('max_value')
            required = bool(obj.get('required'))
            bat = obj.get('blank_as_true', True)
            o = model.run([1, s, kb, csv, True, names, required, [] if mn is None else [mn],
                           [] if mx is None else [mx], bat])
            base = {'query_string': s, 'keep_blank': kb, 'csv': csv, 'transport': tr, 'asgi': tr == 'asgi'}
            r = canon_params(req.params)
            ctx.sample({'replayed': base, 'params': r})
            if r != m_params(o[2]):
                explained = None
                if tr == 'wsgi-pep3333' and r == m_params(model.run([0, tunnel(s), kb, csv])[1]):
                    explained = 'wsgi-reads-tunnelled-utf8-as-latin1'
                ctx.violation('params-not-reference', dict(base, fn='req.params', impl=r, reference=m_params(o[2]),
                                                           explained_by=explained))
                continue
            for name, (mg, sg) in zip(names, o[3]):
                check_getters(ctx, falcon, req, base, name, required, mn, mx, bat, mg, sg)
    else:
        main(ctx)
