"""Tables for coq/gen/ConstsC09.v, from the VALUES of the staged falcon modules / the runtime."""
import re
import sys


def emit(A, nlist, strlit, strlist):
    from falcon import forwarded
    from falcon import request_helpers
    A('(* runtime *)')
    A('Definition int_max_str_digits : N := %d.' % sys.get_int_max_str_digits())
    A('Definition str_ws_latin1 : list N := %s.' % nlist(c for c in range(256) if chr(c).isspace()))
    A('(* falcon/forwarded.py: characters accepted by the token / qdtext / quoted-pair classes *)')
    tok = re.compile(forwarded._TOKEN)
    A('Definition fwd_tchar : list N := %s.' % nlist(c for c in range(256) if tok.fullmatch(chr(c))))
    qd = re.compile(forwarded._QDTEXT)
    A('Definition fwd_qdtext : list N := %s.' % nlist(c for c in range(256) if qd.fullmatch(chr(c))))
    qp = re.compile(forwarded._QUOTED_PAIR)
    A('Definition fwd_qpchar : list N := %s.' % nlist(c for c in range(256) if qp.fullmatch('\\' + chr(c))))
    A('(* falcon/request_helpers.py: _COOKIE_NAME_RESERVED_CHARS over latin-1 *)')
    rs = request_helpers._COOKIE_NAME_RESERVED_CHARS
    A('Definition cookie_name_reserved : list N := %s.' % nlist(c for c in range(256) if rs.search(chr(c))))
