"""Tables for coq/gen/ConstsC09.v, from the VALUES of the staged falcon modules / the runtime."""
import re
import sys


def emit(A, nlist, strlit, strlist):
    from falcon import forwarded
    from falcon import request_helpers
    A('(* runtime *)')
    A('Definition int_max_str_digits : N := %d.' % sys.get_int_max_str_digits())
    A('Definition str_ws_latin1 : list N := %s.' % nlist(c for c in range(256) if chr(c).isspace()))
    A('(* falcon/forwarded.py: characters accepted by the token / qdtext / quoted-pair classes *)')
    tok = re.compile(forwarded._TOKEN)
    A('Definition fwd_tchar : list N := %s.' % nlist(c for c in range(256) if tok.fullmatch(chr(c))))
    qd = re.compile(forwarded._QDTEXT)
    A('Definition fwd_qdtext : list N := %s.' % nlist(c for c in range(256) if qd.fullmatch(chr(c))))
    qp = re.compile(forwarded._QUOTED_PAIR)
    A('Definition fwd_qpchar : list N := %s.' % nlist(c for c in range(256) if qp.fullmatch('\\' + chr(c))))
    A('(* falcon/request_helpers.py: _COOKIE_NAME_RESERVED_CHARS over latin-1 *)')
    rs = request_helpers._COOKIE_NAME_RESERVED_CHARS
    A('Definition cookie_name_reserved : list N := %s.' % nlist(c for c in range(256) if rs.search(chr(c))))
    _emit_dates(A, nlist, strlit, strlist)


def _emit_dates(A, nlist, strlit, strlist):
    """names and platform facts used by strftime / strptime for HTTP dates (current locale)"""
    import _strptime
    import datetime
    A('(* HTTP dates: names as strftime renders them (2024-01-01 is a Monday), in calendar order; the *)')
    A('(* alternation order of strptime\'s regex for %a %A %b %Z (lower-case); platform padding of %Y *)')
    days = [datetime.date(2024, 1, 1 + i) for i in range(7)]
    A('Definition date_a_weekday : list (list N) := %s.' % strlist(d.strftime('%a') for d in days))
    A('Definition date_f_weekday : list (list N) := %s.' % strlist(d.strftime('%A') for d in days))
    A('Definition date_a_month : list (list N) := %s.'
      % strlist(datetime.date(2024, m, 1).strftime('%b') for m in range(1, 13)))
    t = _strptime.TimeRE()

    def alts(key):
        pat = t[key]
        inner = pat[pat.index('>') + 1:-1]
        names = [x.replace('\\', '') for x in inner.split('|')] if inner else []
        # equal-length alternatives come in set order: fix it (none can be a prefix of another)
        return sorted(names, key=lambda n: (-len(n), n))
    A('Definition strp_a_order : list (list N) := %s.' % strlist(alts('a')))
    A('Definition strp_A_order : list (list N) := %s.' % strlist(alts('A')))
    A('Definition strp_b_order : list (list N) := %s.' % strlist(alts('b')))
    A('Definition strp_Z_order : list (list N) := %s.' % strlist(alts('Z')))
    A('Definition strftime_Y_padded : bool := %s.'
      % ('true' if datetime.datetime(1, 1, 1).strftime('%Y') == '0001' else 'false'))
