"""C16 — tables regenerated from the staged falcon.routing.static (values, not text)."""
import sys


def ranges(points):
    out = []
    for c in points:
        if out and out[-1][1] == c - 1:
            out[-1][1] = c
        else:
            out.append([c, c])
    return out


def emit(A, nlist, strlit, strlist):
    from falcon.routing.static import StaticRoute
    pat = StaticRoute._DISALLOWED_CHARS_PATTERN
    # every code point (surrogates included: a Python str may hold them) through the compiled pattern
    allchars = ''.join(chr(c) for c in range(sys.maxunicode + 1))
    bad = sorted(ord(m.group(0)) for m in pat.finditer(allchars))
    assert all(len(m.group(0)) == 1 for m in pat.finditer(allchars[:0x3000]))
    ws = [c for c in range(sys.maxunicode + 1) if chr(c).isspace()]
    # str.strip() with no argument strips exactly the isspace() characters
    assert all((chr(c) + 'x' + chr(c)).strip() == 'x' for c in ws)

    def rl(rs):
        return '[' + '; '.join('(%d, %d)' % (a, b) for a, b in rs) + ']'
    A('(* falcon/routing/static.py: StaticRoute._DISALLOWED_CHARS_PATTERN as code-point ranges *)')
    A('Definition static_disallowed_ranges : list (N * N) := %s.' % rl(ranges(bad)))
    A('(* str.strip(): the isspace() code points *)')
    A('Definition py_space_ranges : list (N * N) := %s.' % rl(ranges(ws)))
    A('Definition static_max_len : N := %d.' % StaticRoute._MAX_NON_PREFIXED_LEN)
    A('Definition static_disallowed_prefixes : list (list N) := %s.'
      % strlist(StaticRoute._DISALLOWED_NORMALIZED_PREFIXES))
    import os
    A('Definition os_sep : list N := %s.' % strlit(os.path.sep))
