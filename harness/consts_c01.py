"""C01 tables regenerated from the VALUES / observable behaviour of the staged falcon modules."""
import ast
import keyword
import re
import sys


def emit(A, nlist, strlit, strlist):
    from falcon.routing import compiled, converters
    A('(* keyword.kwlist of the running interpreter (compiled.py tests `name in keyword.kwlist`) *)')
    A('Definition kwlist : list (list N) := %s.' % strlist(keyword.kwlist))
    ws_re = [c for c in range(sys.maxunicode + 1) if re.match(r'\s', chr(c))]
    ws_strip = [c for c in range(sys.maxunicode + 1) if chr(c).strip() == '']
    A('(* code points matched by re `\\s` (str pattern) / removed by str.strip() *)')
    A('Definition ws_re : list N := %s.' % nlist(ws_re))
    A('Definition ws_strip : list N := %s.' % nlist(ws_strip))
    A('(* built-in converter names, and which of them consume multiple segments *)')
    A('Definition builtin_convs : list (list N) := %s.' % strlist([n for n, _ in converters.BUILTIN]))
    A('Definition builtin_multi : list (list N) := %s.'
      % strlist([n for n, k in converters.BUILTIN if converters._consumes_multiple_segments(k)]))
    # does the identifier pattern accept a trailing newline ("$" vs "\Z")?
    strict = compiled._IDENTIFIER_PATTERN.match('a\n') is None
    A('Definition ident_strict : bool := %s.' % ('true' if strict else 'false'))
    # is a literal segment emitted into the finder source so that it denotes itself?
    sound = True
    for lit in ["it's", 'a\\b', 'q"x', "\\'"]:
        src = compiled._CxIfPathSegmentLiteral(0, lit).src(0)
        try:
            tree = ast.parse(src.strip() + '\n    pass')
            cmp_ = tree.body[0].test
            ok = (isinstance(cmp_, ast.Compare) and len(cmp_.comparators) == 1
                  and isinstance(cmp_.comparators[0], ast.Constant) and cmp_.comparators[0].value == lit)
        except SyntaxError:
            ok = False
        sound = sound and ok
    A('Definition literal_src_quoted : bool := %s.' % ('true' if sound else 'false'))
    # is a rejected insertion atomic (no partial branch left behind)?  observed on the public API
    r = compiled.CompiledRouter()

    class _R:
        def on_get(self, req, resp):
            pass
    try:
        r.add_route('/{y}/{x:path}/b', _R())
    except compiled.UnacceptableRouteError:
        pass
    try:
        r.add_route('/{z}/foo', _R())
        atomic = r.find('/q/foo') is not None
    except compiled.UnacceptableRouteError:
        atomic = False
    A('Definition insert_atomic : bool := %s.' % ('true' if atomic else 'false'))
